import SimVerif.Props.C04
import Mathlib.Data.List.Perm.Basic
/-!
# C03 — track lifecycle: conservation, exact expiry, wasted once, GC timing

Model: `SimVerif.Tracker` (epochs, `expired`, `collect` = `auto_waste`, countdown `awStep`, `wastedOp`,
`idle`, `clearWasted`, statistics). For every distance table and every valid choice.
-/
namespace SimVerif.C03
open SimVerif.Tracker SimVerif.C01 List

/-- **Exact expiry**: a track is expired exactly when its scene's epoch exceeds its last update
epoch by more than `max_idle_epochs`. -/
theorem C03_expiry (cfg : Cfg) (st : St) (t : Trk) :
    expired cfg st t = true ↔ t.lastUpd + cfg.maxIdle < epochOf st t.scene := by
  simp [expired]

theorem collect_epochs (cfg : Cfg) (st : St) (s : Nat) : epochOf (collect cfg st) s = epochOf st s := rfl

/-- **Epochs**: `predict` advances its own scene by one (empty call or not), `skip` by `n`; other scenes
are untouched by either; collecting never changes an epoch. -/
theorem C03_epochs (cfg : Cfg) (st : St) (scene n : Nat) :
    (epochOf (skip cfg st scene n) scene = epochOf st scene + n ∧
     ∀ s, s ≠ scene → epochOf (skip cfg st scene n) s = epochOf st s) ∧
    (∀ st' dets table picks lo hi recs,
      predictScene cfg st scene dets table picks lo hi = some (st', recs) →
        epochOf st' scene = epochOf st scene + 1 ∧ ∀ s, s ≠ scene → epochOf st' s = epochOf st s) := by
  refine ⟨⟨?_, ?_⟩, ?_⟩
  · unfold skip; rw [collect_epochs, epochOf_setEpoch, if_pos rfl]
  · intro s hs; unfold skip; rw [collect_epochs, epochOf_setEpoch, if_neg hs]
  · intro st' dets table picks lo hi recs h
    refine ⟨(C01_len_echo cfg st st' scene dets table picks lo hi recs h).2.2.2.2, ?_⟩
    obtain ⟨_, _, ha⟩ := predictScene_parts cfg st st' scene dets table picks lo hi recs h
    obtain ⟨_, _, _, _, _, _, b7, _⟩ := applyPicks_spec cfg scene _ dets picks _ st' recs ha
    intro s hs
    have h1 : epochOf st' s = epochOf (setEpoch st scene (epochOf st scene + 1)) s := by
      unfold epochOf; rw [b7]; rfl
    rw [h1, epochOf_setEpoch, if_neg hs]

/-- **An expired track is never continued**: whatever the table and the (valid) choice, every
continued track is unexpired at the call's epoch. -/
theorem C03_never_continued (cfg : Cfg) (st st' : St) (scene : Nat) (dets : List Det) (table : List Entry)
    (picks : List Pick) (lo hi : Nat) (recs : List Rec)
    (h : predictScene cfg st scene dets table picks lo hi = some (st', recs)) (tid : Nat) (vis : Bool)
    (hp : Pick.cont tid vis ∈ picks) :
    ∃ t, findLive st tid = some t ∧ expired cfg (setEpoch st scene (epochOf st scene + 1)) t = false := by
  obtain ⟨t, ht, hs, hne⟩ := C04.C04_no_cross cfg st st' scene dets table picks lo hi recs h tid vis hp
  refine ⟨t, ht, ?_⟩
  rw [Bool.eq_false_iff]
  intro hex
  rw [C03_expiry, epochOf_setEpoch, hs, if_pos rfl] at hex
  exact hne hex

/-- every id the tracker knows about, by place -/
def allIds (st : St) : List Nat := st.live.map (·.id) ++ st.wasted.map (·.id) ++ st.handed ++ st.cleared

theorem filter_split_perm {α : Type} (p : α → Bool) (l : List α) :
    l.filter (fun x => !p x) ++ l.filter p ~ l := by
  have := (filter_append_perm p l)
  exact perm_append_comm.trans this

/-- **Conservation**: collecting, handing out and clearing only move ids between places — nothing is
lost or duplicated; a predict adds exactly the ids of the tracks it starts. -/
theorem C03_conservation (cfg : Cfg) (st : St) :
    allIds (collect cfg st) ~ allIds st ∧
    allIds (awStep cfg st) ~ allIds st ∧
    (∀ s n, allIds (skip cfg st s n) ~ allIds st) ∧
    allIds (wastedOp cfg st).1 ~ allIds st ∧
    allIds (clearWasted st) ~ allIds st ∧
    (∀ p, allIds (setAutoWaste st p) = allIds st) ∧
    (∀ st' scene dets table picks lo hi recs,
      predictScene cfg st scene dets table picks lo hi = some (st', recs) →
        allIds st' ~ allIds st ++ freshIds picks) := by
  have hcollect : ∀ st : St, allIds (collect cfg st) ~ allIds st := by
    intro st
    have h := (filter_split_perm (expired cfg st) st.live).map (·.id)
    rw [map_append] at h
    show (map (·.id) (st.live.filter (fun t => !expired cfg st t)) ++
        map (·.id) (st.wasted ++ st.live.filter (fun t => expired cfg st t))) ++ st.handed ++ st.cleared ~
        (map (·.id) st.live ++ map (·.id) st.wasted) ++ st.handed ++ st.cleared
    rw [map_append]
    apply Perm.append_right
    apply Perm.append_right
    generalize map (·.id) (st.live.filter (fun t => !expired cfg st t)) = A at h ⊢
    generalize map (·.id) (st.live.filter (fun t => expired cfg st t)) = X at h ⊢
    generalize map (·.id) st.wasted = W
    generalize map (·.id) st.live = L at h ⊢
    calc A ++ (W ++ X) ~ A ++ (X ++ W) := Perm.append_left _ perm_append_comm
      _ = (A ++ X) ++ W := (append_assoc _ _ _).symm
      _ ~ L ++ W := Perm.append_right _ h
  refine ⟨hcollect st, ?_, ?_, ?_, ?_, fun _ => rfl, ?_⟩
  · unfold awStep
    split
    · exact hcollect st
    · exact Perm.refl _
  · intro s n; exact hcollect _
  · have hc := hcollect st
    refine Perm.trans ?_ hc
    show (map (·.id) (collect cfg st).live ++ map (·.id) ([] : List Trk)) ++
        ((collect cfg st).handed ++ map (·.id) (collect cfg st).wasted) ++ (collect cfg st).cleared ~
        (map (·.id) (collect cfg st).live ++ map (·.id) (collect cfg st).wasted) ++ (collect cfg st).handed ++ (collect cfg st).cleared
    apply Perm.append_right
    simp only [map_nil, append_nil, append_assoc]
    exact Perm.append_left _ perm_append_comm
  · show (map (·.id) st.live ++ map (·.id) ([] : List Trk)) ++ st.handed ++ (st.cleared ++ map (·.id) st.wasted) ~
        (map (·.id) st.live ++ map (·.id) st.wasted) ++ st.handed ++ st.cleared
    simp only [map_nil, append_nil, append_assoc]
    apply Perm.append_left
    generalize map (·.id) st.wasted = W
    calc st.handed ++ (st.cleared ++ W) = (st.handed ++ st.cleared) ++ W := (append_assoc _ _ _).symm
      _ ~ W ++ (st.handed ++ st.cleared) := perm_append_comm
  · intro st' scene dets table picks lo hi recs h
    obtain ⟨_, _, ha⟩ := predictScene_parts cfg st st' scene dets table picks lo hi recs h
    obtain ⟨_, _, _, _, _, _, _, b8, b9, b10, _, b12⟩ := applyPicks_spec cfg scene _ dets picks _ st' recs ha
    have hall : allIds st' = (st.live.map (·.id) ++ freshIds picks) ++ st.wasted.map (·.id) ++ st.handed ++ st.cleared := by
      simp only [allIds, b8, b9, b10, b12]; rfl
    rw [hall]
    show (st.live.map (·.id) ++ freshIds picks) ++ st.wasted.map (·.id) ++ st.handed ++ st.cleared ~
      ((st.live.map (·.id) ++ st.wasted.map (·.id)) ++ st.handed ++ st.cleared) ++ freshIds picks
    generalize st.live.map (·.id) = L
    generalize st.wasted.map (·.id) = W
    generalize freshIds picks = F
    simp only [append_assoc]
    apply Perm.append_left
    calc F ++ (W ++ (st.handed ++ st.cleared)) ~ (W ++ (st.handed ++ st.cleared)) ++ F := perm_append_comm
      _ = W ++ (st.handed ++ (st.cleared ++ F)) := by simp [append_assoc]

/-- **In exactly one place** (simple trackers): with unique ids bounded by the counter — true
initially — a predict keeps all ids pairwise distinct. -/
theorem C03_one_place (cfg : Cfg) (hb : cfg.batchIds = false) (st st' : St) (hinv : IdsBelow st)
    (hnd : (allIds st).Nodup) (scene : Nat) (dets : List Det) (table : List Entry) (picks : List Pick) (recs : List Rec)
    (h : predictScene cfg st scene dets table picks 0 0 = some (st', recs)) : (allIds st').Nodup := by
  have hperm := (C03_conservation cfg st).2.2.2.2.2.2 st' scene dets table picks 0 0 recs h
  rw [hperm.nodup_iff, nodup_append]
  obtain ⟨_, hgt, _⟩ := C01_distinct_fresh cfg hb st st' hinv scene dets table picks recs h
  obtain ⟨_, hf, _⟩ := predictScene_parts cfg st st' scene dets table picks 0 0 recs h
  have hfr : freshIds picks = (List.range (freshIds picks).length).map (fun i => st.nextId + 1 + i) := by
    unfold freshIdsOk at hf
    simp only [hb, Bool.false_eq_true, if_false, beq_iff_eq] at hf
    exact hf
  refine ⟨hnd, ?_, ?_⟩
  · rw [hfr]
    refine Nodup.map_on ?_ nodup_range
    intro a _ b _ hab; omega
  · intro a ha b hb' hab
    subst hab
    have hlt := hgt a hb'
    unfold allIds at ha
    simp only [mem_append, mem_map] at ha
    rcases ha with ((⟨t, ht, rfl⟩ | ⟨t, ht, rfl⟩) | ha) | ha
    · have := hinv.live t ht; omega
    · have := hinv.wasted t ht; omega
    · have := hinv.handed a ha; omega
    · have := hinv.cleared a ha; omega

/-- **Wasted once**: the ids handed out by one `wasted()` call were never handed out before (ids are
unique), and they are all recorded as handed — so they can never be handed out again. -/
theorem C03_wasted_once (cfg : Cfg) (st : St) (hnd : (allIds st).Nodup) :
    (∀ t ∈ (wastedOp cfg st).2, t.id ∉ st.handed ∧ t.id ∈ (wastedOp cfg st).1.handed) ∧
    (wastedOp cfg st).1.wasted = [] ∧
    (∀ t ∈ (wastedOp cfg st).2, t ∈ st.wasted ∨ (t ∈ st.live ∧ expired cfg st t = true)) := by
  have hc := ((C03_conservation cfg st).1.nodup_iff).mpr hnd
  refine ⟨?_, rfl, ?_⟩
  · intro t ht
    simp only [wastedOp] at ht ⊢
    refine ⟨?_, by simp [mem_map]; exact Or.inr ⟨t, ht, rfl⟩⟩
    intro hh
    -- t.id would occur twice in allIds (collect st): once in wasted, once in handed
    unfold allIds at hc
    have h1 : t.id ∈ map (·.id) (collect cfg st).live ++ map (·.id) (collect cfg st).wasted :=
      mem_append_right _ (mem_map_of_mem ht)
    have h2 : t.id ∈ (collect cfg st).handed := hh
    rw [append_assoc, append_assoc, ← append_assoc] at hc
    have := (nodup_append.mp hc).2.2 _ h1 _ (mem_append_left _ h2)
    exact this rfl
  · intro t ht
    simp only [wastedOp, collect, mem_append, mem_filter] at ht
    rcases ht with ht | ⟨ht, he⟩
    · exact Or.inl ht
    · exact Or.inr ⟨ht, he⟩

theorem expired_collect (cfg : Cfg) (st : St) (t : Trk) : expired cfg (collect cfg st) t = expired cfg st t := rfl

/-- collecting twice is collecting once -/
theorem collect_idem (cfg : Cfg) (st : St) : collect cfg (collect cfg st) = collect cfg st := by
  have h1 : (collect cfg (collect cfg st)).live = (collect cfg st).live := by
    show ((st.live.filter (fun t => !expired cfg st t)).filter (fun t => !expired cfg (collect cfg st) t)) = _
    simp only [expired_collect, filter_filter, Bool.and_self]
    rfl
  have h2 : (collect cfg (collect cfg st)).wasted = (collect cfg st).wasted := by
    show (collect cfg st).wasted ++ ((st.live.filter (fun t => !expired cfg st t)).filter (fun t => expired cfg (collect cfg st) t)) = _
    simp only [expired_collect, filter_filter]
    have : st.live.filter (fun t => expired cfg st t && !expired cfg st t) = [] := by
      apply filter_eq_nil_iff.mpr; intro a _; simp
    rw [this, append_nil]
  show ({ collect cfg st with live := (collect cfg (collect cfg st)).live, wasted := (collect cfg (collect cfg st)).wasted } : St) = collect cfg st
  rw [h1, h2]

/-- **GC timing does not show in `idle_tracks`**: the answer is the same whether or not the periodic
collection has already run — it lists exactly the unexpired tracks of the scene not updated in the
scene's current epoch. -/
theorem C03_idle (cfg : Cfg) (st : St) (scene : Nat) :
    idle cfg (collect cfg st) scene = idle cfg st scene ∧
    ∀ t, t ∈ idle cfg st scene ↔
      t ∈ st.live ∧ t.scene = scene ∧ ¬ (t.lastUpd + cfg.maxIdle < epochOf st t.scene) ∧ t.lastUpd ≠ epochOf st scene := by
  constructor
  · show (st.live.filter (fun t => !expired cfg st t)).filter
        (fun t => t.scene == scene && !expired cfg (collect cfg st) t && !(t.lastUpd == epochOf (collect cfg st) scene)) = _
    simp only [expired_collect, collect_epochs, filter_filter]
    unfold idle
    apply filter_congr
    intro t _
    cases expired cfg st t <;> simp
  · intro t
    simp only [idle, mem_filter, Bool.and_eq_true, beq_iff_eq, Bool.not_eq_true', expired, decide_eq_false_iff_not,
      beq_eq_false_iff_ne, ne_eq, and_assoc]

/-- **`wasted()` does not depend on GC timing either**: it collects first. -/
theorem C03_wasted_gc (cfg : Cfg) (st : St) : wastedOp cfg (collect cfg st) = wastedOp cfg st := by
  unfold wastedOp; rw [collect_idem]

/-- **Statistics**: the per-shard counts add up to the number of tracks held (`n > 0` shards). -/
theorem C03_stats (n : Nat) (hn : 0 < n) (l : List Trk) : (shardCounts n l).sum = l.length := by
  unfold shardCounts
  induction l with
  | nil => simp
  | cons t rest ih =>
    have hk : t.id % n < n := Nat.mod_lt _ hn
    have key : ∀ m, t.id % n < m →
        ((List.range m).map (fun k => ((t :: rest).filter (fun x => x.id % n == k)).length)).sum =
        ((List.range m).map (fun k => (rest.filter (fun x => x.id % n == k)).length)).sum + 1 := by
      intro m
      induction m with
      | zero => intro h; omega
      | succ m ihm =>
        intro h
        rw [List.range_succ, map_append, map_append, sum_append, sum_append]
        simp only [map_cons, map_nil, sum_cons, sum_nil, Nat.add_zero]
        by_cases hm : t.id % n = m
        · have hnot : ∀ k ∈ List.range m, (t.id % n == k) = false := by
            intro k hk'; have := mem_range.mp hk'; simp; omega
          have hsame : (List.range m).map (fun k => ((t :: rest).filter (fun x => x.id % n == k)).length) =
              (List.range m).map (fun k => (rest.filter (fun x => x.id % n == k)).length) := by
            apply map_congr_left
            intro k hk'
            simp [filter_cons, hnot k hk']
          rw [hsame]
          simp [filter_cons, hm]
          omega
        · have hlt : t.id % n < m := by omega
          rw [ihm hlt]
          have : (t.id % n == m) = false := by simp [hm]
          simp [filter_cons, this]
          omega
    rw [key n hk, ih]
    simp

/-! ### non-vacuity: a track expiring while still physically live, then handed out once -/
private def cfg0 : Cfg := { maxIdle := 1, histLen := 3, batchIds := false, thr := 300000 }
private def st0 : St := { epochs := [(0, 4)], live := [(Trk.simple 1 0 1 1 none [1]), (Trk.simple 2 0 4 2 none [2, 3])], nextId := 2 }
example : expired cfg0 st0 (Trk.simple 1 0 1 1 none [1]) = true := by decide
example : (idle cfg0 st0 0).map (·.id) = [] ∧ ((wastedOp cfg0 st0).2.map (·.id)) = [1] ∧
    ((wastedOp cfg0 (wastedOp cfg0 st0).1).2.map (·.id)) = [] := by decide

end SimVerif.C03
