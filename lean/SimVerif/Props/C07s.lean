import SimVerif.Props.C07b
import SimVerif.Tie.KalmanMat
/-!
# C07 at source level

The filter steps **as generated from the source**, with the motion and update matrices `new` builds
(`Gen.K.box_motion_matrix DT`, `Gen.K.box_update_matrix`), on an independent-coordinates state `(toMean cs, toCov cs)`:
`predict` / `update` / `distance` / `initiate` of `Universal2DBoxKalmanFilter` and `Point2DKalmanFilter` are the textbook
constant-velocity filter of `Props/C07b.lean` coordinate by coordinate; so the block-diagonal pattern is preserved by every
source step, and a trajectory of source steps from `initiate` is the per-coordinate trajectory of `Props/C07.lean`.
-/
set_option linter.unusedSectionVars false
namespace SimVerif.C07
open SimVerif.Kalman SimVerif.Tie SimVerif.Gen.K Matrix
variable {α : Type} [Field α] [LinearOrder α]

/-- the state shape that every source step preserves -/
def IsIndep {n : ℕ} (st : Matrix (Fin n ⊕ Fin n) (Fin 1) α × Matrix (Fin n ⊕ Fin n) (Fin n ⊕ Fin n) α) : Prop :=
  ∃ cs : Fin n → C1 α, st = (col (toMean cs), toCov cs)

theorem C07_source_initiate (wpos wvel : α) (b : Geom.UBox α) : IsIndep (box_initiate wpos wvel b) :=
  ⟨_, tie_box_initiate wpos wvel b⟩

/-- `predict` with the motion matrix of `new` (`DT = 1`) preserves the shape and is `predict1` coordinate by coordinate -/
theorem C07_source_predict (cs : Fin 5 → C1 α) (wpos wvel : α) :
    box_predict (box_motion_matrix 1) wpos wvel (col (toMean cs), toCov cs) =
      (let a := box_std_position wpos 1 (1 / 100) (cs 4).p
       let b := box_std_velocity wvel 1 (1 / 100000) (cs 4).p
       (col (toMean (fun i => predict1 (cs i) (ofL a i * ofL a i) (ofL b i * ofL b i))),
        toCov (fun i => predict1 (cs i) (ofL a i * ofL a i) (ofL b i * ofL b i)))) := by
  rw [tie_box_motion_matrix]; exact tie_box_predict cs wpos wvel

theorem C07_source_predict_indep (wpos wvel : α) (st) (h : IsIndep (n := 5) st) :
    IsIndep (box_predict (box_motion_matrix (1 : α)) wpos wvel st) := by
  obtain ⟨cs, rfl⟩ := h
  exact ⟨_, C07_source_predict cs wpos wvel⟩

/-- `update` with the update matrix of `new` is `update1` coordinate by coordinate -/
theorem C07_source_update (solveLower : {r c : Type} → [Fintype r] → [DecidableEq r] → Matrix r r α → Matrix r c α → Matrix r c α)
    (hsolve : SolveLowerDiag solveLower) (cs : Fin 5 → C1 α) (wpos : α) (m : Geom.UBox α)
    (hs : ∀ i, s1 (cs i) (ofL (box_std_position wpos 1 (1 / 10) (cs 4).p) i * ofL (box_std_position wpos 1 (1 / 10) (cs 4).p) i) ≠ 0) :
    box_update solveLower box_update_matrix wpos (col (toMean cs), toCov cs) m =
      (let a := box_std_position wpos 1 (1 / 10) (cs 4).p
       (col (toMean (fun i => update1 (cs i) (ofL a i * ofL a i) (ofL (boxMeas m) i))),
        toCov (fun i => update1 (cs i) (ofL a i * ofL a i) (ofL (boxMeas m) i)))) := by
  rw [tie_box_update_matrix]; exact tie_box_update solveLower hsolve cs wpos m hs

/-- point filter: prediction and update with the matrices of `new` -/
theorem C07_source_point_predict (cs : Fin 2 → C1 α) (wpos wvel : α) :
    point_predict (point_motion_matrix 1) wpos wvel (col (toMean cs), toCov cs) =
      (let a := point_std_position wpos 1 0
       let b := point_std_velocity wvel 1 0
       (col (toMean (fun i => predict1 (cs i) (ofL a i * ofL a i) (ofL b i * ofL b i))),
        toCov (fun i => predict1 (cs i) (ofL a i * ofL a i) (ofL b i * ofL b i)))) := by
  rw [tie_point_motion_matrix]; exact tie_point_predict cs wpos wvel

theorem C07_source_point_update (solveLower : {r c : Type} → [Fintype r] → [DecidableEq r] → Matrix r r α → Matrix r c α → Matrix r c α)
    (hsolve : SolveLowerDiag solveLower) (cs : Fin 2 → C1 α) (wpos : α) (p : α × α)
    (hs : ∀ i, s1 (cs i) (ofL (point_std_position wpos 1 0) i * ofL (point_std_position wpos 1 0) i) ≠ 0) :
    point_update solveLower point_update_matrix wpos (col (toMean cs), toCov cs) p =
      (let a := point_std_position wpos 1 0
       (col (toMean (fun i => update1 (cs i) (ofL a i * ofL a i) (ofL (ptMeas p) i))),
        toCov (fun i => update1 (cs i) (ofL a i * ofL a i) (ofL (ptMeas p) i)))) := by
  rw [tie_point_update_matrix]; exact tie_point_update solveLower hsolve cs wpos p hs

/-- **the vector filter treats its points independently** (source level): updating a vector of point states with the source's
`Vec2DKalmanFilter::update` gives, at every index, the point filter's update of that index's state and measurement alone -/
theorem C07_source_vec_independent {S P R : Type} (upd : S → P → R) (sts : List S) (ps : List P) (i : Nat)
    (h1 : i < sts.length) (h2 : i < ps.length) :
    (vec_update upd sts ps)[i]? = some (upd sts[i] ps[i]) := tie_vec_update_getElem upd sts ps i h1 h2

end SimVerif.C07
