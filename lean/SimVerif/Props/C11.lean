import SimVerif.Model.Store
/-!
# C11 — track updates are atomic under callback failures; merge history intact

Models: `SimVerif.Track` (`addObservation`, `merge`), `SimVerif.Store` (`add`, `mergeExternal`,
`mergeOwned`). Every theorem is for **every** family of callbacks `cb` (arbitrary functions
returning errors), so it covers every position at which `apply`, the attribute merge or `optimize`
for the k-th class can fail.
-/
namespace SimVerif.C11
open SimVerif.Track SimVerif.Store

variable {TA M OA U Q E : Type}

/-- `add_observation`: an error leaves the track exactly as it was (all five parts) with no
notification; success emits exactly one. -/
theorem C11_add_atomic (cb : Cb TA M OA U Q E) (t : Track TA M OA) (cls : Nat) (o : Option OA) (u : Option U) :
    (∀ e, (addObservation cb t cls o u).1 = .error e →
        (addObservation cb t cls o u).2.1 = t ∧ (addObservation cb t cls o u).2.2 = 0) ∧
    ((addObservation cb t cls o u).1 = .ok () → (addObservation cb t cls o u).2.2 = 1) := by
  unfold addObservation
  cases u with
  | none =>
    cases o with
    | none => simp
    | some o => simp only []; split <;> simp_all
  | some u =>
    simp only []
    cases h : cb.apply u t.attrs with
    | error e => simp
    | ok a =>
      cases o with
      | none => simp
      | some o => simp only []; split <;> simp_all

/-- the class loop only ever adds classes that the source has -/
theorem mergeLoop_any (cb : Cb TA M OA U Q E) (src : Track TA M OA) (nh : List Nat) (classes : List Nat)
    (st st' : MState TA M OA) (h : mergeLoop cb src nh classes st = .ok st') :
    st'.any = (st.any || classes.any (fun c => (getObs st.obs c).isSome || (getObs src.obs c).isSome)) := by
  induction classes generalizing st with
  | nil => simp only [mergeLoop, Except.ok.injEq] at h; subst h; simp
  | cons c rest ih =>
    simp only [mergeLoop] at h
    cases hd : getObs st.obs c <;> cases hs : getObs src.obs c <;> simp only [hd, hs] at h
    · -- none, none
      rw [ih st h]; simp [hd, hs]
    all_goals
      split at h
      · cases h
      · rename_i m a l hopt
        rw [ih _ h]
        simp only [List.any_cons, hd, hs, Option.isSome_some, Option.isSome_none, Bool.or_true, Bool.true_or,
          Bool.or_false, Bool.true_or]

/-- `Track::merge`: an error leaves the destination exactly as it was with no notification; success
emits exactly one. -/
theorem C11_merge_atomic (cb : Cb TA M OA U Q E) (dst src : Track TA M OA) (classes : List Nat) (flag : Bool) :
    (∀ e, (merge cb dst src classes flag).1 = .error e →
        (merge cb dst src classes flag).2.1 = dst ∧ (merge cb dst src classes flag).2.2 = 0) ∧
    ((merge cb dst src classes flag).1 = .ok () → (merge cb dst src classes flag).2.2 = 1) := by
  unfold merge
  cases cb.mergeA dst.attrs src.attrs with
  | error e => simp
  | ok a =>
    simp only []
    split <;> simp

/-- Merge history after a successful merge: the previous history followed **once** by the source's
when history is enabled and some requested class is present in either track; unchanged otherwise.
In particular it is never emptied, truncated or extended twice. -/
theorem C11_history (cb : Cb TA M OA U Q E) (dst src : Track TA M OA) (classes : List Nat) (flag : Bool)
    (h : (merge cb dst src classes flag).1 = .ok ()) :
    (merge cb dst src classes flag).2.1.hist =
      (if flag && classes.any (fun c => (getObs dst.obs c).isSome || (getObs src.obs c).isSome)
       then dst.hist ++ src.hist else dst.hist) := by
  unfold merge at h ⊢
  cases hm : cb.mergeA dst.attrs src.attrs with
  | error e => simp [hm] at h
  | ok a =>
    simp only [hm] at h ⊢
    split
    · rename_i e heq; simp [heq] at h
    · rename_i st heq
      have hany := mergeLoop_any cb src _ classes _ st heq
      simp only [Bool.false_or] at hany
      simp only [hany]
      cases flag <;> simp

/-- …and a failed merge does not touch the history (nor anything else) -/
theorem C11_history_on_failure (cb : Cb TA M OA U Q E) (dst src : Track TA M OA) (classes : List Nat) (flag : Bool)
    (e : Err E) (h : (merge cb dst src classes flag).1 = .error e) :
    (merge cb dst src classes flag).2.1.hist = dst.hist := by
  rw [((C11_merge_atomic cb dst src classes flag).1 e h).1]

/-- A failing `store.add`, `merge_external` or `merge_owned` leaves the store unchanged (for
`merge_owned` both tracks are still stored). -/
theorem C11_store_atomic (cb : Cb TA M OA U Q E) (s : Store TA M OA) :
    (∀ id cls o u e, (add cb s id cls o u).1 = .error e → (add cb s id cls o u).2.1 = s) ∧
    (∀ dest src classes flag e, (mergeExternal cb s dest src classes flag).1 = .error e →
        (mergeExternal cb s dest src classes flag).2.1 = s) ∧
    (∀ dest srcId classes rm flag e, (mergeOwned cb s dest srcId classes rm flag).1 = .error e →
        (mergeOwned cb s dest srcId classes rm flag).2.1 = s) := by
  refine ⟨?_, ?_, ?_⟩
  · intro id cls o u e h
    unfold add at h ⊢
    split
    · rename_i t ht
      simp only [ht] at h
      split at h <;> simp_all
    · rename_i ht
      simp only [ht] at h
      split at h <;> simp_all
  · intro dest src classes flag e h
    unfold mergeExternal at h ⊢
    split
    · rfl
    · rename_i d hd
      simp only [hd] at h
      split
      · rfl
      · rename_i hne
        simp only [hne] at h
        rcases hmr : merge cb d src (mergeClasses classes src) flag with ⟨r, d', k⟩
        rw [hmr] at h
        cases r with
        | ok u => simp at h
        | error e' => rfl
  · intro dest srcId classes rm flag e h
    cases hs : find s srcId with
    | none => simp [mergeOwned, hs]
    | some src =>
      rcases hme : mergeExternal cb (remove s srcId) dest src classes flag with ⟨rr, s2, k⟩
      simp only [mergeOwned, hs, hme] at h ⊢
      cases rr with
      | error e' => rfl
      | ok u => cases rm <;> simp at h

/-! ### non-vacuity: callbacks that fail at the second class, after mutating their arguments -/
private def cbx : Cb Nat Nat Nat Unit Unit Unit where
  apply _ a := .ok (a + 1)
  mergeA a b := .ok (a + b)
  optimize m cls _ a obs _ _ := if cls == 1 then .error () else .ok (m + 1, a + 10, obs)
  compatible _ _ := true
  baked _ _ := .ok .ready
  metric _ _ _ _ _ := none
  postprocess _ v := v
  lookup _ _ _ _ := true

private def d0 : Track Nat Nat Nat := { id := 1, attrs := 5, obs := [(0, [7]), (1, [8])], metric := 0, hist := [1] }
private def s0 : Track Nat Nat Nat := { id := 2, attrs := 3, obs := [(0, [9]), (1, [4])], metric := 0, hist := [2] }

example : (merge cbx d0 s0 [0, 1] true).1 = .error (.cb ()) ∧ (merge cbx d0 s0 [0, 1] true).2.1 = d0 := ⟨rfl, rfl⟩
example : (merge cbx d0 s0 [0] true).1 = .ok () ∧ (merge cbx d0 s0 [0] true).2.1.hist = [1, 2] ∧
    (merge cbx d0 s0 [0] false).2.1.hist = [1] ∧ (merge cbx d0 s0 [5] true).2.1.hist = [1] := ⟨rfl, rfl, rfl, rfl⟩

end SimVerif.C11
