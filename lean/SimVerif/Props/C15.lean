import SimVerif.Model.OwnArea
import Mathlib.Tactic.Ring
import Mathlib.Tactic.Linarith
import Mathlib.Data.List.Perm.Basic
import SimVerif.Lemmas.OwnArea
/-!
# C15 — exclusively-owned area share (grid model, axis-aligned boxes)
Model: `SimVerif.OwnArea` — `src/utils/clipping/bbox_own_areas.rs`. Helper lemmas: `SimVerif/Lemmas/OwnArea.lean`.
-/
namespace SimVerif.C15
open SimVerif.OwnArea List

/-- two boxes overlap in no area (they may touch) -/
def apart (a b : ABox) : Prop := a.x1 ≤ b.x0 ∨ b.x1 ≤ a.x0 ∨ a.y1 ≤ b.y0 ∨ b.y1 ≤ a.y0

/-- `a` lies inside `b` -/
def within (a b : ABox) : Prop := b.x0 ≤ a.x0 ∧ a.x1 ≤ b.x1 ∧ b.y0 ≤ a.y0 ∧ a.y1 ≤ b.y1

theorem apart_cell_zero {b o : ABox} {c : Cell} (h : apart b o) (hle : c.xa ≤ c.xb ∧ c.ya ≤ c.yb)
    (hb : inside c b = true) (ho : inside c o = true) : c.area = 0 := by
  rw [inside_iff] at hb ho
  unfold Cell.area
  rcases h with h | h | h | h
  · have : c.xb - c.xa = 0 := by linarith [hle.1, hb.2.1, ho.1]
    rw [this, zero_mul]
  · have : c.xb - c.xa = 0 := by linarith [hle.1, hb.1, ho.2.1]
    rw [this, zero_mul]
  · have : c.yb - c.ya = 0 := by linarith [hle.2, hb.2.2.2, ho.2.2.1]
    rw [this, mul_zero]
  · have : c.yb - c.ya = 0 := by linarith [hle.2, hb.2.2.1, ho.2.2.2]
    rw [this, mul_zero]

theorem within_inside {b o : ABox} {c : Cell} (h : within b o) (hb : inside c b = true) :
    inside c o = true := by
  rw [inside_iff] at hb ⊢
  obtain ⟨h1, h2, h3, h4⟩ := h
  exact ⟨le_trans h1 hb.1, le_trans hb.2.1 h2, le_trans h3 hb.2.2.1, le_trans hb.2.2.2 h4⟩

/-- the cells inside a proper box of the set tile it: their areas add up to the area of the box -/
theorem cells_tile (b : ABox) (all : List ABox) (hb : b ∈ all) (hwf : ∀ a ∈ all, a.wf) :
    rsum ((cells all).map (fun c => if inside c b then c.area else 0)) = b.area := by
  have hbwf := hwf b hb
  unfold cells
  rw [rsum_map_flatMap]
  have h1 : ∀ sx ∈ segs (xcuts all),
      rsum (((segs (ycuts all)).map (fun sy => (⟨sx.1, sx.2, sy.1, sy.2⟩ : Cell))).map
        (fun c => if inside c b then c.area else 0))
      = (if b.x0 ≤ sx.1 ∧ sx.2 ≤ b.x1 then sx.2 - sx.1 else 0) * (b.y1 - b.y0) := by
    intro sx _
    rw [map_map]
    have : ((fun c => if inside c b then c.area else 0) ∘
        (fun sy : Rat × Rat => (⟨sx.1, sx.2, sy.1, sy.2⟩ : Cell)))
        = fun sy => (if b.x0 ≤ sx.1 ∧ sx.2 ≤ b.x1 then sx.2 - sx.1 else 0)
            * (if b.y0 ≤ sy.1 ∧ sy.2 ≤ b.y1 then sy.2 - sy.1 else 0) := by
      funext sy
      exact summand_factor b sx.1 sx.2 sy.1 sy.2
    rw [this, rsum_map_mul_left,
      segs_sum (ycuts_sorted all) (mem_ycuts hb).1 (mem_ycuts hb).2 hbwf.2]
  rw [rsum_map_congr _ _ _ h1, rsum_map_mul_right,
    segs_sum (xcuts_sorted all) (mem_xcuts hb).1 (mem_xcuts hb).2 hbwf.1]
  rfl

/-- every cell has non-negative area -/
theorem cell_area_nonneg (all : List ABox) : ∀ c ∈ cells all, 0 ≤ c.area := by
  intro c hc
  exact cell_area_nonneg' hc

/-- **Range**: the owned area lies between 0 and the area of the box … -/
theorem C15_own_range (b : ABox) (others : List ABox) (hwf : ∀ a ∈ b :: others, a.wf) :
    0 ≤ own b others ∧ own b others ≤ b.area := by
  constructor
  · unfold own
    apply rsum_map_nonneg
    intro c hc
    split
    · exact cell_area_nonneg' hc
    · exact le_refl _
  · have ht := cells_tile b (b :: others) (by simp) hwf
    rw [← ht]
    unfold own
    apply rsum_map_le
    intro c hc
    have hn := cell_area_nonneg' hc
    by_cases h1 : inside c b = true
    · rw [if_pos h1]
      split
      · exact le_refl _
      · exact hn
    · have : ¬ ((inside c b && !others.any (inside c)) = true) := by
        simp [h1]
      rw [if_neg this, if_neg h1]

/-- … and the share lies in [0, 1]. -/
theorem C15_range (b : ABox) (others : List ABox) (hwf : ∀ a ∈ b :: others, a.wf) :
    0 ≤ share b others ∧ share b others ≤ 1 := by
  have hr := C15_own_range b others hwf
  have hbwf := hwf b (by simp)
  have ha : 0 ≤ b.area := by
    unfold ABox.area
    exact mul_nonneg (by linarith [hbwf.1]) (by linarith [hbwf.2])
  have hd : 0 < b.area + Gen.EPS := by linarith [EPS_pos]
  have he : 0 ≤ own b others / (b.area + Gen.EPS) := div_nonneg hr.1 (le_of_lt hd)
  unfold share shareOf
  simp only
  split
  · exact ⟨by norm_num, le_refl _⟩
  · rename_i hlt
    exact ⟨he, le_of_lt (not_le.1 hlt)⟩

/-- **A box overlapping nothing owns all of its area** (share = area / (area + EPS): 1 up to the regulariser) -/
theorem C15_disjoint (b : ABox) (others : List ABox) (hwf : ∀ a ∈ b :: others, a.wf)
    (h : ∀ o ∈ others, apart b o) : own b others = b.area := by
  have ht := cells_tile b (b :: others) (by simp) hwf
  rw [← ht]
  unfold own
  apply rsum_map_congr
  intro c hc
  by_cases h1 : inside c b = true
  · by_cases h2 : others.any (inside c) = true
    · have hz : c.area = 0 := by
        obtain ⟨o, ho, hio⟩ := any_eq_true.1 h2
        exact apart_cell_zero (h o ho) (cell_le hc) h1 hio
      simp [h1, h2, hz]
    · simp [h1, h2]
  · simp [h1]

/-- the share of a box overlapping nothing misses 1 by at most `EPS / area` -/
theorem C15_disjoint_share (b : ABox) (others : List ABox) (hwf : ∀ a ∈ b :: others, a.wf)
    (h : ∀ o ∈ others, apart b o) (hpos : 0 < b.area) :
    1 - share b others ≤ Gen.EPS / b.area := by
  have hown := C15_disjoint b others hwf h
  have hE := EPS_pos
  have hd : 0 < b.area + Gen.EPS := by linarith
  have h1 : Gen.EPS / (b.area + Gen.EPS) ≤ Gen.EPS / b.area :=
    div_le_div_of_nonneg_left (le_of_lt hE) hpos (by linarith)
  have h2 : b.area / (b.area + Gen.EPS) + Gen.EPS / (b.area + Gen.EPS) = 1 := by
    rw [← add_div, div_self (ne_of_gt hd)]
  have h3 : 0 ≤ Gen.EPS / b.area := div_nonneg (le_of_lt hE) (le_of_lt hpos)
  unfold share shareOf
  simp only
  rw [hown]
  split
  · linarith
  · linarith

/-- **A fully covered box owns nothing**: share 0. -/
theorem C15_covered (b : ABox) (others : List ABox) (o : ABox) (ho : o ∈ others) (h : within b o) :
    own b others = 0 ∧ share b others = 0 := by
  have hown : own b others = 0 := by
    unfold own
    apply rsum_map_zero
    intro c
    by_cases h1 : inside c b = true
    · have h2 : others.any (inside c) = true :=
        any_eq_true.2 ⟨o, ho, within_inside h h1⟩
      simp [h2]
    · simp [h1]
  refine ⟨hown, ?_⟩
  unfold share shareOf
  rw [hown]
  simp

/-- **Order independence**: the owned area depends on the other boxes only as a multiset. -/
theorem C15_perm (b : ABox) (o₁ o₂ : List ABox) (h : o₁ ~ o₂) : own b o₁ = own b o₂ := by
  unfold own
  rw [cells_congr (Perm.cons b h)]
  apply rsum_map_congr
  intro c _
  rw [h.any_eq]

/-- the result for each box of the call does not depend on where the box stands in the input -/
theorem C15_perm_shares (l₁ l₂ : List ABox) (h : l₁ ~ l₂) : shares l₁ ~ shares l₂ := by
  have e : ∀ l, shares l = eachVsRest share l := fun l => idx_eq_eachVsRest share l
  rw [e l₁, e l₂]
  apply eachVsRest_perm h
  intro b o₁ o₂ ho
  unfold share
  rw [C15_perm b o₁ o₂ ho]

/-- **Cells are uniform** (why the grid model is the uncovered area): a point strictly inside a cell
of the grid lies in a box of the set iff the whole cell lies inside that box. -/
theorem C15_cell_uniform (all : List ABox) (o : ABox) (ho : o ∈ all) (c : Cell) (hc : c ∈ cells all)
    (x y : Rat) (hx : c.xa < x ∧ x < c.xb) (hy : c.ya < y ∧ y < c.yb) :
    (o.x0 ≤ x ∧ x ≤ o.x1 ∧ o.y0 ≤ y ∧ y ≤ o.y1) ↔ inside c o = true := by
  obtain ⟨sx, hsx, sy, hsy, rfl⟩ := mem_cells.1 hc
  simp only at hx hy
  rw [inside_iff]
  simp only
  have cx0 := segs_consecutive (xcuts_sorted all) hsx (mem_xcuts ho).1
  have cx1 := segs_consecutive (xcuts_sorted all) hsx (mem_xcuts ho).2
  have cy0 := segs_consecutive (ycuts_sorted all) hsy (mem_ycuts ho).1
  have cy1 := segs_consecutive (ycuts_sorted all) hsy (mem_ycuts ho).2
  constructor
  · rintro ⟨h1, h2, h3, h4⟩
    refine ⟨?_, ?_, ?_, ?_⟩
    · rcases cx0 with h | h
      · exact h
      · linarith [hx.2]
    · rcases cx1 with h | h
      · linarith [hx.1]
      · exact h
    · rcases cy0 with h | h
      · exact h
      · linarith [hy.2]
    · rcases cy1 with h | h
      · linarith [hy.1]
      · exact h
  · rintro ⟨h1, h2, h3, h4⟩
    exact ⟨by linarith [hx.1], by linarith [hx.2], by linarith [hy.1], by linarith [hy.2]⟩

/-! ### non-vacuity: the staircase of the library's own unit test -/
example : own ⟨0,0,10,10⟩ [⟨5,5,15,15⟩, ⟨10,10,20,20⟩] = 75 ∧ own ⟨5,5,15,15⟩ [⟨0,0,10,10⟩, ⟨10,10,20,20⟩] = 50 := by
  decide +kernel

end SimVerif.C15
