import SimVerif.Lemmas.Nms
/-!
# C14 — non-maximum suppression keeps a maximal independent set in rank order

All statements are about `SimVerif.Nms.nms`, the faithful model of `src/utils/nms.rs::nms` (score filter,
validity filter, enumerate, stable descending sort, excluded-set double loop), for **every** coverage
predicate `cov`, every score threshold and every input list.
-/
namespace SimVerif.C14
open SimVerif.Nms
variable {α : Type} (cov : Box α → Box α → Bool) (sthr : Option Rat) (l : List (Box α))

/-- the rank-sorted candidates: the input boxes that pass the score / validity filter, stably
sorted by decreasing rank -/
def ranked : List (Box α) := (l.filter (passes sthr)).mergeSort rankGE

theorem ranked_perm : (ranked sthr l).Perm (l.filter (passes sthr)) := List.mergeSort_perm _ _

theorem ranked_sorted : (ranked sthr l).Pairwise (fun a b => rank b ≤ rank a) := by
  have := List.pairwise_mergeSort (le := rankGE) rankGE_trans rankGE_total (l.filter (passes sthr))
  simpa [rankGE, ranked] using this

/-- the result is a sub-sequence of the ranked candidates: a subset of the boxes that passed the
filter, in decreasing rank order -/
theorem C14_subset_sorted :
    (nms cov sthr l).Sublist (ranked sthr l) ∧
    (∀ b ∈ nms cov sthr l, b ∈ l ∧ passes sthr b = true) ∧
    (nms cov sthr l).Pairwise (fun a b => rank b ≤ rank a) := by
  rw [nms_eq_walk]
  have hs := walk_sublist cov [] (ranked sthr l)
  refine ⟨hs, ?_, (ranked_sorted sthr l).sublist hs⟩
  intro b hb
  have := (ranked_perm sthr l).subset (hs.subset hb)
  simpa using this

/-- the top-ranked candidate is always kept (and comes first) -/
theorem C14_top_kept : (nms cov sthr l).head? = (ranked sthr l).head? := by
  rw [nms_eq_walk]
  unfold ranked
  cases (l.filter (passes sthr)).mergeSort rankGE with
  | nil => simp [walk]
  | cons b rest => simp [walk]

/-- no kept box is covered by a kept box that precedes it (= ranks at least as high) -/
theorem C14_independent : (nms cov sthr l).Pairwise (fun a b => cov a b = false) := by
  rw [nms_eq_walk]; exact (walk_indep cov [] _).2

/-- exact keep/drop rule: at any position of the ranked list, the box `b` there is dropped iff some
box kept from the higher-ranked prefix `pre` covers it; the boxes kept from the prefix (`K`) are a
prefix of the result. -/
theorem C14_keep_iff (pre post : List (Box α)) (b : Box α) (h : ranked sthr l = pre ++ b :: post) :
    ∃ tail, nms cov sthr l =
      walk cov [] pre ++ (if (walk cov [] pre).any (fun a => cov a b) then tail else b :: tail) := by
  rw [nms_eq_walk]
  unfold ranked at h
  rw [h, walk_append]
  simp only [List.append_nil, walk, List.any_reverse]
  split
  · exact ⟨_, rfl⟩
  · exact ⟨_, rfl⟩

/-- maximality: every candidate that is dropped is covered by a kept box of at least its rank -/
theorem C14_maximal (b : Box α) (hb : b ∈ ranked sthr l) (hn : b ∉ nms cov sthr l) :
    ∃ a ∈ nms cov sthr l, cov a b = true ∧ rank b ≤ rank a := by
  obtain ⟨pre, post, h⟩ := List.append_of_mem hb
  obtain ⟨tail, ht⟩ := C14_keep_iff cov sthr l pre post b h
  by_cases hc : (walk cov [] pre).any (fun a => cov a b) = true
  · obtain ⟨a, ha, hcov⟩ := List.any_eq_true.mp hc
    refine ⟨a, ?_, hcov, ?_⟩
    · rw [ht]; exact List.mem_append_left _ ha
    · have hs := ranked_sorted sthr l
      rw [h, List.pairwise_append] at hs
      exact hs.2.2 a ((walk_sublist cov [] pre).subset ha) b List.mem_cons_self
  · rw [ht, if_neg hc] at hn
    exact absurd (List.mem_append_right _ List.mem_cons_self) hn

/-- applying NMS to its own output (boxes with their scores) changes nothing -/
theorem C14_idempotent : nms cov sthr (nms cov sthr l) = nms cov sthr l := by
  obtain ⟨hsub, hpass, hsorted⟩ := C14_subset_sorted cov sthr l
  have hind := C14_independent cov sthr l
  rw [nms_eq_walk cov sthr (nms cov sthr l)]
  have h1 : (nms cov sthr l).filter (passes sthr) = nms cov sthr l :=
    List.filter_eq_self.mpr (fun b hb => (hpass b hb).2)
  have h2 : (nms cov sthr l).mergeSort rankGE = nms cov sthr l :=
    List.mergeSort_of_pairwise (by simpa [rankGE] using hsorted)
  rw [h1, h2]
  exact walk_fix cov [] _ (by simp) hind

/-- rank is the score when given, the box height otherwise -/
theorem C14_rank (b : Box α) : rank b = (match b.score with | some s => s | none => b.height) := by
  cases h : b.score <;> simp [rank, h]

/-! ### non-vacuity: a concrete set where NMS drops, keeps and is not greedy-trivial -/

private def bx (i : Nat) (s : Rat) : Box Nat := { item := i, score := some s, height := 1, aspect := 1 }
/-- 0 covers 1, 1 covers 2 (but 1 is dropped, so 2 survives), nothing else -/
private def cv (a b : Box Nat) : Bool := (a.item == 0 && b.item == 1) || (a.item == 1 && b.item == 2)

private def inp : List (Box Nat) := [bx 0 3, bx 1 2, bx 2 1]

example : ∀ b ∈ inp, passes none b = true := by decide +kernel
example : inp.Pairwise (fun a b => rankGE a b = true) := by decide
example : (walk cv [] inp).map (·.item) = [0, 2] := by decide
/-- so on this input the code's `nms` keeps boxes 0 and 2: 1 is dropped (covered by 0), and 2 is kept
although the dropped box 1 covers it -/
example : (nms cv none inp).map (·.item) = [0, 2] := by
  rw [nms_eq_walk]
  have h1 : inp.filter (passes none) = inp := List.filter_eq_self.mpr (by decide +kernel)
  have h2 : inp.mergeSort rankGE = inp := List.mergeSort_of_pairwise (by decide)
  rw [h1, h2]; decide

end SimVerif.C14
