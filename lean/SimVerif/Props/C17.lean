import SimVerif.Lemmas.Voting
import SimVerif.Lemmas.Assign
/-!
# C17 — voting engines: vote counting, weights, top-N order, one winner per track

Models: `SimVerif.Voting` (`TopNVoting`, `BestFitVoting`) and `SimVerif.Assign` (matrix level of
`SortVoting`). All theorems hold for every stream, every `N`, `min_votes`, `max_distance`.
-/
namespace SimVerif.C17
open SimVerif.Voting List

variable (n : Nat) (maxD : Rat) (mv : Nat)

/-- what the candidate list contains: exactly one element per `(query, track)` pair that has at
least `min_votes` distances `≤ max_distance`; its weight is `Σ (largest distance seen − d)` over
those distances. -/
theorem C17_cands_spec (s : List Dist) (e : Elt) :
    e ∈ cands maxD mv s ↔
      (e.q, e.w) ∈ (kept maxD s).map (·.1) ∧ mv ≤ votes maxD s (e.q, e.w) ∧
      e.weight = weightOf maxD s (e.q, e.w) := mem_cands maxD mv s e

theorem C17_cands_one_per_pair (s : List Dist) :
    ((cands maxD mv s).map (fun e => (e.q, e.w))).Nodup := cands_keys_nodup maxD mv s

/-- TopN: the result for a query holds at most `N` candidates of that query, ordered by
decreasing weight, namely `min N (#candidates)` of them, and no excluded candidate of the query
outweighs an included one. -/
theorem C17_topn_spec (s : List Dist) (q : Nat) :
    (∀ e ∈ topn n maxD mv s q, e ∈ cands maxD mv s ∧ e.q = q) ∧
    (topn n maxD mv s q).Pairwise (fun a b => b.weight ≤ a.weight) ∧
    (topn n maxD mv s q).length = min n ((cands maxD mv s).filter (fun e => e.q == q)).length ∧
    (∀ c ∈ cands maxD mv s, c.q = q → c ∉ topn n maxD mv s q →
        ∀ e ∈ topn n maxD mv s q, c.weight ≤ e.weight) := by
  unfold topn
  set L := ((cands maxD mv s).filter (fun e => e.q == q)).mergeSort wGE with hL
  have hperm : L ~ (cands maxD mv s).filter (fun e => e.q == q) := mergeSort_perm _ _
  have hsorted : L.Pairwise (fun a b => b.weight ≤ a.weight) := by
    have := pairwise_mergeSort (le := wGE) wGE_trans wGE_total ((cands maxD mv s).filter (fun e => e.q == q))
    simpa [wGE] using this
  refine ⟨?_, hsorted.sublist (take_sublist _ _), ?_, ?_⟩
  · intro e he
    have := hperm.subset ((take_sublist _ _).subset he)
    simpa using this
  · rw [length_take, hperm.length_eq]
  · intro c hc hcq hnot e he
    have hcL : c ∈ L := hperm.symm.subset (by simp [hc, hcq])
    rw [← take_append_drop n L] at hcL hsorted
    rcases mem_append.mp hcL with h | h
    · exact absurd h hnot
    · exact (pairwise_append.mp hsorted).2.2 e he c h

/-- TopN does not depend on the order of the stream (no weight ties inside the query). -/
theorem C17_topn_perm (s₁ s₂ : List Dist) (h : s₁ ~ s₂) (q : Nat)
    (hd : ∀ a ∈ cands maxD mv s₁, ∀ b ∈ cands maxD mv s₁, a.q = q → b.q = q → a.weight = b.weight → a = b) :
    topn n maxD mv s₁ q = topn n maxD mv s₂ q := by
  unfold topn
  rw [sort_perm_eq ((cands_perm maxD mv h).filter _)]
  intro a ha b hb hw
  simp only [mem_filter, beq_iff_eq] at ha hb
  exact hd a ha.1 b hb.1 ha.2 hb.2 hw

/-- … and the set of queries that get an entry is order independent as well. -/
theorem C17_topn_keys_perm (s₁ s₂ : List Dist) (h : s₁ ~ s₂) :
    ∀ q, q ∈ topnKeys maxD mv s₁ ↔ q ∈ topnKeys maxD mv s₂ := by
  intro q
  unfold topnKeys
  rw [mem_firsts, mem_firsts]
  exact ((cands_perm maxD mv h).map _).mem_iff

/-- BestFit, exact rule: walking the candidates by decreasing weight, a candidate gets the track
it claims iff no earlier (= at least as heavy) candidate claims the same track; otherwise it falls
back to itself. -/
theorem C17_bestfit_rule (s : List Dist) (pre post : List Elt) (c : Elt)
    (h : (cands maxD mv s).mergeSort wGE = pre ++ c :: post) :
    ∃ tail, bestfitAll maxD mv s =
      award pre [] ++ (if pre.any (fun p => p.w == c.w) then ({ c with w := c.q }, false) else (c, true)) :: tail := by
  unfold bestfitAll
  rw [h, award_append]
  simp only [award, append_nil]
  by_cases hc : pre.any (fun p => p.w == c.w) = true
  · have : (pre.map (·.w)).contains c.w = true := by
      simp only [any_eq_true, beq_iff_eq] at hc
      obtain ⟨p, hp, hpw⟩ := hc
      simp only [contains_iff_mem, mem_map]
      exact ⟨p, hp, hpw⟩
    rw [if_pos this, if_pos hc]
    exact ⟨_, rfl⟩
  · have : ¬ (pre.map (·.w)).contains c.w = true := by
      simp only [any_eq_true, beq_iff_eq, not_exists, not_and] at hc
      simp only [contains_iff_mem, mem_map, not_exists, not_and]
      exact hc
    rw [if_neg this, if_neg hc]
    exact ⟨_, rfl⟩

/-- BestFit: every track is awarded to at most one query; each candidate keeps its query and weight. -/
theorem C17_bestfit_one_winner (s : List Dist) :
    (((bestfitAll maxD mv s).filter (·.2)).map (·.1.w)).Nodup ∧
    (bestfitAll maxD mv s).length = (cands maxD mv s).length := by
  refine ⟨(award_real_nodup _ []).1, ?_⟩
  unfold bestfitAll
  rw [award_length, (mergeSort_perm _ _).length_eq]

/-- BestFit does not depend on the order of the stream (no weight ties). -/
theorem C17_bestfit_perm (s₁ s₂ : List Dist) (h : s₁ ~ s₂)
    (hd : ∀ a ∈ cands maxD mv s₁, ∀ b ∈ cands maxD mv s₁, a.weight = b.weight → a = b) :
    bestfitAll maxD mv s₁ = bestfitAll maxD mv s₂ := by
  unfold bestfitAll
  rw [sort_perm_eq (cands_perm maxD mv h) hd]

/-- Hungarian voting (matrix level, every optimal solution the solver may return, `thr > 0`):
each query row is decoded to one track column it is gated for, or to itself; no track twice. -/
theorem C17_hungarian {c t : ℕ} {thr : ℤ} {W : Fin c → Fin t → ℤ} {σ : Fin c → Assign.Col c t}
    (hthr : 0 < thr) (h : Assign.IsOpt thr W σ) :
    (∀ i, σ i = .inl i ∨ ∃ k, σ i = .inr k ∧ thr ≤ W i k) ∧
    (∀ a b k, σ a = .inr k → σ b = .inr k → a = b) := by
  refine ⟨fun i => ?_, fun a b k ha hb => h.inj (ha.trans hb.symm)⟩
  have := Assign.decode_ok hthr h i
  cases hσ : σ i with
  | inl j => rw [hσ] at this; simp only [Assign.good] at this; subst this; exact Or.inl rfl
  | inr k => rw [hσ] at this; exact Or.inr ⟨k, rfl, this⟩

/-! ### non-vacuity -/
private def ex : List Dist :=
  [⟨1, 100, some (1/10)⟩, ⟨2, 100, some (1/2)⟩, ⟨2, 100, some (1/2)⟩, ⟨3, 200, some 5⟩]
example : (kept 1 ex).map (·.1) = [(1,100), (2,100), (2,100)] := by decide +kernel
example : maxSeen ex = 5 := by decide +kernel
example : cands 1 1 ex = [⟨1, 100, 49/10⟩, ⟨2, 100, 9⟩] := by decide +kernel
/-- query 2 (two votes, weight 9) beats query 1 (weight 4.9) for track 100; query 1 falls back -/
example : award [⟨2, 100, 9⟩, ⟨1, 100, 49/10⟩] [] = [(⟨2, 100, 9⟩, true), (⟨1, 1, 49/10⟩, false)] := by
  decide +kernel

end SimVerif.C17
