import SimVerif.Lemmas.Tracker
namespace SimVerif.C12
theorem C12_placeholder : True := trivial
end SimVerif.C12
