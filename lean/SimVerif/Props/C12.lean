import SimVerif.Props.C02
import SimVerif.Props.C17
import Mathlib.Data.List.Nodup
/-!
# C12 — VisualSORT: appearance votes first, positional fallback, truthful voting type

Model: `SimVerif.Tracker.{visualDecided, positionalRest, validVisualChoice, predictSceneV}` over the
best-fit voting of `SimVerif.Voting` — `src/trackers/visual_sort/{simple_api,batch_api,voting}.rs`.
Every theorem is for every distance table (positional weights and feature distances), every state.
-/
namespace SimVerif.C12
open SimVerif.Tracker SimVerif.Voting List

deriving instance ReflBEq, LawfulBEq for Pick

/-- the appearance stage's decision for detection `i`, if it has one -/
def decisionOf (cfg : Cfg) (table : List VEntry) (i : Nat) : Option (Nat × Option Nat) :=
  (visualDecided cfg table).find? (fun d => d.1 == i)

/-- the picks as the positional stage sees them: decided detections are out of the game -/
def masked (cfg : Cfg) (table : List VEntry) (n : Nat) (picks : List Pick) : List Pick :=
  ((List.range n).zip picks).map (fun (i, p) => if (visualDecided cfg table).any (fun d => d.1 == i) then .fresh 0 else p)

theorem mem_zip_range {α : Type} (l : List α) (n : Nat) (hn : l.length = n) (i : Nat) (a : α) (h : l[i]? = some a) :
    (i, a) ∈ (List.range n).zip l := by
  have hi : i < l.length := by
    by_contra hc
    rw [List.getElem?_eq_none (by omega)] at h
    cases h
  rw [List.mem_iff_getElem]
  refine ⟨i, by simp; omega, ?_⟩
  rw [List.getElem?_eq_getElem hi] at h
  simp only [Option.some.injEq] at h
  simp [List.getElem_zip, h]

theorem valid_parts (cfg : Cfg) (st : St) (scene e n : Nat) (table : List VEntry) (picks : List Pick)
    (h : validVisualChoice cfg st scene e n table picks = true) :
    picks.length = n ∧
    (∀ i p, picks[i]? = some p →
      match decisionOf cfg table i with
      | some (_, some tid) => p = .cont tid true
      | some (_, none) => ∃ id, p = .fresh id
      | none => ∀ tid vis, p = .cont tid vis → vis = false) ∧
    validChoice cfg st scene e n (positionalRest (visualDecided cfg table) table) (masked cfg table n picks) = true := by
  unfold validVisualChoice at h
  simp only [Bool.and_eq_true] at h
  obtain ⟨⟨⟨hlen, _⟩, hall⟩, hpos⟩ := h
  have hlen' : picks.length = n := by simpa using hlen
  refine ⟨hlen', ?_, hpos⟩
  intro i p hp
  have hmem := mem_zip_range picks n hlen' i p hp
  rw [List.all_eq_true] at hall
  have := hall _ hmem
  unfold decisionOf
  simp only at this
  split at this
  · rename_i hd; rw [hd]; simpa using this
  · rename_i hd; rw [hd]
    simp only
    cases p with
    | cont a b => simp at this
    | fresh id => exact ⟨id, rfl⟩
  · rename_i hd; rw [hd]
    simp only
    intro tid vis hpv
    subst hpv
    simpa using this

/-- **Truthful voting type and the lost contest.** In a valid VisualSORT choice: a detection the
appearance stage awarded track `tid` is attached to exactly that track with voting type *Visual*;
a detection whose heaviest appearance claim lost the contest is attached to no existing track — it
starts a new one; every other attachment is reported *Positional*. Hence `Visual` is reported iff
the appearance stage awarded the track. -/
theorem C12_truthful (cfg : Cfg) (st : St) (scene e n : Nat) (table : List VEntry) (picks : List Pick)
    (h : validVisualChoice cfg st scene e n table picks = true) (i : Nat) (p : Pick) (hp : picks[i]? = some p) :
    (∀ j tid, decisionOf cfg table i = some (j, some tid) → p = .cont tid true) ∧
    (∀ j, decisionOf cfg table i = some (j, none) → ∃ id, p = .fresh id) ∧
    (∀ tid, p = .cont tid true ↔ ∃ j, decisionOf cfg table i = some (j, some tid)) := by
  have hv := (valid_parts cfg st scene e n table picks h).2.1 i p hp
  refine ⟨?_, ?_, ?_⟩
  · intro j tid hd; rw [hd] at hv; exact hv
  · intro j hd; rw [hd] at hv; exact hv
  · intro tid
    constructor
    · intro hpt
      cases hd : decisionOf cfg table i with
      | none => rw [hd] at hv; have := hv tid true hpt; cases this
      | some d =>
        obtain ⟨j, o⟩ := d
        cases o with
        | none => rw [hd] at hv; obtain ⟨id, hid⟩ := hv; rw [hpt] at hid; cases hid
        | some t =>
          rw [hd] at hv
          rw [hpt] at hv
          injection hv with h1 _
          exact ⟨j, by rw [h1]⟩
    · rintro ⟨j, hd⟩; rw [hd] at hv; exact hv

/-- the record of a pick reports visual voting iff the pick is a visual continuation -/
theorem C12_record (cfg : Cfg) (scene e : Nat) (st st' : St) (d : Det) (p : Pick) (r : Rec)
    (h : applyPick cfg scene e st d p = some (st', r)) :
    r.visual = true ↔ ∃ tid, p = .cont tid true := by
  cases p with
  | cont tid vis =>
    obtain ⟨t, _, _, _, _, hvis⟩ := (applyPick_spec cfg scene e st st' d _ r h).2.2.2.2.2.2.2.2.2.1 tid vis rfl
    rw [hvis]
    constructor
    · intro hv; exact ⟨tid, by rw [hv]⟩
    · rintro ⟨tid', ht⟩; injection ht
  | fresh id =>
    unfold applyPick at h
    simp only [Option.some.injEq, Prod.mk.injEq] at h
    obtain ⟨_, h2⟩ := h
    subst h2
    constructor
    · intro hv; cases hv
    · rintro ⟨tid', ht⟩; cases ht

theorem find_none_any {α : Type} (l : List α) (p : α → Bool) : l.find? p = none ↔ l.any p = false := by
  rw [find?_eq_none]
  constructor
  · intro h
    rw [Bool.eq_false_iff]
    intro ha
    obtain ⟨x, hx, hpx⟩ := any_eq_true.mp ha
    exact h x hx hpx
  · intro h x hx hpx
    have : l.any p = true := any_eq_true.mpr ⟨x, hx, hpx⟩
    rw [h] at this; cases this

theorem mem_positionalRest (decided : List (Nat × Option Nat)) (table : List VEntry) (x : Tracker.Entry)
    (h : x ∈ positionalRest decided table) :
    ∃ y ∈ table, y.det = x.det ∧ y.tid = x.tid ∧ y.w = some x.w ∧
      decided.any (fun p => p.1 == x.det) = false ∧ x.tid ∉ decided.filterMap (·.2) := by
  unfold positionalRest at h
  obtain ⟨y, hy, hf⟩ := mem_filterMap.mp h
  split at hf
  · cases hf
  · rename_i hc
    cases hw : y.w with
    | none => rw [hw] at hf; cases hf
    | some w =>
      rw [hw] at hf
      simp only [Option.map_some, Option.some.injEq] at hf
      subst hf
      simp only [Bool.or_eq_true, not_or, Bool.not_eq_true] at hc
      refine ⟨y, hy, rfl, rfl, hw, hc.1, ?_⟩
      have := hc.2
      intro hm
      rw [← contains_iff_mem] at hm
      rw [hm] at this; cases this

/-- **Positional fallback.** A detection the appearance stage did not decide is attached to an
existing track only through a table entry of that very pair that carries a positional weight
reaching the threshold, whose track the appearance stage did not award; the positional choice is
one-to-one and attains the maximum total weight over exactly the remaining distances. -/
theorem C12_positional (cfg : Cfg) (st : St) (scene e n : Nat) (table : List VEntry) (picks : List Pick)
    (h : validVisualChoice cfg st scene e n table picks = true) :
    (∀ i tid vis, picks[i]? = some (.cont tid vis) → decisionOf cfg table i = none →
        ∃ y ∈ table, y.det = i ∧ y.tid = tid ∧ (∃ w, y.w = some w ∧ cfg.thr ≤ w) ∧
          tid ∉ (visualDecided cfg table).filterMap (·.2)) ∧
    (((masked cfg table n picks).map contOf).filterMap id).Nodup ∧
    (let es : List AssignX.Entry := (positionalRest (visualDecided cfg table) table).map (fun x => { q := x.det + 1, t := x.tid, w := x.w })
     AssignX.objective es cfg.thr (AssignX.queries es)
        ((AssignX.queries es).map (fun q => ((masked cfg table n picks).map contOf).getD (q - 1) none))
       = AssignX.bestOf es cfg.thr) := by
  obtain ⟨hlen, _, hpos⟩ := valid_parts cfg st scene e n table picks h
  obtain ⟨hnd, hgate, hopt⟩ := C02.C02_tracker cfg st scene e n _ _ hpos
  refine ⟨?_, hnd, hopt⟩
  intro i tid vis hp hdec
  have hany : (visualDecided cfg table).any (fun d => d.1 == i) = false := (find_none_any _ _).mp hdec
  have hi : i < picks.length := by
    by_contra hc
    rw [List.getElem?_eq_none (by omega)] at hp
    cases hp
  have hm : ((masked cfg table n picks).map contOf)[i]? = some (some tid) := by
    unfold masked
    have hz : ((List.range n).zip picks)[i]? = some (i, .cont tid vis) :=
      List.getElem?_zip_eq_some.mpr ⟨List.getElem?_range (by omega), hp⟩
    rw [List.getElem?_map, List.getElem?_map, hz]
    simp [hany, contOf]
  obtain ⟨x, hx, hxd, hxt, hxw⟩ := hgate i tid hm
  obtain ⟨y, hy, hyd, hyt, hyw, _, hex⟩ := mem_positionalRest _ _ x hx
  exact ⟨y, hy, by rw [hyd, hxd], by rw [hyt, hxt], ⟨x.w, hyw, hxw⟩, by rw [← hxt]; exact hex⟩

/-- **No claim, no pair ⇒ a new track**: a detection without an appearance decision and without a
gated positional pair in the table starts a new track. -/
theorem C12_new (cfg : Cfg) (st : St) (scene e n : Nat) (table : List VEntry) (picks : List Pick)
    (h : validVisualChoice cfg st scene e n table picks = true) (i : Nat) (p : Pick) (hp : picks[i]? = some p)
    (hdec : decisionOf cfg table i = none)
    (hno : ∀ y ∈ table, y.det = i → ∀ w, y.w = some w → w < cfg.thr) : ∃ id, p = .fresh id := by
  cases p with
  | fresh id => exact ⟨id, rfl⟩
  | cont tid vis =>
    obtain ⟨y, hy, hyd, _, ⟨w, hw, hthr⟩, _⟩ := (C12_positional cfg st scene e n table picks h).1 i tid vis hp hdec
    have := hno y hy hyd w hw
    omega

/-- **One winner per track in the appearance stage**: the tracks awarded by appearance are pairwise
distinct (the heaviest claimant gets the track — `C17_bestfit_rule` — every later one loses). -/
theorem C12_one_winner (cfg : Cfg) (table : List VEntry) :
    ((visualDecided cfg table).filterMap (·.2)).Nodup := by
  unfold visualDecided
  simp only [filterMap_map]
  apply Nodup.filterMap _ (firsts_nodup _)
  intro q q' w hq hq'
  have hnd := (C17.C17_bestfit_one_winner (maxD := Nms.F32_MAX) (mv := cfg.minVotes) (featStream table)).1
  have key : ∀ q, w ∈ (decideOne (bestfitAll Nms.F32_MAX cfg.minVotes (featStream table)) q).2 →
      ∃ e, (e, true) ∈ bestfitAll Nms.F32_MAX cfg.minVotes (featStream table) ∧ e.q = q ∧ e.w = w := by
    intro q hq
    unfold decideOne at hq
    split at hq
    · rename_i e real hf
      cases real with
      | false => simp at hq
      | true =>
        simp only [if_true, Option.mem_def, Option.some.injEq] at hq
        have h1 := find?_some hf
        simp only [beq_iff_eq] at h1
        exact ⟨e, mem_of_find?_eq_some hf, h1, hq⟩
    · simp at hq
  obtain ⟨e, he, heq, hew⟩ := key q (by simpa [Function.comp] using hq)
  obtain ⟨e', he', heq', hew'⟩ := key q' (by simpa [Function.comp] using hq')
  have h1 : (e, true) ∈ (bestfitAll Nms.F32_MAX cfg.minVotes (featStream table)).filter (·.2) := mem_filter.mpr ⟨he, rfl⟩
  have h2 : (e', true) ∈ (bestfitAll Nms.F32_MAX cfg.minVotes (featStream table)).filter (·.2) := mem_filter.mpr ⟨he', rfl⟩
  have := inj_on_of_nodup_map hnd h1 h2 (by simp [hew, hew'])
  injection this with h3 _
  rw [← heq, ← heq', h3]

theorem filterMap_nodup_inj {α β : Type} (f : α → Option β) (l : List α) (h : (l.filterMap f).Nodup)
    (a b : α) (c : β) (ha : a ∈ l) (hb : b ∈ l) (hfa : f a = some c) (hfb : f b = some c) : a = b := by
  induction l with
  | nil => cases ha
  | cons x xs ih =>
    rw [filterMap_cons] at h
    rcases mem_cons.mp ha with rfl | ha' <;> rcases mem_cons.mp hb with hbx | hb'
    · exact hbx.symm
    · rw [hfa] at h
      have := (nodup_cons.mp h).1
      exact absurd (mem_filterMap.mpr ⟨b, hb', hfb⟩) this
    · subst hbx
      rw [hfb] at h
      have := (nodup_cons.mp h).1
      exact absurd (mem_filterMap.mpr ⟨a, ha', hfa⟩) this
    · cases hx : f x with
      | none => rw [hx] at h; exact ih h ha' hb'
      | some y => rw [hx] at h; exact ih (nodup_cons.mp h).2 ha' hb'

theorem getElem_nodup_inj {α : Type} (l : List (Option α)) (h : (l.filterMap id).Nodup) (i j : Nat) (a : α)
    (hi : l[i]? = some (some a)) (hj : l[j]? = some (some a)) : i = j := by
  induction l generalizing i j with
  | nil => simp at hi
  | cons x xs ih =>
    rw [filterMap_cons] at h
    cases i with
    | zero =>
      cases j with
      | zero => rfl
      | succ j =>
        simp only [getElem?_cons_zero, Option.some.injEq] at hi
        simp only [getElem?_cons_succ] at hj
        subst hi
        simp only [id] at h
        have := (nodup_cons.mp h).1
        have hm : a ∈ filterMap (fun x => x) xs := mem_filterMap.mpr ⟨some a, mem_of_getElem? hj, rfl⟩
        exact absurd hm this
    | succ i =>
      cases j with
      | zero =>
        simp only [getElem?_cons_zero, Option.some.injEq] at hj
        simp only [getElem?_cons_succ] at hi
        subst hj
        simp only [id] at h
        have := (nodup_cons.mp h).1
        have hm : a ∈ filterMap (fun x => x) xs := mem_filterMap.mpr ⟨some a, mem_of_getElem? hi, rfl⟩
        exact absurd hm this
      | succ j =>
        simp only [getElem?_cons_succ] at hi hj
        have hxs : (xs.filterMap id).Nodup := by
          cases x with
          | none => simpa using h
          | some y => simp only [id] at h; exact (nodup_cons.mp h).2
        rw [ih hxs i j hi hj]

theorem decision_mem (cfg : Cfg) (table : List VEntry) (i j : Nat) (o : Option Nat)
    (h : decisionOf cfg table i = some (j, o)) : (i, o) ∈ visualDecided cfg table := by
  unfold decisionOf at h
  have h1 := find?_some h
  simp only [beq_iff_eq] at h1
  subst h1
  exact mem_of_find?_eq_some h

/-- **Both stages together: no track is attached to two detections of one call** — whether by two
appearance awards, by an award and a positional match, or by two positional matches. -/
theorem C12_one_to_one (cfg : Cfg) (st : St) (scene e n : Nat) (table : List VEntry) (picks : List Pick)
    (h : validVisualChoice cfg st scene e n table picks = true) (i j tid : Nat) (v1 v2 : Bool)
    (hi : picks[i]? = some (.cont tid v1)) (hj : picks[j]? = some (.cont tid v2)) : i = j := by
  obtain ⟨hlen, hdec, hpos⟩ := valid_parts cfg st scene e n table picks h
  have hP := C12_positional cfg st scene e n table picks h
  have hW := C12_one_winner cfg table
  have hdi := hdec i _ hi
  have hdj := hdec j _ hj
  -- what a decision means for a `cont` pick
  have award : ∀ k v, picks[k]? = some (.cont tid v) → ∀ d, decisionOf cfg table k = some d →
      (k, some tid) ∈ visualDecided cfg table := by
    intro k v hk d hd
    have hdk := hdec k _ hk
    obtain ⟨j', o⟩ := d
    rw [hd] at hdk
    cases o with
    | none => obtain ⟨id, hid⟩ := hdk; cases hid
    | some t =>
      simp only at hdk
      injection hdk with h1 _
      subst h1
      exact decision_mem cfg table k j' _ hd
  have maskedAt : ∀ k v, picks[k]? = some (.cont tid v) → decisionOf cfg table k = none →
      ((masked cfg table n picks).map contOf)[k]? = some (some tid) := by
    intro k v hk hd
    have hany : (visualDecided cfg table).any (fun d => d.1 == k) = false := (find_none_any _ _).mp hd
    have hk' : k < picks.length := by
      by_contra hc
      rw [List.getElem?_eq_none (by omega)] at hk
      cases hk
    unfold masked
    have hz : ((List.range n).zip picks)[k]? = some (k, .cont tid v) :=
      List.getElem?_zip_eq_some.mpr ⟨List.getElem?_range (by omega), hk⟩
    rw [List.getElem?_map, List.getElem?_map, hz]
    simp [hany, contOf]
  cases hci : decisionOf cfg table i with
  | none =>
    cases hcj : decisionOf cfg table j with
    | none => exact getElem_nodup_inj _ hP.2.1 i j tid (maskedAt i v1 hi hci) (maskedAt j v2 hj hcj)
    | some dj =>
      have := award j v2 hj dj hcj
      obtain ⟨_, _, _, _, _, hex⟩ := hP.1 i tid v1 hi hci
      have hm : tid ∈ filterMap (fun x => x.2) (visualDecided cfg table) := mem_filterMap.mpr ⟨(j, some tid), this, rfl⟩
      exact absurd hm hex
  | some di =>
    have hai := award i v1 hi di hci
    cases hcj : decisionOf cfg table j with
    | none =>
      obtain ⟨_, _, _, _, _, hex⟩ := hP.1 j tid v2 hj hcj
      have hm : tid ∈ filterMap (fun x => x.2) (visualDecided cfg table) := mem_filterMap.mpr ⟨(i, some tid), hai, rfl⟩
      exact absurd hm hex
    | some dj =>
      have haj := award j v2 hj dj hcj
      have := filterMap_nodup_inj (·.2) _ hW (i, some tid) (j, some tid) tid hai haj rfl rfl
      injection this

/-! ### non-vacuity: two detections claim track 7 by appearance; the heavier claim wins, the loser is
decided "new track" and is not offered to the positional stage -/
def exCfg : Cfg := { maxIdle := 5, histLen := 3, batchIds := false, thr := 300000, visual := true, maxObs := 3, minVotes := 1 }
def exTable : List VEntry := [⟨0, 7, some 500000, some (1/10)⟩, ⟨1, 7, some 900000, some (3/10)⟩, ⟨2, 8, some 400000, none⟩]

example : visualDecided exCfg exTable = [(0, some 7), (1, none)] ∧
    positionalRest [(0, some 7), (1, none)] exTable = [⟨2, 8, 400000⟩] := by
  constructor
  · unfold visualDecided bestfitAll
    rw [mergeSort_of_pairwise (by decide +kernel)]
    decide +kernel
  · decide +kernel

end SimVerif.C12
