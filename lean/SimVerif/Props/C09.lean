import SimVerif.Lemmas.Store
/-!
# C09 — the track store is a faithful id → track map and reports merge failures

Model: `SimVerif.Store`. The abstraction function is `find s : Nat → Option Track`; every theorem
holds for every shard count `n > 0` (`Shape`), every callback family and every reachable store.
-/
namespace SimVerif.C09
open SimVerif.Track SimVerif.Store

variable {TA M OA U Q E : Type}

/-- reachable-store invariant: `n > 0` shards, every key in shard `key % n`, keys distinct per shard -/
structure WF (s : Store TA M OA) : Prop extends Shape s where
  placed : ∀ k p, p ∈ getShard s k → p.1 % s.n = k
  nodup : ∀ k, ((getShard s k).map (·.1)).Nodup

theorem wf_empty (n : Nat) (a : TA) (m : M) (hn : 0 < n) : WF (empty n a m : Store TA M OA) := by
  refine { toShape := shape_empty n a m hn, placed := ?_, nodup := ?_ }
  · intro k p hp
    simp only [getShard, empty, List.getD_eq_getElem?_getD, List.getElem?_replicate] at hp
    split at hp <;> simp at hp
  · intro k
    simp only [getShard, empty, List.getD_eq_getElem?_getD, List.getElem?_replicate]
    split <;> simp

theorem wf_put (s : Store TA M OA) (h : WF s) (id : Nat) (t : Track TA M OA) : WF (put s id t) := by
  have hk : shardOf s id < s.shards.length := by rw [h.len]; exact Nat.mod_lt _ h.pos
  refine { toShape := shape_put s id t h.toShape, placed := ?_, nodup := ?_ }
  · intro k p hp
    rw [put_eq, getShard_setShard _ _ _ _ hk] at hp
    split at hp
    · rename_i hkk
      simp only [aput, List.mem_append, List.mem_filter, List.mem_singleton] at hp
      rcases hp with ⟨hp, _⟩ | rfl
      · exact h.placed k p (hkk ▸ hp)
      · exact hkk.symm
    · exact h.placed k p hp
  · intro k
    rw [put_eq, getShard_setShard _ _ _ _ hk]
    split
    · simp only [aput, List.map_append, List.map_cons, List.map_nil]
      rw [List.nodup_append]
      refine ⟨((h.nodup _).sublist (List.Sublist.map _ List.filter_sublist)), by simp, ?_⟩
      intro a ha b hb
      simp only [List.mem_singleton] at hb
      subst hb
      obtain ⟨p, hp, rfl⟩ := List.mem_map.mp ha
      have := (List.mem_filter.mp hp).2
      simpa using this
    · exact h.nodup k

theorem wf_remove (s : Store TA M OA) (h : WF s) (id : Nat) : WF (remove s id) := by
  have hk : shardOf s id < s.shards.length := by rw [h.len]; exact Nat.mod_lt _ h.pos
  refine { toShape := shape_remove s id h.toShape, placed := ?_, nodup := ?_ }
  · intro k p hp
    simp only [remove] at hp
    rw [getShard_setShard _ _ _ _ hk] at hp
    split at hp
    · rename_i hkk; exact h.placed k p (hkk ▸ (List.mem_filter.mp hp).1)
    · exact h.placed k p hp
  · intro k
    simp only [remove]
    rw [getShard_setShard _ _ _ _ hk]
    split
    · exact (h.nodup _).sublist (List.Sublist.map _ List.filter_sublist)
    · exact h.nodup k

theorem filterMap_congr' {α β : Type} {f g : α → Option β} : ∀ {l : List α}, (∀ x ∈ l, f x = g x) →
    l.filterMap f = l.filterMap g
  | [], _ => rfl
  | a :: l, h => by
    rw [List.filterMap_cons, List.filterMap_cons, h a (by simp), filterMap_congr' (fun x hx => h x (by simp [hx]))]

/-- `add_track`: duplicates are rejected and change nothing; otherwise the track is found under its id
afterwards and every other id is unaffected. -/
theorem C09_add_track (s : Store TA M OA) (h : WF s) (t : Track TA M OA) :
    (∀ t0, find s t.id = some t0 → addTrack (E := E) s t = (.error (.dup t.id), s)) ∧
    (find s t.id = none →
      (addTrack (E := E) s t).1 = .ok t.id ∧ WF (addTrack (E := E) s t).2 ∧
      ∀ id', find (addTrack (E := E) s t).2 id' = if id' = t.id then some t else find s id') := by
  constructor
  · intro t0 h0; simp [addTrack, h0]
  · intro h0
    have : addTrack (E := E) s t = (.ok t.id, put s t.id t) := by simp [addTrack, h0]
    rw [this]
    exact ⟨rfl, wf_put s h _ _, fun id' => find_put s h.toShape _ _ _⟩

/-- `fetch_tracks`: every requested id is gone afterwards, every other id is untouched, and (for a
duplicate-free request) exactly the requested existing tracks are returned, in request order. -/
theorem C09_fetch (s : Store TA M OA) (h : WF s) (ids : List Nat) :
    WF (fetchTracks s ids).2 ∧
    (∀ id', find (fetchTracks s ids).2 id' = if id' ∈ ids then none else find s id') ∧
    (ids.Nodup → (fetchTracks s ids).1 = ids.filterMap (find s)) := by
  induction ids generalizing s with
  | nil => simp [fetchTracks, h]
  | cons id rest ih =>
    cases hf : find s id with
    | none =>
      simp only [fetchTracks, hf]
      obtain ⟨h1, h2, h3⟩ := ih s h
      refine ⟨h1, ?_, ?_⟩
      · intro id'
        rw [h2 id']
        by_cases he : id' = id
        · subst he; simp [hf]
        · simp [he]
      · intro hnd
        rw [h3 (List.nodup_cons.mp hnd).2]
        simp [List.filterMap_cons, hf]
    | some t =>
      simp only [fetchTracks, hf]
      obtain ⟨h1, h2, h3⟩ := ih (remove s id) (wf_remove s h id)
      refine ⟨h1, ?_, ?_⟩
      · intro id'
        rw [h2 id', find_remove s h.toShape]
        by_cases he : id' = id
        · subst he; simp
        · simp [he]
      · intro hnd
        obtain ⟨hni, hnd'⟩ := List.nodup_cons.mp hnd
        rw [h3 hnd']
        simp only [List.filterMap_cons, hf, List.cons.injEq, true_and]
        apply filterMap_congr'
        intro x hx
        rw [find_remove s h.toShape]
        have : x ≠ id := fun e => hni (e ▸ hx)
        simp [this]

/-- `clear` empties the map. -/
theorem C09_clear (s : Store TA M OA) (id : Nat) : find (clear s) id = none := find_clear s id

/-- per-shard counts sum to the number of stored tracks -/
theorem C09_stats (s : Store TA M OA) : (shardStats s).sum = (all s).length := by
  unfold shardStats all
  induction s.shards with
  | nil => rfl
  | cons sh rest ih =>
    simp only [List.map_cons, List.sum_cons, List.flatMap_cons, List.length_append, List.length_map, ih]

/-- the tracks held (as enumerated by lookups / usable scans) are exactly the map's entries -/
theorem C09_all_iff (s : Store TA M OA) (h : WF s) (id : Nat) (t : Track TA M OA) :
    (id, t) ∈ getShard s (shardOf s id) ↔ find s id = some t := by
  rw [find_eq]
  unfold afind
  have hnd := h.nodup (shardOf s id)
  generalize getShard s (shardOf s id) = sh at hnd
  induction sh with
  | nil => simp
  | cons p rest ih =>
    rw [List.map_cons, List.nodup_cons] at hnd
    by_cases hp : p.1 = id
    · simp only [List.mem_cons, List.find?_cons, hp, beq_self_eq_true, Option.map_some, Option.some.injEq]
      constructor
      · rintro (h1 | h1)
        · rw [← h1]
        · exact absurd (List.mem_map_of_mem (f := (·.1)) h1) (hp ▸ hnd.1)
      · intro h1; left; rw [← h1, ← hp]
    · have hp' : (p.1 == id) = false := by simp [hp]
      simp only [List.mem_cons, List.find?_cons, hp']
      have ih' := ih hnd.2
      constructor
      · rintro (h1 | h1)
        · exact absurd (by rw [← h1]) hp
        · exact ih'.mp h1
      · exact fun h1 => Or.inr (ih'.mpr h1)

/-- `lookup` and `find_usable` return exactly the stored tracks satisfying the predicate, with
their status (`Pending` dropped by `find_usable`). -/
theorem C09_lookup (cb : Cb TA M OA U Q E) (s : Store TA M OA) (q : Q) :
    lookupQ cb s q = ((all s).filter (fun t => lookup cb t q)).map (fun t => (t.id, status cb t)) ∧
    ∀ r, r ∈ findUsable cb s ↔ ∃ t ∈ all s, r = (t.id, status cb t) ∧ status cb t ≠ .ok .pending := by
  refine ⟨rfl, fun r => ?_⟩
  simp only [findUsable, List.mem_filterMap]
  constructor
  · rintro ⟨t, ht, hr⟩
    refine ⟨t, ht, ?_⟩
    split at hr
    · cases hr
    · rename_i hne
      injection hr with hr
      exact ⟨hr.symm, fun h => hne (by rw [h])⟩
  · rintro ⟨t, ht, rfl, hne⟩
    refine ⟨t, ht, ?_⟩
    split
    · rename_i h; exact absurd h hne
    · rfl

theorem addObservation_id (cb : Cb TA M OA U Q E) (t : Track TA M OA) (cls : Nat) (o : Option OA) (u : Option U) :
    (addObservation cb t cls o u).2.1.id = t.id := by
  unfold addObservation
  cases u with
  | none =>
    cases o with
    | none => rfl
    | some o => simp only []; split <;> rfl
  | some u =>
    simp only []
    cases cb.apply u t.attrs with
    | error e => rfl
    | ok a =>
      cases o with
      | none => rfl
      | some o => simp only []; split <;> rfl

theorem buildLoop_id (cb : Cb TA M OA U Q E) (obs : List (Nat × Option OA × Option U)) (t0 : Track TA M OA) (n : Nat)
    (t : Track TA M OA) (k : Nat) (h : buildLoop cb t0 n obs = (.ok t, k)) : t.id = t0.id := by
  induction obs generalizing t0 n with
  | nil => simp only [buildLoop, Prod.mk.injEq, Except.ok.injEq] at h; rw [← h.1]
  | cons ob rest ih =>
    simp only [buildLoop] at h
    have hid := addObservation_id cb t0 ob.1 ob.2.1 ob.2.2
    rcases hao : addObservation cb t0 ob.1 ob.2.1 ob.2.2 with ⟨r, t', k'⟩
    rw [hao] at h hid
    cases r with
    | error e => simp at h
    | ok u => exact (ih t' _ h).trans hid

theorem build_id (cb : Cb TA M OA U Q E) (id : Nat) (m : M) (a : TA) (obs : List (Nat × Option OA × Option U))
    (t : Track TA M OA) (k : Nat) (h : build cb id m a obs = (.ok t, k)) : t.id = id :=
  buildLoop_id cb obs _ _ t k h

/-- `add` on an id that is not stored behaves exactly as building the track externally
(`new_track(id).observation(..).build()`) and inserting it with `add_track` — failure included. -/
theorem C09_add_missing (cb : Cb TA M OA U Q E) (s : Store TA M OA) (h : WF s) (id cls : Nat) (o : Option OA)
    (u : Option U) (hm : find s id = none) :
    (∀ t k, build cb id s.defMetric s.defAttrs [(cls, o, u)] = (.ok t, k) →
        (add cb s id cls o u).1 = .ok () ∧ (add cb s id cls o u).2.1 = (addTrack (E := E) s t).2 ∧
        (addTrack (E := E) s t).1 = .ok id) ∧
    (∀ e k, build cb id s.defMetric s.defAttrs [(cls, o, u)] = (.error e, k) →
        (add cb s id cls o u).1 = .error e ∧ (add cb s id cls o u).2.1 = s) := by
  constructor
  · intro t k hb
    have hid := build_id cb id _ _ _ t k hb
    simp only [add, hm, hb, addTrack, hid, and_self]
  · intro e k hb
    simp only [add, hm, hb, and_self]

/-- `merge_external` reports failure exactly when the destination is missing, source and destination
are the same track, or the track merge itself fails; then nothing changes. On success only the
destination changes. -/
theorem C09_merge_external (cb : Cb TA M OA U Q E) (s : Store TA M OA) (h : WF s) (dest : Nat)
    (src : Track TA M OA) (classes : Option (List Nat)) (flag : Bool) :
    (find s dest = none → mergeExternal cb s dest src classes flag = (.error (.notFound dest), s, 0)) ∧
    (∀ d, find s dest = some d → dest = src.id →
        mergeExternal cb s dest src classes flag = (.error (.same dest), s, 0)) ∧
    (∀ d, find s dest = some d → dest ≠ src.id →
      (∀ e, (merge cb d src (mergeClasses classes src) flag).1 = .error e →
          (mergeExternal cb s dest src classes flag).1 = .error e ∧
          (mergeExternal cb s dest src classes flag).2.1 = s) ∧
      ((merge cb d src (mergeClasses classes src) flag).1 = .ok () →
          (mergeExternal cb s dest src classes flag).1 = .ok () ∧
          ∀ id', find (mergeExternal cb s dest src classes flag).2.1 id' =
            if id' = dest then some (merge cb d src (mergeClasses classes src) flag).2.1 else find s id')) := by
  refine ⟨?_, ?_, ?_⟩
  · intro h0; simp [mergeExternal, h0]
  · intro d h0 he
    have : (dest == src.id) = true := by simp [he]
    simp only [mergeExternal, h0, this, if_true]
  · intro d h0 hne
    have hne' : (dest == src.id) = false := by simp [hne]
    rcases hmr : merge cb d src (mergeClasses classes src) flag with ⟨r, d', k⟩
    constructor
    · intro e he
      simp only at he
      subst he
      simp [mergeExternal, h0, hne', hmr]
    · intro hok
      simp only at hok
      subst hok
      simp only [mergeExternal, h0, hne', hmr, Bool.false_eq_true, if_false, true_and]
      intro id'
      exact find_put s h.toShape _ _ _

/-- `merge_owned` additionally fails on a missing source; on failure both tracks are still stored,
unchanged; on success the source is removed iff asked. -/
theorem C09_merge_owned (cb : Cb TA M OA U Q E) (s : Store TA M OA) (h : WF s) (dest srcId : Nat)
    (classes : Option (List Nat)) (rm flag : Bool) :
    (find s srcId = none → mergeOwned cb s dest srcId classes rm flag = (.error (.notFound srcId), s, 0)) ∧
    (∀ e, (mergeOwned cb s dest srcId classes rm flag).1 = .error e →
        (mergeOwned cb s dest srcId classes rm flag).2.1 = s) ∧
    (∀ src r, find s srcId = some src → (mergeOwned cb s dest srcId classes rm flag).1 = .ok r →
        dest ≠ srcId ∧ r = (if rm then some src else none) ∧
        find (mergeOwned cb s dest srcId classes rm flag).2.1 srcId = (if rm then none else some src)) := by
  refine ⟨?_, ?_, ?_⟩
  · intro h0; simp [mergeOwned, h0]
  · intro e he
    cases hs : find s srcId with
    | none => simp [mergeOwned, hs]
    | some src =>
      rcases hme : mergeExternal cb (remove s srcId) dest src classes flag with ⟨rr, s2, k⟩
      simp only [mergeOwned, hs, hme] at he ⊢
      cases rr with
      | error e' => rfl
      | ok u => cases rm <;> simp at he
  · intro src r hs hok
    have hwr := wf_remove s h srcId
    rcases hme : mergeExternal cb (remove s srcId) dest src classes flag with ⟨rr, s2, k⟩
    simp only [mergeOwned, hs, hme] at hok ⊢
    cases rr with
    | error e' => simp at hok
    | ok u =>
      have hme1 : (mergeExternal cb (remove s srcId) dest src classes flag).1 = .ok () := by rw [hme]
      have hme2 : (mergeExternal cb (remove s srcId) dest src classes flag).2.1 = s2 := by rw [hme]
      have hext := C09_merge_external cb (remove s srcId) hwr dest src classes flag
      -- the destination was found in the store without the source, hence differs from it
      have hdest : dest ≠ srcId := by
        intro he
        have hnone : find (remove s srcId) dest = none := by rw [find_remove s h.toShape, if_pos he]
        have := hext.1 hnone
        rw [this] at hme1
        simp at hme1
      have hs2 : ∀ id', id' ≠ dest → find s2 id' = find (remove s srcId) id' := by
        intro id' hid
        cases hd : find (remove s srcId) dest with
        | none => have := hext.1 hd; rw [this] at hme1; simp at hme1
        | some d =>
          have hsame : dest ≠ src.id := by
            intro he
            have := hext.2.1 d hd he
            rw [this] at hme1; simp at hme1
          cases hm : (merge cb d src (mergeClasses classes src) flag).1 with
          | error e2 =>
            have := ((hext.2.2 d hd hsame).1 e2 hm).1
            rw [hme1] at this; simp at this
          | ok u2 =>
            have := ((hext.2.2 d hd hsame).2 hm).2 id'
            rw [hme2, if_neg hid] at this
            exact this
      have hshape2 : Shape s2 := by
        rw [← hme2]
        unfold mergeExternal
        split
        · exact hwr.toShape
        · split
          · exact hwr.toShape
          · split
            · exact shape_put _ _ _ hwr.toShape
            · exact hwr.toShape
      have hsrc : find s2 srcId = none := by
        rw [hs2 srcId (fun e => hdest e.symm), find_remove s h.toShape, if_pos rfl]
      cases rm with
      | true =>
        simp only [if_true, Prod.mk.injEq, Except.ok.injEq] at hok ⊢
        exact ⟨hdest, hok.symm, hsrc⟩
      | false =>
        simp only [Bool.false_eq_true, if_false, Except.ok.injEq] at hok ⊢
        refine ⟨hdest, hok.symm, ?_⟩
        rw [find_put s2 hshape2, if_pos rfl]

/-! ### non-vacuity -/
example : WF (empty 3 (0 : Nat) (0 : Nat) : Store Nat Nat Nat) := wf_empty 3 0 0 (by decide)
example : find (put (empty 3 (0 : Nat) (0 : Nat) : Store Nat Nat Nat) 7 ⟨7, 1, [], 0, [7]⟩) 7 =
    some ⟨7, 1, [], 0, [7]⟩ := by
  rw [find_put _ (shape_empty 3 0 0 (by decide))]; simp

end SimVerif.C09
