import SimVerif.Props.C11
import SimVerif.Tie.Track
/-!
# C11 at source level

`SimVerif.Gen.L.track_add_observation` / `track_merge` are `Track::add_observation` / `Track::merge` of `src/track.rs` as
regenerated from the source on every run (`Tie/Track.lean` proves them equal to the model). Atomicity and the merge-history
rule are restated here **for the generated functions themselves**: for every family of callbacks, every position at which a
callback fails, and **whatever the failing callback leaves behind in the places it was given** (`junk`), a failing call
returns the track's attributes, observation table, metric state and merge history exactly as they were and sends no
notification; a successful call sends exactly one.
-/
namespace SimVerif.C11
open SimVerif.Track SimVerif.Tie SimVerif.Gen.L
variable {TA M A F U Q E : Type}

theorem liftErr_error (r : Except E Unit) (e : E) (h : r = .error e) : liftErr r = .error (.cb e) := by subst h; rfl
theorem liftErr_ok (r : Except E Unit) (h : r = .ok ()) : liftErr r = .ok () := by subst h; rfl

/-- **`Track::add_observation` is atomic** (source level) -/
theorem C11_source_add_atomic (cb : Cb TA M (Option A × Option F) U Q E) (junkA : U → TA → TA)
    (junkO : M → Nat → List Nat → TA → List (Option A × Option F) → Nat → Bool → M × TA × List (Option A × Option F))
    (t : Track TA M (Option A × Option F)) (cls : Nat) (fa : Option A) (f : Option F) (u : Option U) (notes : Nat) :
    let r := track_add_observation (applyOf cb junkA) (optimizeOf cb junkO) t.attrs t.obs t.metric t.hist notes cls fa f u
    (∀ e, r.1 = .error e → r.2.1 = t.attrs ∧ r.2.2.1 = t.obs ∧ r.2.2.2.1 = t.metric ∧ r.2.2.2.2 = notes) ∧
    (r.1 = .ok () → r.2.2.2.2 = notes + 1) := by
  intro r
  obtain ⟨h1, h2, h3⟩ := tie_track_add_observation cb junkA junkO t cls fa f u notes
  obtain ⟨hE, hO⟩ := C11_add_atomic cb t cls (if f.isNone && fa.isNone then none else some (fa, f)) u
  constructor
  · intro e he
    have hm := hE (.cb e) (by rw [h1]; exact liftErr_error _ e he)
    rw [h2] at hm
    have ht := hm.1
    refine ⟨?_, ?_, ?_, ?_⟩
    · exact congrArg Track.attrs ht
    · exact congrArg Track.obs ht
    · exact congrArg Track.metric ht
    · rw [h3, hm.2]; rfl
  · intro hok
    rw [h3, hO (by rw [h1]; exact liftErr_ok _ hok)]

/-- **`Track::merge` is atomic, and the merge history is installed once, only on success** (source level) -/
theorem C11_source_merge (cb : Cb TA M (Option A × Option F) U Q E) (junkA : TA → TA → TA)
    (junkO : M → Nat → List Nat → TA → List (Option A × Option F) → Nat → Bool → M × TA × List (Option A × Option F))
    (dst src : Track TA M (Option A × Option F)) (classes : List Nat) (flag : Bool) (notes : Nat) :
    let r := track_merge (mergeOf cb junkA) (optimizeOf cb junkO) dst.attrs dst.obs dst.metric dst.hist notes
      src.attrs src.obs src.hist classes flag
    (∀ e, r.1 = .error e →
      r.2.1 = dst.attrs ∧ r.2.2.1 = dst.obs ∧ r.2.2.2.1 = dst.metric ∧ r.2.2.2.2.1 = dst.hist ∧ r.2.2.2.2.2 = notes) ∧
    (r.1 = .ok () → r.2.2.2.2.2 = notes + 1 ∧
      r.2.2.2.2.1 = (if flag && classes.any (fun c => (getObs dst.obs c).isSome || (getObs src.obs c).isSome)
        then dst.hist ++ src.hist else dst.hist)) := by
  intro r
  obtain ⟨h1, h2, h3⟩ := tie_track_merge cb junkA junkO dst src classes flag notes
  obtain ⟨hE, hO⟩ := C11_merge_atomic cb dst src classes flag
  constructor
  · intro e he
    have hm := hE (.cb e) (by rw [h1]; exact liftErr_error _ e he)
    rw [h2] at hm
    have ht := hm.1
    refine ⟨?_, ?_, ?_, ?_, ?_⟩
    · exact congrArg Track.attrs ht
    · exact congrArg Track.obs ht
    · exact congrArg Track.metric ht
    · exact congrArg Track.hist ht
    · rw [h3, hm.2]; rfl
  · intro hok
    have hmok : (merge cb dst src classes flag).1 = .ok () := by rw [h1]; exact liftErr_ok _ hok
    refine ⟨by rw [h3, hO hmok], ?_⟩
    have hh := C11_history cb dst src classes flag hmok
    rw [h2] at hh
    exact hh

end SimVerif.C11
