import SimVerif.Props.C02
import SimVerif.Props.C20
/-!
# C20 — spatio-temporal constraints at tracker level

In the tracker model the constraints act in one place only: a (detection, track) pair whose epoch
gap and centre distance (`geo`) the table rejects gets no entry in the call's distance table
(`compatible()` fails, no distance is computed). `geo` is whatever the implementation measures
(the executor reports it per entry; C08 / the `geom` requests check the distance itself).
-/
namespace SimVerif.C20
open SimVerif.Tracker SimVerif.Constraints

/-- the pair is admitted by the constraint table -/
def admitted (cs : List Constraints.Entry) (geo : Tracker.Entry → Nat × Rat) (x : Tracker.Entry) : Bool :=
  validate cs (geo x).1 (geo x).2 == some true

/-- the distance table a constrained tracker sees: the unconstrained table without the rejected pairs -/
def constrainedTable (cs : List Constraints.Entry) (geo : Tracker.Entry → Nat × Rat) (table : List Tracker.Entry) : List Tracker.Entry :=
  table.filter (admitted cs geo)

/-- **Binding constraints bound every attachment**: in a valid choice over the constrained table,
a detection is attached to a track only through a pair the constraints admit — its centre distance
does not exceed the limit for its epoch gap. -/
theorem C20_binding (cfg : Cfg) (st : St) (scene e n : Nat) (cs : List Constraints.Entry)
    (geo : Tracker.Entry → Nat × Rat) (table : List Tracker.Entry) (picks : List Pick)
    (h : validChoice cfg st scene e n (constrainedTable cs geo table) picks = true) :
    ∀ i tid, (picks.map contOf)[i]? = some (some tid) →
      ∃ x ∈ table, x.det = i ∧ x.tid = tid ∧ cfg.thr ≤ x.w ∧ validate cs (geo x).1 (geo x).2 = some true := by
  intro i tid hi
  obtain ⟨x, hx, h1, h2, h3⟩ := (C02.C02_tracker cfg st scene e n _ picks h).2.1 i tid hi
  obtain ⟨hm, ha⟩ := List.mem_filter.mp hx
  exact ⟨x, hm, h1, h2, h3, by simpa [admitted] using ha⟩

/-- **Constraints only remove**: the constrained table is a sub-list of the unconstrained one. -/
theorem C20_only_remove (cs : List Constraints.Entry) (geo : Tracker.Entry → Nat × Rat) (table : List Tracker.Entry) :
    (constrainedTable cs geo table).Sublist table := List.filter_sublist

/-- **Non-binding constraints change nothing**: if no pair of the call violates the table, the
constrained tracker sees exactly the unconstrained distance table, hence has exactly the same valid
choices and (the step being a function of table and choice) the same outcomes. -/
theorem C20_nonbinding (cfg : Cfg) (st : St) (scene e n : Nat) (cs : List Constraints.Entry)
    (geo : Tracker.Entry → Nat × Rat) (table : List Tracker.Entry) (picks : List Pick)
    (hnb : ∀ x ∈ table, validate cs (geo x).1 (geo x).2 = some true) :
    constrainedTable cs geo table = table ∧
    validChoice cfg st scene e n (constrainedTable cs geo table) picks = validChoice cfg st scene e n table picks := by
  have : constrainedTable cs geo table = table := by
    unfold constrainedTable
    rw [List.filter_eq_self]
    intro x hx
    simp [admitted, hnb x hx]
  exact ⟨this, by rw [this]⟩

/-- an empty constraint table admits everything -/
theorem C20_empty (geo : Tracker.Entry → Nat × Rat) (table : List Tracker.Entry) (h : ∀ x ∈ table, 0 ≤ (geo x).2) :
    constrainedTable [] geo table = table := by
  unfold constrainedTable
  rw [List.filter_eq_self]
  intro x hx
  have := h x hx
  simp [admitted, validate, limitFor, not_lt.mpr this]

end SimVerif.C20
