import SimVerif.Props.C01
/-!
# C04 — scene isolation: scenes never interfere

Model: `SimVerif.Tracker`. For every distance table and every valid choice.
-/
namespace SimVerif.C04
open SimVerif.Tracker SimVerif.C01

/-- **A detection is never attached to a track of another scene**: every track continued by a valid
choice belongs to the call's scene (and is unexpired at the call's epoch). -/
theorem C04_no_cross (cfg : Cfg) (st st' : St) (scene : Nat) (dets : List Det) (table : List Entry)
    (picks : List Pick) (lo hi : Nat) (recs : List Rec)
    (h : predictScene cfg st scene dets table picks lo hi = some (st', recs)) :
    ∀ tid vis, Pick.cont tid vis ∈ picks → ∃ t, findLive st tid = some t ∧ t.scene = scene ∧
      ¬ (t.lastUpd + cfg.maxIdle < epochOf st scene + 1) := by
  obtain ⟨hv, _, _⟩ := predictScene_parts cfg st st' scene dets table picks lo hi recs h
  obtain ⟨_, hc2⟩ := valid_conts cfg _ scene _ _ table picks hv
  intro tid vis hp
  have hm : tid ∈ (picks.map contOf).filterMap id := by
    simp only [List.mem_filterMap, List.mem_map, id_eq, exists_eq_right]
    exact ⟨_, hp, rfl⟩
  obtain ⟨t, ht, hs, he⟩ := hc2 tid hm
  exact ⟨t, ht, hs, by omega⟩

/-- one pick touches only the track it continues -/
theorem applyPick_frame (cfg : Cfg) (scene e : Nat) (st st' : St) (d : Det) (p : Pick) (r : Rec)
    (h : applyPick cfg scene e st d p = some (st', r)) (t : Trk) (ht : t ∈ st.live)
    (hne : ∀ tid vis, p = .cont tid vis → t.id ≠ tid) : t ∈ st'.live := by
  unfold applyPick at h
  cases p with
  | cont tid vis =>
    simp only at h
    split at h
    · cases h
    · simp only [Option.some.injEq, Prod.mk.injEq] at h
      rw [← h.1]
      have hid : (t.id == tid) = false := by simp; exact hne tid vis rfl
      have : t ∈ (if cfg.batchIds = true then { st with nextId := st.nextId + 1 } else st).live := by
        split <;> exact ht
      simp only [List.mem_map]
      exact ⟨t, this, by simp [hid]⟩
  | fresh id =>
    simp only [Option.some.injEq, Prod.mk.injEq] at h
    rw [← h.1]
    cases cfg.batchIds <;> simp [ht]

theorem applyPicks_frame (cfg : Cfg) (scene e : Nat) (dets : List Det) (picks : List Pick) (st st' : St)
    (recs : List Rec) (h : applyPicks cfg scene e dets picks st = some (st', recs)) (t : Trk) (ht : t ∈ st.live)
    (hne : ∀ tid vis, Pick.cont tid vis ∈ picks → t.id ≠ tid) : t ∈ st'.live := by
  induction dets generalizing picks st st' recs with
  | nil =>
    cases picks with
    | nil => simp only [applyPicks, Option.some.injEq, Prod.mk.injEq] at h; rw [← h.1]; exact ht
    | cons p ps => simp [applyPicks] at h
  | cons d ds ih =>
    cases picks with
    | nil => simp [applyPicks] at h
    | cons p ps =>
      simp only [applyPicks] at h
      cases h1 : applyPick cfg scene e st d p with
      | none => simp [h1] at h
      | some x =>
        obtain ⟨st1, r⟩ := x
        simp only [h1] at h
        cases h2 : applyPicks cfg scene e ds ps st1 with
        | none => simp [h2] at h
        | some y =>
          obtain ⟨st2, rs⟩ := y
          simp only [h2, Option.some.injEq, Prod.mk.injEq] at h
          rw [← h.1]
          apply ih ps st1 st2 rs h2
          · exact applyPick_frame cfg scene e st st1 d p r h1 t ht (fun tid vis hp => hne tid vis (hp ▸ List.mem_cons_self))
          · exact fun tid vis hp => hne tid vis (List.mem_cons_of_mem _ hp)

/-- **Frame**: a scene step leaves every track of every other scene exactly as it was, and does not
touch the epoch of any other scene, nor the wasted store (ids unique, as in every reachable state). -/
theorem C04_frame (cfg : Cfg) (st st' : St) (hU : (st.live.map (·.id)).Nodup) (scene : Nat) (dets : List Det)
    (table : List Entry) (picks : List Pick) (lo hi : Nat) (recs : List Rec)
    (h : predictScene cfg st scene dets table picks lo hi = some (st', recs)) :
    (∀ t ∈ st.live, t.scene ≠ scene → t ∈ st'.live) ∧
    (∀ s, s ≠ scene → epochOf st' s = epochOf st s) ∧ st'.wasted = st.wasted := by
  obtain ⟨hv, _, ha⟩ := predictScene_parts cfg st st' scene dets table picks lo hi recs h
  obtain ⟨_, _, _, _, _, _, b7, b8, _⟩ := applyPicks_spec cfg scene _ dets picks _ st' recs ha
  refine ⟨?_, ?_, b8⟩
  · intro t ht hs
    apply applyPicks_frame cfg scene _ dets picks _ st' recs ha t ht
    intro tid vis hp heq
    obtain ⟨t0, ht0, hs0, _⟩ := C04_no_cross cfg st st' scene dets table picks lo hi recs h tid vis hp
    -- ids are unique: t is the continued track, which belongs to `scene`
    have h0mem : t0 ∈ st.live := findLive_mem _ _ _ ht0
    have h0id : t0.id = tid := findLive_id _ _ _ ht0
    have : t = t0 := by
      have hinj := List.inj_on_of_nodup_map hU
      exact hinj ht h0mem (heq.trans h0id.symm)
    exact hs (this ▸ hs0)
  · intro s hs
    have h1 : epochOf st' s = epochOf (setEpoch st scene (epochOf st scene + 1)) s := by
      unfold epochOf; rw [b7]; rfl
    rw [h1, epochOf_setEpoch, if_neg hs]

/-- the tracks a scene step can see: those of its own scene -/
def restrict (st : St) (scene : Nat) : St := { st with live := st.live.filter (fun t => t.scene == scene) }

theorem findLive_restrict (st : St) (hU : (st.live.map (·.id)).Nodup) (scene tid : Nat) :
    (findLive (restrict st scene) tid).filter (fun t => t.scene == scene) =
    (findLive st tid).filter (fun t => t.scene == scene) := by
  unfold findLive restrict
  simp only
  generalize st.live = l at hU
  induction l with
  | nil => rfl
  | cons x rest ih =>
    rw [List.map_cons, List.nodup_cons] at hU
    by_cases hx : x.id = tid
    · by_cases hs : x.scene = scene
      · simp [List.filter_cons, hs, List.find?_cons, hx]
      · have hs' : (x.scene == scene) = false := by simp [hs]
        simp only [List.filter_cons, hs', Bool.false_eq_true, if_false, List.find?_cons, hx, beq_self_eq_true,
          Option.filter_some, hs']
        -- no other track has this id
        have : (rest.filter (fun t => t.scene == scene)).find? (fun t => t.id == tid) = none := by
          rw [List.find?_eq_none]
          intro y hy hyid
          simp only [beq_iff_eq] at hyid
          exact hU.1 (List.mem_map.mpr ⟨y, (List.mem_filter.mp hy).1, hyid.trans hx.symm⟩)
        simp [this]
    · have hx' : (x.id == tid) = false := by simp [hx]
      by_cases hs : x.scene = scene
      · simp only [List.filter_cons, hs, beq_self_eq_true, if_true, List.find?_cons, hx']
        exact ih hU.2
      · have hs' : (x.scene == scene) = false := by simp [hs]
        simp only [List.filter_cons, hs', Bool.false_eq_true, if_false, List.find?_cons, hx']
        exact ih hU.2

/-- **Restriction**: whether a choice is valid for a call depends only on the tracks of the call's
own scene — the tracks of other scenes, however many and wherever they are, play no role. -/
theorem C04_valid_restrict (cfg : Cfg) (st : St) (hU : (st.live.map (·.id)).Nodup) (scene e n : Nat)
    (table : List Entry) (picks : List Pick) :
    validChoice cfg (restrict st scene) scene e n table picks = validChoice cfg st scene e n table picks := by
  unfold validChoice
  have hg : ∀ o : Option Trk,
      (match o.filter (fun t => t.scene == scene) with
        | some t => t.scene == scene && decide (e - t.lastUpd ≤ cfg.maxIdle) | none => false) =
      (match o with
        | some t => t.scene == scene && decide (e - t.lastUpd ≤ cfg.maxIdle) | none => false) := by
    intro o
    cases o with
    | none => rfl
    | some t =>
      by_cases hs : (t.scene == scene) = true
      · simp [Option.filter, hs]
      · simp only [Bool.not_eq_true] at hs
        simp [Option.filter, hs]
  have hentry : entryOk cfg (restrict st scene) scene e = entryOk cfg st scene e := by
    funext x
    unfold entryOk
    have e1 := hg (findLive (restrict st scene) x.tid)
    have e2 := hg (findLive st x.tid)
    rw [findLive_restrict st hU scene x.tid] at e1
    exact e1.symm.trans e2
  rw [hentry]

/-! ### non-vacuity -/
private def cfg0 : Cfg := { maxIdle := 2, histLen := 3, batchIds := false, thr := 300000 }
private def st0 : St := { epochs := [(0, 1), (5, 1)], live := [(Trk.simple 1 0 1 1 none [1]), (Trk.simple 2 5 1 1 none [2])], nextId := 2 }
/-- a table entry pointing at the other scene's track makes the choice invalid -/
example : predictScene cfg0 st0 0 [(Det.simple 3 (none))] [⟨0, 2, 900000⟩] [.cont 2 false] 0 0 = none := by decide +kernel
example : (predictScene cfg0 st0 0 [(Det.simple 3 (none))] [⟨0, 1, 900000⟩] [.cont 1 false] 0 0).isSome = true := by decide +kernel

end SimVerif.C04
