import SimVerif.Model.SortMetric
import SimVerif.Lemmas.Assign
import SimVerif.Props.C01
import Mathlib.Algebra.Order.Field.Basic
import Mathlib.Tactic.Linarith
import Mathlib.Tactic.Positivity
/-!
# C02 — positional association is gated and a maximum-weight one-to-one assignment

Models: `SimVerif.SortMetric` (the gate), `SimVerif.Assign` (the code's cost matrix and every
optimal solution of it), `SimVerif.AssignX` (enumeration of all one-to-one partial assignments),
`SimVerif.Tracker.validChoice`.
-/
namespace SimVerif.C02
open SimVerif.Geom SimVerif.SortMetric SimVerif.Kalman

section Gate
variable {α : Type} [Field α] [LinearOrder α] [IsStrictOrderedRing α]

/-- **IoU gate**: a pair gets a positional weight `w` exactly when it is not too far, the boxes
overlap, `w = IoU · max(conf, min_conf)` and `w ≥ threshold`. -/
theorem C02_gate_iou (thr minconf : α) (cb tb : UBox α) (cc sc ct st w : α) :
    metricIoU thr minconf cb tb cc sc ct st = some (some w) ↔
      tooFar cb tb = false ∧ ∃ i, iou cb tb cc sc ct st = some i ∧
        w = i * max cb.conf minconf ∧ thr ≤ w := by
  have hconf : confOf minconf cb.conf = max cb.conf minconf := by
    unfold confOf; split
    · rename_i h; exact (max_eq_right h.le).symm
    · rename_i h; exact (max_eq_left (not_lt.mp h)).symm
  unfold metricIoU
  cases htf : tooFar cb tb
  · simp only [Bool.false_eq_true, if_false, Option.some.injEq, true_and]
    cases hi : iou cb tb cc sc ct st with
    | none => simp
    | some i =>
      simp only [Option.bind_some, hconf, Option.some.injEq, exists_eq_left']
      constructor
      · intro h
        split at h
        · rename_i hle; injection h with h; exact ⟨h.symm, h ▸ hle⟩
        · cases h
      · rintro ⟨rfl, hle⟩; simp [hle]
  · simp

/-- **Mahalanobis gate**: with `0 < min_conf`, `conf ≤ 1`, `min_conf ≤ 1` and `upper − gate ≥ 1` the
weight reaches the voting threshold 1 exactly when the pair is not too far and the squared distance
is within the gate. -/
theorem C02_gate_maha (gate upper minconf : α) (cb tb : UBox α) (d : α)
    (hmc : 0 < minconf) (hmc1 : minconf ≤ 1) (hc1 : cb.conf ≤ 1) (hgap : 1 ≤ upper - gate) :
    (∃ w, metricMaha gate upper minconf cb tb d = some (some w) ∧ 1 ≤ w) ↔ tooFar cb tb = false ∧ d ≤ gate := by
  have hcpos : 0 < confOf minconf cb.conf := by unfold confOf; split <;> [exact hmc; (rename_i h; exact lt_of_lt_of_le hmc (not_lt.mp h))]
  have hc1' : confOf minconf cb.conf ≤ 1 := by unfold confOf; split <;> assumption
  unfold metricMaha
  cases htf : tooFar cb tb
  · simp only [Bool.false_eq_true, if_false, Option.some.injEq, exists_eq_left', true_and]
    unfold costInverted
    by_cases hg : gate < d
    · simp only [hg, if_true, zero_div]
      constructor
      · intro h; linarith
      · intro h; exact absurd h (not_le.mpr hg)
    · simp only [hg, if_false]
      constructor
      · intro _; exact not_lt.mp hg
      · intro hle
        rw [le_div_iff₀ hcpos]
        linarith
  · simp

end Gate

/-- **Every optimal solution of the code's cost matrix decodes correctly** (`thr > 0`): each row is on
its own column or on a track column of weight at least the threshold — never on another row's own
column, never on a track below the threshold. -/
theorem C02_decode {c t : ℕ} {thr : ℤ} {W : Fin c → Fin t → ℤ} {σ : Fin c → Assign.Col c t}
    (hthr : 0 < thr) (h : Assign.IsOpt thr W σ) (i : Fin c) : Assign.good thr W i (σ i) :=
  Assign.decode_ok hthr h i

/-- **…and the decoded map is one-to-one, gated, and of maximum total weight** — unmatched
detections counting the threshold — **among all one-to-one partial assignments**, not merely a
greedy or first-come choice. -/
theorem C02_optimal {c t : ℕ} {thr : ℤ} {W : Fin c → Fin t → ℤ} {σ : Fin c → Assign.Col c t}
    (hthr : 0 < thr) (h : Assign.IsOpt thr W σ) :
    Assign.InjOnSome (Assign.decode σ) ∧ (∀ i k, Assign.decode σ i = some k → thr ≤ W i k) ∧
    (∀ m : Fin c → Option (Fin t), Assign.InjOnSome m → Assign.obj thr W m ≤ Assign.obj thr W (Assign.decode σ)) :=
  Assign.decode_optimal hthr h

open SimVerif.AssignX in
/-- the enumeration is complete: every one-to-one partial assignment into the track list occurs -/
theorem mem_allAssign (qs ts : List Nat) (hts : ts.Nodup) (a : List (Option Nat))
    (hlen : a.length = qs.length) (hin : ∀ x ∈ a.filterMap id, x ∈ ts) (hnd : (a.filterMap id).Nodup) :
    a ∈ allAssign qs ts := by
  induction qs generalizing ts a with
  | nil => cases a <;> simp_all [allAssign]
  | cons q qs ih =>
    cases a with
    | nil => simp at hlen
    | cons o rest =>
      simp only [List.length_cons, Nat.add_right_cancel_iff] at hlen
      cases o with
      | none =>
        simp only [allAssign, List.mem_append, List.mem_map]
        left
        exact ⟨rest, ih ts hts rest hlen (by simpa using hin) (by simpa using hnd), rfl⟩
      | some x =>
        simp only [List.filterMap_cons, id_eq, List.mem_cons, forall_eq_or_imp, List.nodup_cons] at hin hnd
        simp only [allAssign, List.mem_append, List.mem_map, List.mem_flatMap]
        right
        refine ⟨x, hin.1, rest, ?_, rfl⟩
        apply ih (ts.filter (· != x)) (hts.filter _) rest hlen
        · intro y hy
          simp only [List.mem_filter, bne_iff_ne, ne_eq]
          exact ⟨hin.2 y hy, fun e => hnd.1 (e ▸ hy)⟩
        · exact hnd.2

theorem foldl_max_ge (l : List Int) (init x : Int) (h : x ∈ l ∨ x ≤ init) : x ≤ l.foldl max init := by
  induction l generalizing init with
  | nil => rcases h with h | h; cases h; exact h
  | cons a l ih =>
    simp only [List.foldl_cons]
    apply ih
    rcases h with h | h
    · rcases List.mem_cons.mp h with rfl | h
      · right; exact Int.le_max_right _ _
      · left; exact h
    · right; exact Int.le_trans h (Int.le_max_left _ _)

open SimVerif.AssignX in
/-- **The optimum bounds every one-to-one partial assignment** of the call's detections to the
tracks of its distance table. -/
theorem C02_best_max (s : List Entry) (thr : Int) (a : List (Option Nat))
    (hlen : a.length = (queries s).length) (hin : ∀ x ∈ a.filterMap id, x ∈ tracks s)
    (hnd : (a.filterMap id).Nodup) (hts : (tracks s).Nodup) :
    objective s thr (queries s) a ≤ best s thr := by
  unfold best
  apply foldl_max_ge
  left
  exact List.mem_map.mpr ⟨a, mem_allAssign _ _ hts a hlen hin hnd, rfl⟩

open SimVerif.Tracker in
/-- **Tracker level**: a valid choice continues a track only through a table entry for that very
(detection, track) pair whose weight reaches the threshold; no track is continued twice; and the
choice attains the optimum over the call's table. -/
theorem C02_tracker (cfg : Cfg) (st : St) (scene e n : Nat) (table : List Tracker.Entry) (picks : List Pick)
    (h : validChoice cfg st scene e n table picks = true) :
    ((picks.map contOf).filterMap id).Nodup ∧
    (∀ i tid, (picks.map contOf)[i]? = some (some tid) →
        ∃ x ∈ table, x.det = i ∧ x.tid = tid ∧ cfg.thr ≤ x.w) ∧
    (let es : List AssignX.Entry := table.map (fun x => { q := x.det + 1, t := x.tid, w := x.w })
     AssignX.objective es cfg.thr (AssignX.queries es) ((AssignX.queries es).map (fun q => (picks.map contOf).getD (q - 1) none))
       = AssignX.bestOf es cfg.thr) := by
  have hnd := (C01.valid_conts cfg st scene e n table picks h).1
  unfold validChoice at h
  simp only [Bool.and_eq_true] at h
  obtain ⟨⟨⟨⟨hlen, _⟩, hgate⟩, _⟩, hopt⟩ := h
  refine ⟨hnd, ?_, by simpa using hopt⟩
  intro i tid hi
  have hlen' : picks.length = n := by simpa using hlen
  rw [List.all_eq_true] at hgate
  have hi' : i < (picks.map contOf).length := by
    by_contra hc
    rw [List.getElem?_eq_none (by omega)] at hi
    cases hi
  have hmem : (i, some tid) ∈ (List.range n).zip (picks.map contOf) := by
    rw [List.mem_iff_getElem]
    refine ⟨i, by simp at hi' ⊢; omega, ?_⟩
    rw [List.getElem?_eq_getElem hi'] at hi
    simp only [Option.some.injEq] at hi
    simp [List.getElem_zip, hi]
  have := hgate _ hmem
  simp only [List.any_eq_true, Bool.and_eq_true, beq_iff_eq, decide_eq_true_eq] at this
  obtain ⟨x, hx, ⟨⟨h1, h2⟩, h3⟩⟩ := this
  exact ⟨x, hx, h1, h2, h3⟩

/-! ### non-vacuity: greedy is strictly worse than the optimum -/
open SimVerif.AssignX in
/-- detection 1 prefers track 101 (0.9) but must yield it: 1→102, 2→101 totals 1.5 against
greedy's 0.9 + threshold 0.3 = 1.2 -/
example :
    let s : List Entry := [⟨1, 101, 900000⟩, ⟨1, 102, 800000⟩, ⟨2, 101, 700000⟩]
    best s 300000 = 1500000 ∧ objective s 300000 (queries s) [some 101, none] = 1200000 ∧
    optimal s 300000 = [[some 102, some 101]] := by decide +kernel

end SimVerif.C02
