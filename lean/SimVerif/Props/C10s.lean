import SimVerif.Tie.FanOut
import SimVerif.Props.C10
/-!
# C10 at source level: schedule independence for the commands the source sends

`Tie/FanOut.lean` reads off the generated `foreign_track_distances` which (candidate, executor) pairs get a `Distances` command.
Here that set is fed to `C10_schedule_independent`.
-/
set_option linter.unusedSectionVars false
set_option linter.unusedVariables false
namespace SimVerif.C10
open SimVerif SimVerif.Track SimVerif.Store SimVerif.Tie List

variable {TA M OA U Q E : Type}

/-- **C10 for the commands the source sends.** With executors `0 … n-1` (one per shard), the (candidate, shard) pairs
`foreign_track_distances` sends — read off the generated fan-out — are the full product; so for every order `arr` in which the
chunks for exactly those pairs arrive, the collected result is a permutation of `foreignDistances`, with the same error count. -/
theorem C10_source_fanout (cb : Cb TA M OA U Q E) (s : Store TA M OA) (h : Shape s)
    (cands : List (Track TA M OA)) (cls : Nat) (ob : Bool) (arr : List (Track TA M OA × Nat))
    (harr : arr ~ ((Gen.L.store_foreign_fanout ((List.range s.n).map (fun k => (k, ()))) [] cands cls ob).1.map
      (fun m => (m.2.1, m.1)))) :
    (collect cb s cls ob arr).1 ~ (foreignDistances cb s cands cls ob).1 ∧
    (collect cb s cls ob arr).2 = (foreignDistances cb s cands cls ob).2 := by
  apply C10_schedule_independent cb s h cands cls ob arr
  refine harr.trans (Perm.of_eq ?_)
  rw [tie_store_foreign_fanout]
  simp only [List.nil_append, List.map_flatMap, List.map_map]
  rfl

/-- and the collectors wait for exactly that many chunks -/
theorem C10_source_fanout_count {T : Type} (n : Nat) (cands : List T) (cls : Nat) (ob : Bool) :
    (Gen.L.store_foreign_fanout ((List.range n).map (fun k => (k, ()))) [] cands cls ob).2 = (n * cands.length, n * cands.length) := by
  rw [tie_store_foreign_fanout]; simp

end SimVerif.C10
