import SimVerif.Props.C13
import SimVerif.Tie.Gallery
import SimVerif.Tie.VMetric
/-!
# C13 at source level

The gallery theorems restated for the **generated** gallery maintenance of `VisualMetric::optimize`
(`Gen.L.optimize_tail`, regenerated from `src/trackers/visual_sort/metric.rs` on every run; `Tie/Gallery.lean` proves it equal to
`galleryUpdate` / `featCount`) and for the generated collect gate (`Gen.K.v_collect_gate`).
-/
namespace SimVerif.C13
open SimVerif.Tracker SimVerif.Tie SimVerif.Gen.L

/-- the gallery the source computes stays within `visual_max_observations`, and the count it stores is the number of
features actually stored -/
theorem C13_source_bound_count (maxObs : Nat) (h1 : 1 ≤ maxObs) (old : List GE) (new : GE) (c : Nat) (h : old.length ≤ maxObs) :
    let r := optimize_tail geFeature geDropBox (·.quality) maxObs old new c
    r.1.length ≤ maxObs ∧ r.2 = featCount r.1 := by
  intro r
  have := tie_gallery_update maxObs old new c
  refine ⟨?_, ?_⟩
  · show (optimize_tail geFeature geDropBox (·.quality) maxObs old new c).1.length ≤ maxObs
    rw [this]; exact C13_bound maxObs h1 old new h
  · show (optimize_tail geFeature geDropBox (·.quality) maxObs old new c).2 = featCount (optimize_tail geFeature geDropBox (·.quality) maxObs old new c).1
    rw [this]

/-- the newest observation is first and is the only one that keeps its box; every other entry is a stored feature of the
previous gallery -/
theorem C13_source_survivors (maxObs : Nat) (old : List GE) (new : GE) (c : Nat) :
    let g := (optimize_tail geFeature geDropBox (·.quality) maxObs old new c).1
    g.head? = some new ∧ ∀ e ∈ g.tail, e.box = false ∧ e.feat ≠ 0 ∧ ∃ g0 ∈ old, g0.feat = e.feat ∧ g0.quality = e.quality := by
  intro g
  have hg : g = galleryUpdate maxObs old new := by
    show (optimize_tail geFeature geDropBox (·.quality) maxObs old new c).1 = _
    rw [tie_gallery_update]
  rw [hg]
  exact C13_survivors maxObs old new

/-- when the gallery is full the entry the source drops is the last of the quality-sorted stored features: of minimal quality -/
theorem C13_source_evict (maxObs : Nat) (old : List GE) (hfull : (keptSorted old).length ≥ maxObs) (hne : keptSorted old ≠ []) :
    optimize_observations geFeature geDropBox (·.quality) maxObs old = (keptSorted old).dropLast ∧
    ∀ g ∈ (keptSorted old).dropLast, ((keptSorted old).getLast hne).quality ≤ g.quality := by
  refine ⟨?_, C13_evict maxObs old hfull hne⟩
  rw [tie_optimize_observations]
  show (if (keptSorted old).length ≥ maxObs then (keptSorted old).dropLast else keptSorted old) = _
  rw [if_pos hfull]

/-- **the collect rule** (source level): the feature of a detection that continues a track is stored only if the detection
meets the *collect* thresholds; a track's first observation keeps its feature unconditionally -/
theorem C13_source_collect {α φ : Type} [Field α] [LinearOrder α] (minArea qCollect shareCollect : α) (b : Geom.UBox α) (q : α)
    (share : Option α) (feat : Option φ) :
    Gen.K.v_collect_gate minArea qCollect shareCollect false b q share feat = feat ∧
    Gen.K.v_collect_gate minArea qCollect shareCollect true b q share feat =
      (if VisualMetric.featureCanBeUsed minArea (Geom.area b) q qCollect share shareCollect then feat else none) := by
  constructor
  · rw [tie_v_collect_gate]; simp
  · rw [tie_v_collect_gate]
    cases VisualMetric.featureCanBeUsed minArea (Geom.area b) q qCollect share shareCollect <;> simp

end SimVerif.C13
