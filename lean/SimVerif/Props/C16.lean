import SimVerif.Lemmas.Feature
import SimVerif.Lemmas.FeatureReal
import Mathlib.Algebra.Ring.Defs
import Mathlib.Tactic.Ring
/-!
# C16 — feature packing and distance functions match the scalar definitions

Model: `SimVerif.Feature` (loop of `Feature::from_vec`, `Vec::from_vec(&Feature)`, block-wise
`euclidean` / `cosine` of src/distance.rs). Metric laws over `ℝ` are in the second half.
-/
namespace SimVerif.C16
open SimVerif.Feature

section Packing
variable {α : Type} [Zero α] [Add α] [Sub α] [Mul α]

/-- Packing then unpacking returns the vector followed by zeros; the total length is a multiple of
the lane width; fewer than 8 zeros are added to a non-empty vector, and the empty vector becomes one
all-zero block (as the code does). -/
theorem C16_roundtrip (v : List α) :
    unpack (pack v) = v ++ List.replicate (padLen v.length) 0 ∧
    (v.length + padLen v.length) % 8 = 0 ∧
    (v ≠ [] → padLen v.length < 8) ∧ (v = [] → padLen v.length = 8) := by
  refine ⟨?_, ?_, ?_, ?_⟩
  · have h := packLoop_spec v 0 ({ feature := [], acc := zeros, part := 0 } : PState α)
      { len := by simp [zeros, lanes, Gen.FEATURE_LANES_SIZE, Gen.FEATURE_LANES_SIZE], z0 := fun _ => ⟨rfl, rfl⟩, zfull := by omega, zpart := by omega }
    simpa [unpack, pack, finish, cur] using h
  · unfold padLen; split <;> omega
  · intro hv
    have : v.length ≠ 0 := fun h => hv (List.eq_nil_of_length_eq_zero h)
    unfold padLen; rw [if_neg this]; omega
  · intro hv; simp [hv, padLen]

end Packing

section Blocks
variable {α : Type} [CommRing α]

theorem lsum_append (a b : List α) : lsum (a ++ b) = lsum a + lsum b := by
  induction a with
  | nil => simp [lsum]
  | cons x a ih => simp only [lsum, List.cons_append, List.foldr_cons] at ih ⊢; rw [ih]; ring

/-- Block-wise accumulation (what the SIMD code does) equals the flat textbook sum over the common
packed prefix, for any two block lists whose paired blocks have equal lengths. -/
theorem C16_blocks_flat (f1 f2 : List (List α))
    (h : ∀ p ∈ f1.zip f2, p.1.length = p.2.length) :
    sqEuclid f1 f2 = flatSq (f1.take (min f1.length f2.length)).flatten (f2.take (min f1.length f2.length)).flatten ∧
    dot f1 f2 = flatDot (f1.take (min f1.length f2.length)).flatten (f2.take (min f1.length f2.length)).flatten := by
  induction f1 generalizing f2 with
  | nil => simp [sqEuclid, dot, flatSq, flatDot, lsum]
  | cons b1 f1 ih =>
    cases f2 with
    | nil => simp [sqEuclid, dot, flatSq, flatDot, lsum]
    | cons b2 f2 =>
      have hb : b1.length = b2.length := h (b1, b2) (by simp)
      obtain ⟨ih1, ih2⟩ := ih f2 (fun p hp => h p (by simp [hp]))
      have hz : (b1 ++ (f1.take (min f1.length f2.length)).flatten).zip
          (b2 ++ (f2.take (min f1.length f2.length)).flatten) =
          b1.zip b2 ++ ((f1.take (min f1.length f2.length)).flatten).zip ((f2.take (min f1.length f2.length)).flatten) :=
        List.zip_append hb
      constructor
      · simp only [sqEuclid, List.zip_cons_cons, List.map_cons, lsum, List.foldr_cons] at ih1 ⊢
        simp only [List.length_cons, Nat.add_min_add_right, List.take_succ_cons, List.flatten_cons, flatSq, hz,
          List.map_append, blockSq]
        rw [lsum_append]
        simp only [lsum, flatSq, blockSq] at ih1 ⊢
        rw [ih1]
      · simp only [dot, List.zip_cons_cons, List.map_cons, lsum, List.foldr_cons] at ih2 ⊢
        simp only [List.length_cons, Nat.add_min_add_right, List.take_succ_cons, List.flatten_cons, flatDot, hz,
          List.map_append, blockDot]
        rw [lsum_append]
        simp only [lsum, flatDot, blockDot] at ih2 ⊢
        rw [ih2]

end Blocks

section Reals
open SimVerif.Feature

/-- Euclidean distance on the flat vectors (what `euclidean` computes, by `C16_blocks_flat`):
symmetric, zero on identical vectors, non-negative, triangle inequality. -/
theorem C16_euclid_metric (a b c : List ℝ) (hab : a.length = b.length) (hbc : b.length = c.length) :
    euclidR a b = euclidR b a ∧ euclidR a a = 0 ∧ 0 ≤ euclidR a b ∧
    euclidR a c ≤ euclidR a b + euclidR b c :=
  ⟨euclid_symm a b, euclid_self a, euclid_nonneg a b, euclid_triangle a b c hab hbc⟩

/-- Cosine similarity of non-zero vectors: symmetric, in [-1, 1], 1 on positive multiples, -1 on
negative multiples, invariant under positive scaling. -/
theorem C16_cosine (a b : List ℝ) (h : a.length = b.length) (ha : flatDot a a ≠ 0) (hb : flatDot b b ≠ 0)
    (k : ℝ) :
    cosineR a b = cosineR b a ∧ (-1 ≤ cosineR a b ∧ cosineR a b ≤ 1) ∧
    (0 < k → cosineR a (a.map (k * ·)) = 1) ∧ (k < 0 → cosineR a (a.map (k * ·)) = -1) ∧
    (0 < k → cosineR (a.map (k * ·)) b = cosineR a b) :=
  ⟨cosine_symm a b, cosine_range a b h ha hb, fun hk => cosine_parallel a k hk ha,
   fun hk => cosine_opposite a k hk ha, fun hk => cosine_scale a b k hk⟩

example : flatDot ([1, 2] : List ℝ) [1, 2] ≠ 0 := by norm_num [flatDot, lsum]
end Reals

/-! ### non-vacuity -/
example : pack ([1, 2, 3] : List Int) = [[1, 2, 3, 0, 0, 0, 0, 0]] := by decide
example : pack ([] : List Int) = [[0, 0, 0, 0, 0, 0, 0, 0]] := by decide
example : (pack ([1, 2, 3, 4, 5, 6, 7, 8, 9] : List Int)).length = 2 := by decide

end SimVerif.C16
