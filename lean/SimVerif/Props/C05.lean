import SimVerif.Props.C10
import SimVerif.Props.C03
/-!
# C05 — tracking results are independent of shard count and thread schedule

The tracker model (`SimVerif.Tracker`) does not mention shards at all: the only places where the
shard count and the worker schedule enter are the physical placement of tracks and the order in
which distance results arrive. The theorems say that neither can change what the association sees.
-/
namespace SimVerif.C05
open SimVerif.Tracker SimVerif.Track SimVerif.Store List

variable {α β : Type}

theorem buckets_perm (f : α → Nat) : ∀ (n : Nat) (l : List α), (∀ a ∈ l, f a < n) →
    ((List.range n).flatMap (fun k => l.filter (fun a => f a == k))).Perm l := by
  intro n
  induction n with
  | zero =>
    intro l h
    cases l with
    | nil => simp
    | cons a l => exact absurd (h a (by simp)) (by omega)
  | succ n ih =>
    intro l h
    rw [List.range_succ, List.flatMap_append]
    simp only [List.flatMap_cons, List.flatMap_nil, List.append_nil]
    have h1 : (List.range n).flatMap (fun k => l.filter (fun a => f a == k))
        = (List.range n).flatMap (fun k => (l.filter (fun a => decide (f a < n))).filter (fun a => f a == k)) := by
      apply List.flatMap_congr
      intro k hk
      have hk' : k < n := List.mem_range.mp hk
      rw [List.filter_filter]
      apply List.filter_congr
      intro a _
      by_cases hfa : f a = k <;> simp [hfa, hk']
    have h2 : l.filter (fun a => f a == n) = l.filter (fun a => !decide (f a < n)) := by
      apply List.filter_congr
      intro a ha
      have := h a ha
      by_cases hfa : f a = n
      · simp [hfa]
      · have : f a < n := by omega
        simp [hfa, this]
    rw [h1, h2]
    have ih' := ih (l.filter (fun a => decide (f a < n))) (by
      intro a ha; simpa using (List.mem_filter.mp ha).2)
    exact (List.Perm.append_right _ ih').trans (List.filter_append_perm _ l)

/-- **Any shard count partitions the store**: placing tracks by `id % n` and concatenating the
shards is a permutation of the tracks, for every `n > 0`. -/
theorem C05_shards_perm (n : Nat) (hn : 0 < n) (key : α → Nat) (l : List α) :
    ((List.range n).flatMap (fun k => l.filter (fun a => key a % n == k))).Perm l :=
  buckets_perm (fun a => key a % n) n l (fun a _ => Nat.mod_lt _ hn)

/-- hence two shard counts hold permutations of each other -/
theorem C05_two_shard_counts (n₁ n₂ : Nat) (h1 : 0 < n₁) (h2 : 0 < n₂) (key : α → Nat) (l : List α) :
    ((List.range n₁).flatMap (fun k => l.filter (fun a => key a % n₁ == k))).Perm
    ((List.range n₂).flatMap (fun k => l.filter (fun a => key a % n₂ == k))) :=
  (C05_shards_perm n₁ h1 key l).trans (C05_shards_perm n₂ h2 key l).symm

/-- **Every worker schedule delivers the same distances**: for every shard count and every order in
which the workers' chunks arrive, the collected results are a permutation of the sequential result
(this is `C10_schedule_independent`, restated for the tracker's query with `only_baked = false`). -/
theorem C05_query_perm {TA M OA U Q E : Type} (cb : Cb TA M OA U Q E) (s : Store TA M OA) (h : Shape s)
    (cands : List (Track TA M OA)) (cls : Nat) (arr : List (Track TA M OA × Nat))
    (harr : arr ~ cands.flatMap (fun c => (List.range s.n).map (fun k => (c, k)))) :
    (C10.collect cb s cls false arr).1 ~ (foreignDistances cb s cands cls false).1 :=
  (C10.C10_schedule_independent cb s h cands cls false arr harr).1

theorem all_perm {p : α → Bool} {l₁ l₂ : List α} (h : l₁ ~ l₂) : l₁.all p = l₂.all p := by
  rw [Bool.eq_iff_iff, List.all_eq_true, List.all_eq_true]
  exact ⟨fun h1 x hx => h1 x (h.symm.subset hx), fun h1 x hx => h1 x (h.subset hx)⟩

theorem any_perm {p : α → Bool} {l₁ l₂ : List α} (h : l₁ ~ l₂) : l₁.any p = l₂.any p := by
  rw [Bool.eq_iff_iff, List.any_eq_true, List.any_eq_true]
  exact ⟨fun ⟨x, hx, hp⟩ => ⟨x, h.subset hx, hp⟩, fun ⟨x, hx, hp⟩ => ⟨x, h.symm.subset hx, hp⟩⟩

/-- **The association reads the distance table as a multiset** (partial: admissibility and gating;
see the file header of `lib/props/C05.py` for what is missing about the optimum): permuting the
table — which is all a different shard count or schedule can do — changes neither which entries
are admissible nor which continuations are gated. -/
theorem C05_valid_perm_partial (cfg : Cfg) (st : St) (scene e n : Nat) (t₁ t₂ : List Tracker.Entry)
    (h : t₁ ~ t₂) (picks : List Pick) :
    t₁.all (entryOk cfg st scene e) = t₂.all (entryOk cfg st scene e) ∧
    ((List.range n).zip (picks.map contOf)).all (fun (i, c) => match c with
      | some tid => t₁.any (fun x => x.det == i && x.tid == tid && decide (cfg.thr ≤ x.w))
      | none => true) =
    ((List.range n).zip (picks.map contOf)).all (fun (i, c) => match c with
      | some tid => t₂.any (fun x => x.det == i && x.tid == tid && decide (cfg.thr ≤ x.w))
      | none => true) := by
  refine ⟨all_perm h, ?_⟩
  congr 1
  funext ⟨i, c⟩
  cases c with
  | none => rfl
  | some tid => exact any_perm h

/-- the totals reported by the statistics do not depend on the shard count -/
theorem C05_stats_total (n₁ n₂ : Nat) (h1 : 0 < n₁) (h2 : 0 < n₂) (l : List Trk) :
    (shardCounts n₁ l).sum = (shardCounts n₂ l).sum := by
  rw [C03.C03_stats n₁ h1, C03.C03_stats n₂ h2]

/-! ### non-vacuity -/
example : ((List.range 3).flatMap (fun k => [5, 1, 9, 4].filter (fun a => a % 3 == k))) = [9, 1, 4, 5] := by decide

end SimVerif.C05
