import SimVerif.Props.C13
import SimVerif.Props.C03
import SimVerif.Lemmas.TrackerGallery
/-!
# C13 — galleries and histories are bounded in every reachable state of a VisualSORT tracker
Model: `SimVerif.Tracker`. Helper lemmas: `SimVerif/Lemmas/TrackerGallery.lean`.
-/
namespace SimVerif.C13
open SimVerif.Tracker List

/-- the calls of a VisualSORT tracker (simple or batch) -/
inductive VOp where
  | predict (scene : Nat) (dets : List Det) (table : List VEntry) (picks : List Pick)
  | predictBatch (scenes : List (Nat × List Det × List VEntry × List Pick))
  | skip (scene n : Nat)
  | wasted
  | clearWasted
  | setAw (p : Nat)

/-- one call (a call whose choice is not valid leaves the state as it is) -/
def vstep (cfg : Cfg) (st : St) : VOp → St
  | .predict scene dets table picks =>
    match predictV cfg st scene dets table picks with
    | some (st', _) => st'
    | none => st
  | .predictBatch scenes =>
    match predictBatchV cfg st scenes with
    | some (st', _) => st'
    | none => st
  | .skip scene n => skip cfg st scene n
  | .wasted => (wastedOp cfg st).1
  | .clearWasted => clearWasted st
  | .setAw p => setAutoWaste st p

/-- what C13 says about one stored track -/
def TrkOk (cfg : Cfg) (t : Trk) : Prop :=
  t.gallery.length ≤ cfg.maxObs ∧ t.vcount = featCount t.gallery ∧
  1 ≤ t.gallery.length ∧ (t.gallery.filter (·.box)).length ≤ 1 ∧
  t.obsH.length ≤ cfg.histLen ∧ t.featH.length ≤ cfg.histLen ∧ 1 ≤ t.obsH.length

/-- … about every track the tracker holds, live or collected -/
def GalleryInv (cfg : Cfg) (st : St) : Prop := ∀ t ∈ st.live ++ st.wasted, TrkOk cfg t

/-! ### helper lemmas (statements below are the fixed ones) -/

theorem galleryInv_iff_allT (cfg : Cfg) (st : St) : GalleryInv cfg st ↔ AllT (TrkOk cfg) st := Iff.rfl

/-- a continued track stays within its bounds -/
theorem updTrk_ok (cfg : Cfg) (hv : cfg.visual = true) (hm : 1 ≤ cfg.maxObs) (hh : 1 ≤ cfg.histLen)
    (t : Trk) (ht : TrkOk cfg t) (e : Nat) (d : Det) (vis : Bool) : TrkOk cfg (C03.updTrk cfg e d vis t) := by
  obtain ⟨h1, _, _, _, h5, h6, _⟩ := ht
  unfold C03.updTrk
  simp only [hv, if_true]
  exact ⟨C13_bound cfg.maxObs hm _ _ h1, rfl, galleryUpdate_length_pos _ _ _, galleryUpdate_boxes _ _ _,
    pushBounded_length_le _ _ _ hh h5, pushBounded_length_le _ _ _ hh h6, pushBounded_length_pos _ _ _⟩

/-- a new track is within its bounds -/
theorem newTrk_ok (cfg : Cfg) (hv : cfg.visual = true) (hm : 1 ≤ cfg.maxObs) (hh : 1 ≤ cfg.histLen)
    (scene e : Nat) (d : Det) (id : Nat) : TrkOk cfg (C03.newTrk cfg scene e d id) := by
  unfold C03.newTrk
  simp only [hv, if_true]
  refine ⟨by simpa using hm, rfl, by simp, ?_, by simpa using hh, by simpa using hh, by simp⟩
  simp

theorem inv_init (cfg : Cfg) : GalleryInv cfg {} := by
  exact allT_init (TrkOk cfg)

/-- one pick keeps every track within its bounds -/
theorem applyPick_inv (cfg : Cfg) (hv : cfg.visual = true) (hm : 1 ≤ cfg.maxObs) (hh : 1 ≤ cfg.histLen)
    (scene e : Nat) (st st' : St) (d : Det) (p : Pick) (r : Rec)
    (h : applyPick cfg scene e st d p = some (st', r)) (hi : GalleryInv cfg st) : GalleryInv cfg st' := by
  exact applyPick_allT (TrkOk cfg) cfg (fun t ht e d vis => updTrk_ok cfg hv hm hh t ht e d vis)
    (fun scene e d id => newTrk_ok cfg hv hm hh scene e d id) scene e st st' d p r h hi

/-- **One call keeps every track within its bounds.** -/
theorem vstep_inv (cfg : Cfg) (hv : cfg.visual = true) (hm : 1 ≤ cfg.maxObs) (hh : 1 ≤ cfg.histLen)
    (st : St) (op : VOp) (hi : GalleryInv cfg st) : GalleryInv cfg (vstep cfg st op) := by
  have hstep : ∀ scene e st st' d p r, applyPick cfg scene e st d p = some (st', r) →
      AllT (TrkOk cfg) st → AllT (TrkOk cfg) st' :=
    fun scene e st st' d p r h hi => applyPick_inv cfg hv hm hh scene e st st' d p r h hi
  cases op with
  | predict scene dets table picks =>
    simp only [vstep]
    cases h : predictV cfg st scene dets table picks with
    | none => exact hi
    | some x =>
      obtain ⟨st', recs⟩ := x
      exact predictV_allT (TrkOk cfg) cfg hstep st st' scene dets table picks recs h hi
  | predictBatch scenes =>
    simp only [vstep]
    cases h : predictBatchV cfg st scenes with
    | none => exact hi
    | some x =>
      obtain ⟨st', out⟩ := x
      exact predictBatchV_allT (TrkOk cfg) cfg hstep st st' scenes out h hi
  | skip scene n => exact skip_allT (TrkOk cfg) cfg st scene n hi
  | wasted => exact wastedOp_allT (TrkOk cfg) cfg st hi
  | clearWasted => exact clearWasted_allT (TrkOk cfg) st hi
  | setAw p => exact setAutoWaste_allT (TrkOk cfg) st p hi

/-- **In every reachable state** of a VisualSORT tracker (`visual_max_observations ≥ 1`,
`kept_history_length ≥ 1`, as the options builder asserts) every track holds at most
`visual_max_observations` observations, at least one, at most one of them with a box, reports as
collected count the number of stored features, and keeps histories of at most `kept_history_length`
entries. -/
theorem C13_reachable (cfg : Cfg) (hv : cfg.visual = true) (hm : 1 ≤ cfg.maxObs) (hh : 1 ≤ cfg.histLen)
    (ops : List VOp) : GalleryInv cfg (ops.foldl (vstep cfg) {}) := by
  have key : ∀ (ops : List VOp) (st : St), GalleryInv cfg st → GalleryInv cfg (ops.foldl (vstep cfg) st) := by
    intro ops
    induction ops with
    | nil => intro st hi; exact hi
    | cons op ops ih =>
      intro st hi
      rw [foldl_cons]
      exact ih _ (vstep_inv cfg hv hm hh st op hi)
  exact key ops {} (inv_init cfg)

end SimVerif.C13
