import SimVerif.Props.C03c
import SimVerif.Lemmas.AssignRename
/-!
# Scene jobs under renaming of track ids (for C04: scene isolation, C06: batch refines simple)
Model: `SimVerif.Tracker`, `SimVerif.AssignX`. Helper lemmas: `SimVerif/Lemmas/AssignRename.lean` and above each theorem.

Two trackers hold "the same" tracks of a selected set of scenes, but under different ids (`ρ` maps
the ids of tracker A to those of tracker B). Then a scene job of a selected scene, offered to B with
the distance table and the choice renamed by `ρ`, is valid for B iff it is for A, produces the renamed
records, and the two trackers still hold the same tracks under `ρ`. The id disciplines (consecutive
ids of the simple trackers, ids from the batch range) may differ between A and B: only
`cfg.batchIds` may differ.
-/
namespace SimVerif.Ren
open SimVerif.Tracker List

def renTrk (ρ : Nat → Nat) (t : Trk) : Trk := { t with id := ρ t.id }
def renRec (ρ : Nat → Nat) (r : Rec) : Rec := { r with id := ρ r.id }
def renEntry (ρ : Nat → Nat) (x : Entry) : Entry := { x with tid := ρ x.tid }
def renPick (ρ : Nat → Nat) : Pick → Pick
  | .cont tid vis => .cont (ρ tid) vis
  | .fresh id => .fresh (ρ id)

def freshIds (picks : List Pick) : List Nat :=
  picks.filterMap (fun p => match p with | .fresh id => some id | _ => none)

/-- the two configurations agree except possibly for the id discipline -/
def SameButIds (cA cB : Cfg) : Prop :=
  cA.maxIdle = cB.maxIdle ∧ cA.histLen = cB.histLen ∧ cA.thr = cB.thr ∧ cA.visual = cB.visual ∧
  cA.maxObs = cB.maxObs ∧ cA.minVotes = cB.minVotes

/-- unexpired tracks of the selected scenes, in store order -/
def view (cfg : Cfg) (sel : Nat → Bool) (st : St) : List Trk :=
  st.live.filter (fun t => sel t.scene && !expired cfg st t)

/-- B holds, under `ρ`, the unexpired tracks A holds for the selected scenes (same order), the selected
scenes have the same epochs, ids are unique on both sides and `ρ` is injective on A's ids -/
structure Rel (cA cB : Cfg) (ρ : Nat → Nat) (sel : Nat → Bool) (a b : St) : Prop where
  epochs : ∀ s, sel s = true → epochOf a s = epochOf b s
  tracks : view cB sel b = (view cA sel a).map (renTrk ρ)
  nodupA : (a.live.map (·.id)).Nodup
  nodupB : (b.live.map (·.id)).Nodup
  inj : ∀ x ∈ a.live, ∀ y ∈ a.live, ρ x.id = ρ y.id → x.id = y.id


/-! ## Helper lemmas -/

theorem freshIds_eq (picks : List Pick) : C01.freshIds picks = freshIds picks := rfl

theorem renTrk_id (ρ : Nat → Nat) (t : Trk) : (renTrk ρ t).id = ρ t.id := rfl
theorem renTrk_scene (ρ : Nat → Nat) (t : Trk) : (renTrk ρ t).scene = t.scene := rfl
theorem renTrk_lastUpd (ρ : Nat → Nat) (t : Trk) : (renTrk ρ t).lastUpd = t.lastUpd := rfl

/-- the filter of `view`, as a predicate -/
def vq (cfg : Cfg) (sel : Nat → Bool) (st : St) (t : Trk) : Bool := sel t.scene && !expired cfg st t

theorem view_eq (cfg : Cfg) (sel : Nat → Bool) (st : St) : view cfg sel st = st.live.filter (vq cfg sel st) := rfl

theorem vq_ren (cfg : Cfg) (sel : Nat → Bool) (st : St) (ρ : Nat → Nat) (t : Trk) :
    vq cfg sel st (renTrk ρ t) = vq cfg sel st t := rfl

/-- `vq` reads the configuration through `maxIdle` and the state through the epochs of the selected scenes -/
theorem vq_congr (cA cB : Cfg) (hm : cA.maxIdle = cB.maxIdle) (sel : Nat → Bool) (a b : St)
    (hep : ∀ s, sel s = true → epochOf a s = epochOf b s) : vq cB sel b = vq cA sel a := by
  funext t
  unfold vq
  cases hs : sel t.scene with
  | false => rfl
  | true =>
    unfold expired
    rw [hep _ hs, hm]

theorem vq_epochs (cfg : Cfg) (sel : Nat → Bool) (a b : St) (h : a.epochs = b.epochs) : vq cfg sel a = vq cfg sel b := by
  funext t
  unfold vq
  rw [C03.expired_congr cfg a b h]

/-! ### `rel_collect` -/

theorem view_collect (cfg : Cfg) (sel : Nat → Bool) (st : St) : view cfg sel (collect cfg st) = view cfg sel st := by
  show (st.live.filter (fun t => !expired cfg st t)).filter (fun t => sel t.scene && !expired cfg st t) =
    st.live.filter (fun t => sel t.scene && !expired cfg st t)
  rw [filter_filter]
  apply filter_congr
  intro t _
  cases sel t.scene <;> cases expired cfg st t <;> rfl

theorem rel_collectA (cA cB : Cfg) (ρ : Nat → Nat) (sel : Nat → Bool) (a b : St) (h : Rel cA cB ρ sel a b) :
    Rel cA cB ρ sel (collect cA a) b where
  epochs := h.epochs
  tracks := by rw [view_collect]; exact h.tracks
  nodupA := (h.nodupA).sublist ((filter_sublist (l := a.live)).map _)
  nodupB := h.nodupB
  inj := fun x hx y hy => h.inj x (mem_filter.mp hx).1 y (mem_filter.mp hy).1

theorem rel_collectB (cA cB : Cfg) (ρ : Nat → Nat) (sel : Nat → Bool) (a b : St) (h : Rel cA cB ρ sel a b) :
    Rel cA cB ρ sel a (collect cB b) where
  epochs := h.epochs
  tracks := by rw [view_collect]; exact h.tracks
  nodupA := h.nodupA
  nodupB := (h.nodupB).sublist ((filter_sublist (l := b.live)).map _)
  inj := h.inj


/-! ### `applyPicks` under renaming -/

theorem updTrk_ren (cA cB : Cfg) (hv : cA.visual = cB.visual) (ho : cA.maxObs = cB.maxObs) (hh : cA.histLen = cB.histLen)
    (ρ : Nat → Nat) (e : Nat) (d : Det) (vis : Bool) (t : Trk) :
    C03.updTrk cB e d vis (renTrk ρ t) = renTrk ρ (C03.updTrk cA e d vis t) := by
  cases cA; cases cB
  dsimp only at hv ho hh
  subst hv ho hh
  rfl

theorem newTrk_ren (cA cB : Cfg) (hv : cA.visual = cB.visual)
    (ρ : Nat → Nat) (scene e : Nat) (d : Det) (id : Nat) :
    C03.newTrk cB scene e d (ρ id) = renTrk ρ (C03.newTrk cA scene e d id) := by
  cases cA; cases cB
  dsimp only at hv
  subst hv
  rfl

theorem freshIds_ren (ρ : Nat → Nat) (picks : List Pick) : freshIds (picks.map (renPick ρ)) = (freshIds picks).map ρ := by
  induction picks with
  | nil => rfl
  | cons p ps ih =>
    cases p with
    | cont tid vis => exact ih
    | fresh id =>
      show ρ id :: freshIds (ps.map (renPick ρ)) = ρ id :: (freshIds ps).map ρ
      rw [ih]

theorem conts_ren (ρ : Nat → Nat) (picks : List Pick) :
    (picks.map (renPick ρ)).map contOf = (picks.map contOf).map (Option.map ρ) := by
  rw [map_map, map_map]
  apply map_congr_left
  intro p _
  cases p <;> rfl

/-- a `Q`-track found in A is found, renamed, in B -/
theorem find_ren (ρ : Nat → Nat) (Q : Trk → Bool) (a b : St)
    (hrel : b.live.filter Q = (a.live.filter Q).map (renTrk ρ)) (hnb : (b.live.map (·.id)).Nodup)
    (tid : Nat) (t : Trk) (hf : findLive a tid = some t) (hq : Q t = true) :
    findLive b (ρ tid) = some (renTrk ρ t) := by
  have hm : renTrk ρ t ∈ b.live.filter Q := by
    rw [hrel]
    exact mem_map_of_mem (mem_filter.mpr ⟨findLive_mem _ _ _ hf, hq⟩)
  have := C03.find_of_mem_nodup b.live hnb (renTrk ρ t) (mem_filter.mp hm).1
  rw [renTrk_id, findLive_id _ _ _ hf] at this
  exact this

theorem findLive_replace (st st1 : St) (tid : Nat) (t' : Trk) (hid : t'.id = tid)
    (hl : st1.live = st.live.map (fun x => if (x.id == tid) = true then t' else x)) (tid2 : Nat) :
    findLive st1 tid2 = (findLive st tid2).map (fun x => if (x.id == tid) = true then t' else x) := by
  unfold findLive
  rw [hl]
  exact C03.find_map_replace tid t' hid tid2 st.live

/-- **`applyPicks` commutes with the renaming**: `B` holds the renamed `Q`-tracks of `A`; every continued track
is a `Q`-track of the scene; the tracks of the scene updated at `e` are `Q`-tracks -/
theorem applyPicks_ren (cA cB : Cfg) (hv : cA.visual = cB.visual) (ho : cA.maxObs = cB.maxObs)
    (hh : cA.histLen = cB.histLen) (ρ : Nat → Nat) (scene e : Nat) (Q : Trk → Bool)
    (hQr : ∀ t, Q (renTrk ρ t) = Q t) (hQn : ∀ t : Trk, t.scene = scene → t.lastUpd = e → Q t = true)
    (dets : List Det) (picks : List Pick) (a b a' : St) (recs : List Rec)
    (hrel : b.live.filter Q = (a.live.filter Q).map (renTrk ρ))
    (hna : (a.live.map (·.id) ++ freshIds picks).Nodup)
    (hnb : (b.live.map (·.id) ++ (freshIds picks).map ρ).Nodup)
    (hinj : ∀ x ∈ a.live.map (·.id) ++ freshIds picks, ∀ y ∈ a.live.map (·.id) ++ freshIds picks, ρ x = ρ y → x = y)
    (hc : ∀ tid vis, Pick.cont tid vis ∈ picks → ∃ t, findLive a tid = some t ∧ t.scene = scene ∧ Q t = true)
    (ha : applyPicks cA scene e dets picks a = some (a', recs)) :
    ∃ b', applyPicks cB scene e dets (picks.map (renPick ρ)) b = some (b', recs.map (renRec ρ)) ∧
      b'.live.filter Q = (a'.live.filter Q).map (renTrk ρ) := by
  induction dets generalizing picks a b recs with
  | nil =>
    cases picks with
    | nil =>
      simp only [applyPicks, Option.some.injEq, Prod.mk.injEq] at ha
      obtain ⟨h1, h2⟩ := ha
      subst h1; subst h2
      exact ⟨b, rfl, hrel⟩
    | cons p ps => simp [applyPicks] at ha
  | cons d ds ih =>
    cases picks with
    | nil => simp [applyPicks] at ha
    | cons p ps =>
      obtain ⟨a1, r, rs, h1, h2, hr⟩ := C06.applyPicks_cons cA scene e d ds p ps a a' recs ha
      subst hr
      have hnal : (a.live.map (·.id)).Nodup := hna.of_append_left
      have hnbl : (b.live.map (·.id)).Nodup := hnb.of_append_left
      cases p with
      | cont tid vis =>
        obtain ⟨t, hf, hs, hqt⟩ := hc tid vis mem_cons_self
        have htid : t.id = tid := findLive_id _ _ _ hf
        have htm : t ∈ a.live := findLive_mem _ _ _ hf
        rw [C06.applyPick_cont_eq cA scene e a d tid vis t hf] at h1
        simp only [Option.some.injEq, Prod.mk.injEq] at h1
        obtain ⟨e1, e2⟩ := h1
        have hfb : findLive b (ρ tid) = some (renTrk ρ t) := find_ren ρ Q a b hrel hnbl tid t hf hqt
        have hqt' : Q (C03.updTrk cA e d vis t) = true := hQn _ hs rfl
        have hqtb' : Q (C03.updTrk cB e d vis (renTrk ρ t)) = true := hQn _ hs rfl
        have hidt' : (C03.updTrk cA e d vis t).id = tid := htid
        have hidtb' : (C03.updTrk cB e d vis (renTrk ρ t)).id = ρ tid := by
          show ρ t.id = ρ tid
          rw [htid]
        have hl1 : a1.live = a.live.map (fun x => if (x.id == tid) = true then C03.updTrk cA e d vis t else x) := by
          rw [← e1]
        -- the state of B after the pick
        let b1 : St := { b with nextId := b.nextId + (if cB.batchIds then 1 else 0),
                                live := b.live.map (fun x => if (x.id == ρ tid) = true then C03.updTrk cB e d vis (renTrk ρ t) else x) }
        have hb1 : applyPick cB scene e b d (.cont (ρ tid) vis) = some (b1,
            { id := ρ tid, epoch := e, scene := t.scene, len := t.len + 1, custom := d.custom, tok := d.tok, visual := vis }) :=
          C06.applyPick_cont_eq cB scene e b d (ρ tid) vis (renTrk ρ t) hfb
        have hrel1 : b1.live.filter Q = (a1.live.filter Q).map (renTrk ρ) := by
          show (b.live.map _).filter Q = _
          rw [hl1]
          rw [C03.filter_map_same Q _ a.live, C03.filter_map_same Q _ b.live, hrel, map_map, map_map]
          · apply map_congr_left
            intro x hx
            have hxm : x ∈ a.live := (mem_filter.mp hx).1
            simp only [Function.comp]
            by_cases hxi : x.id = tid
            · have k1 : ((renTrk ρ x).id == ρ tid) = true := by rw [renTrk_id, hxi]; exact beq_self_eq_true _
              have k2 : (x.id == tid) = true := by rw [hxi]; exact beq_self_eq_true _
              rw [if_pos k1, if_pos k2]
              exact updTrk_ren cA cB hv ho hh ρ e d vis t
            · have hne : ρ x.id ≠ ρ tid := fun e' => hxi (hinj _ (mem_append_left _ (mem_map_of_mem hxm)) _
                (by rw [← htid]; exact mem_append_left _ (mem_map_of_mem htm)) e')
              have k1 : ¬ (((renTrk ρ x).id == ρ tid) = true) := by rw [renTrk_id]; simpa using hne
              have k2 : ¬ ((x.id == tid) = true) := by simpa using hxi
              rw [if_neg k1, if_neg k2]
          · intro x hx
            split
            · rename_i hxi
              simp only [beq_iff_eq] at hxi
              have : x = renTrk ρ t := C06.find_id_unique b.live hnbl (ρ tid) x _ hx hxi hfb
              rw [this, hqtb', hQr, hqt]
            · rfl
          · intro x hx
            split
            · rename_i hxi
              simp only [beq_iff_eq] at hxi
              have : x = t := C06.find_id_unique a.live hnal tid x _ hx hxi hf
              rw [this, hqt', hqt]
            · rfl
        have hna1 : (a1.live.map (·.id) ++ freshIds ps).Nodup := by
          rw [hl1, map_replace_ids tid _ hidt']; exact hna
        have hnb1 : (b1.live.map (·.id) ++ (freshIds ps).map ρ).Nodup := by
          show ((b.live.map _).map (fun t : Trk => t.id) ++ _).Nodup
          rw [map_replace_ids (ρ tid) _ hidtb']; exact hnb
        have hinj1 : ∀ x ∈ a1.live.map (·.id) ++ freshIds ps, ∀ y ∈ a1.live.map (·.id) ++ freshIds ps, ρ x = ρ y → x = y := by
          rw [hl1, map_replace_ids tid _ hidt']; exact hinj
        have hc1 : ∀ tid2 vis2, Pick.cont tid2 vis2 ∈ ps →
            ∃ t2, findLive a1 tid2 = some t2 ∧ t2.scene = scene ∧ Q t2 = true := by
          intro tid2 vis2 hp2
          obtain ⟨t2, hf2, hs2, hq2⟩ := hc tid2 vis2 (mem_cons_of_mem _ hp2)
          rw [findLive_replace a a1 tid _ hidt' hl1 tid2, hf2]
          refine ⟨(if (t2.id == tid) = true then C03.updTrk cA e d vis t else t2), rfl, ?_, ?_⟩
          · split
            · exact hs
            · exact hs2
          · split
            · exact hqt'
            · exact hq2
        obtain ⟨b2, hb2, hrel2⟩ := ih ps a1 b1 rs hrel1 hna1 hnb1 hinj1 hc1 h2
        refine ⟨b2, ?_, hrel2⟩
        rw [← e2]
        exact C06.applyPicks_cons_eq cB scene e d ds _ _ b b1 b2 _ _ hb1 hb2
      | fresh id =>
        rw [C06.applyPick_fresh_eq cA scene e a d id] at h1
        simp only [Option.some.injEq, Prod.mk.injEq] at h1
        obtain ⟨e1, e2⟩ := h1
        have hl1 : a1.live = a.live ++ [C03.newTrk cA scene e d id] := by rw [← e1]
        let b1 : St := { b with nextId := b.nextId + 1, live := b.live ++ [C03.newTrk cB scene e d (ρ id)] }
        have hb1 : applyPick cB scene e b d (.fresh (ρ id)) = some (b1,
            { id := ρ id, epoch := e, scene := scene, len := 1, custom := d.custom, tok := d.tok, visual := false }) :=
          C06.applyPick_fresh_eq cB scene e b d (ρ id)
        have hqa : Q (C03.newTrk cA scene e d id) = true := hQn _ rfl rfl
        have hqb : Q (C03.newTrk cB scene e d (ρ id)) = true := hQn _ rfl rfl
        have hrel1 : b1.live.filter Q = (a1.live.filter Q).map (renTrk ρ) := by
          show (b.live ++ [_]).filter Q = _
          rw [hl1, filter_append, filter_append, map_append, hrel]
          congr 1
          rw [filter_cons, filter_cons, hqa, hqb]
          simp only [if_true, filter_nil, map_cons, map_nil]
          rw [newTrk_ren cA cB hv ρ scene e d id]
        have hfr : freshIds (Pick.fresh id :: ps) = id :: freshIds ps := rfl
        have hna1 : (a1.live.map (·.id) ++ freshIds ps).Nodup := by
          rw [hl1, map_append, append_assoc]; exact hna
        have hnb1 : (b1.live.map (·.id) ++ (freshIds ps).map ρ).Nodup := by
          show ((b.live ++ [_]).map (fun t : Trk => t.id) ++ _).Nodup
          rw [map_append, append_assoc]; exact hnb
        have hinj1 : ∀ x ∈ a1.live.map (·.id) ++ freshIds ps, ∀ y ∈ a1.live.map (·.id) ++ freshIds ps, ρ x = ρ y → x = y := by
          rw [hl1, map_append, append_assoc]; exact hinj
        have hc1 : ∀ tid2 vis2, Pick.cont tid2 vis2 ∈ ps →
            ∃ t2, findLive a1 tid2 = some t2 ∧ t2.scene = scene ∧ Q t2 = true := by
          intro tid2 vis2 hp2
          obtain ⟨t2, hf2, hs2, hq2⟩ := hc tid2 vis2 (mem_cons_of_mem _ hp2)
          refine ⟨t2, ?_, hs2, hq2⟩
          unfold findLive at hf2 ⊢
          rw [hl1, find?_append, hf2]
          rfl
        obtain ⟨b2, hb2, hrel2⟩ := ih ps a1 b1 rs hrel1 hna1 hnb1 hinj1 hc1 h2
        refine ⟨b2, ?_, hrel2⟩
        rw [← e2]
        exact C06.applyPicks_cons_eq cB scene e d ds _ _ b b1 b2 _ _ hb1 hb2


/-! ### `validChoice` under renaming -/

/-- the assignment entries `validChoice` builds from the table -/
def esOf (table : List Entry) : List AssignX.Entry := table.map (fun x => { q := x.det + 1, t := x.tid, w := x.w })

theorem validChoice_iff (cfg : Cfg) (st : St) (scene e n : Nat) (table : List Entry) (picks : List Pick) :
    validChoice cfg st scene e n table picks = true ↔
    picks.length = n ∧ (∀ x ∈ table, entryOk cfg st scene e x = true) ∧
    (((List.range n).zip (picks.map contOf)).all (fun (i, c) => match c with
      | some tid => table.any (fun x => x.det == i && x.tid == tid && decide (cfg.thr ≤ x.w))
      | none => true) = true) ∧
    ((picks.map contOf).filterMap id).Nodup ∧
    AssignX.objective (esOf table) cfg.thr (AssignX.queries (esOf table))
      ((AssignX.queries (esOf table)).map (fun q => (picks.map contOf).getD (q - 1) none)) =
      AssignX.bestOf (esOf table) cfg.thr := by
  unfold validChoice esOf
  simp only [Bool.and_eq_true, beq_iff_eq, all_eq_true, nodupB_iff, and_assoc]
  exact Iff.rfl

theorem esOf_ren (ρ : Nat → Nat) (table : List Entry) :
    esOf (table.map (renEntry ρ)) = (esOf table).map (RenA.renE ρ) := by
  unfold esOf
  rw [map_map, map_map]
  rfl

theorem conts_filterMap_ren (ρ : Nat → Nat) (picks : List Pick) :
    ((picks.map (renPick ρ)).map contOf).filterMap id = ((picks.map contOf).filterMap id).map ρ := by
  induction picks with
  | nil => rfl
  | cons p ps ih =>
    cases p with
    | cont tid vis =>
      show ρ tid :: ((ps.map (renPick ρ)).map contOf).filterMap id = ρ tid :: ((ps.map contOf).filterMap id).map ρ
      rw [ih]
    | fresh id => exact ih

/-- **a valid choice stays valid under the renaming** -/
theorem validChoice_ren (cA cB : Cfg) (ht : cA.thr = cB.thr) (ρ : Nat → Nat) (a b : St) (scene e n : Nat)
    (table : List Entry) (picks : List Pick)
    (hentry : ∀ x ∈ table, entryOk cA a scene e x = true → entryOk cB b scene e (renEntry ρ x) = true)
    (hinj : ∀ x ∈ a.live.map (·.id), ∀ y ∈ a.live.map (·.id), ρ x = ρ y → x = y)
    (hv : validChoice cA a scene e n table picks = true) :
    validChoice cB b scene e n (table.map (renEntry ρ)) (picks.map (renPick ρ)) = true := by
  obtain ⟨_, hc2⟩ := C01.valid_conts cA a scene e n table picks hv
  rw [validChoice_iff] at hv ⊢
  obtain ⟨v1, v2, v3, v4, v5⟩ := hv
  -- every track of the table is live in A
  have htl : ∀ x ∈ table, x.tid ∈ a.live.map (·.id) := by
    intro x hx
    have := v2 x hx
    unfold entryOk at this
    cases hf : findLive a x.tid with
    | none => simp [hf] at this
    | some t =>
      rw [← findLive_id _ _ _ hf]
      exact mem_map_of_mem (findLive_mem _ _ _ hf)
  have hcl : ∀ tid ∈ (picks.map contOf).filterMap id, tid ∈ a.live.map (·.id) := by
    intro tid htid
    obtain ⟨t, hf, _, _⟩ := hc2 tid htid
    rw [← findLive_id _ _ _ hf]
    exact mem_map_of_mem (findLive_mem _ _ _ hf)
  have hes : ∀ x ∈ esOf table, ∀ y ∈ esOf table, ρ x.t = ρ y.t → x.t = y.t := by
    intro x hx y hy
    unfold esOf at hx hy
    obtain ⟨x0, hx0, rfl⟩ := mem_map.mp hx
    obtain ⟨y0, hy0, rfl⟩ := mem_map.mp hy
    exact hinj _ (htl x0 hx0) _ (htl y0 hy0)
  refine ⟨by rw [length_map]; exact v1, ?_, ?_, ?_, ?_⟩
  · intro x hx
    obtain ⟨x0, hx0, rfl⟩ := mem_map.mp hx
    exact hentry x0 hx0 (v2 x0 hx0)
  · rw [conts_ren, zip_map_right, all_map]
    rw [all_eq_true] at v3 ⊢
    intro ic hic
    have := v3 ic hic
    obtain ⟨i, c⟩ := ic
    cases c with
    | none => rfl
    | some tid =>
      simp only [Function.comp, Prod.map, id_eq, Option.map_some, any_eq_true, any_map] at this ⊢
      obtain ⟨x, hx, hxx⟩ := this
      refine ⟨x, hx, ?_⟩
      simp only [Bool.and_eq_true, beq_iff_eq, decide_eq_true_eq] at hxx ⊢
      obtain ⟨⟨h1, h2⟩, h3⟩ := hxx
      exact ⟨⟨h1, by show ρ x.tid = ρ tid; rw [h2]⟩, by rw [← ht]; exact h3⟩
  · rw [conts_filterMap_ren]
    exact Nodup.map_on (fun x hx y hy => hinj x (hcl x hx) y (hcl y hy)) v4
  · rw [esOf_ren, RenA.queries_ren, RenA.bestOf_ren ρ _ _ hes, ← ht, ← v5, conts_ren]
    have hasg : (AssignX.queries (esOf table)).map (fun q => ((picks.map contOf).map (Option.map ρ)).getD (q - 1) none) =
        ((AssignX.queries (esOf table)).map (fun q => (picks.map contOf).getD (q - 1) none)).map (Option.map ρ) := by
      have hfun : ∀ q, ((picks.map contOf).map (Option.map ρ)).getD (q - 1) none =
          Option.map ρ ((picks.map contOf).getD (q - 1) none) := fun q => List.getD_map _ none (Option.map ρ)
      simp only [hfun]
      rw [map_map]
      rfl
    rw [hasg]
    apply RenA.objective_ren
    intro t htm x hx
    obtain ⟨q, _, hq⟩ := mem_map.mp htm
    have htc : t ∈ (picks.map contOf).filterMap id := by
      rw [mem_filterMap]
      refine ⟨some t, ?_, rfl⟩
      rw [List.getD_eq_getElem?_getD] at hq
      cases hg : (picks.map contOf)[q - 1]? with
      | none => rw [hg] at hq; cases hq
      | some o =>
        rw [hg] at hq
        simp only [Option.getD_some] at hq
        rw [← hq]
        exact mem_of_getElem? hg
    unfold esOf at hx
    obtain ⟨x0, hx0, rfl⟩ := mem_map.mp hx
    exact hinj _ (htl x0 hx0) _ (hcl t htc)

/-- **One scene job under renaming.** -/
theorem scene_job_rename (cA cB : Cfg) (hc : SameButIds cA cB) (ρ : Nat → Nat) (sel : Nat → Bool)
    (a b : St) (h : Rel cA cB ρ sel a b) (scene : Nat) (hs : sel scene = true)
    (dets : List Det) (table : List Entry) (picks : List Pick) (lo hi lo' hi' : Nat)
    (a' : St) (recs : List Rec)
    (hA : predictScene cA a scene dets table picks lo hi = some (a', recs))
    (hndA' : (a'.live.map (·.id)).Nodup)     -- (reachable states: `C01_distinct_fresh` / `C01_distinct_batch`)
    -- the renamed fresh ids are acceptable to B's id discipline, and `ρ` keeps them apart from A's ids
    (hfB : freshIdsOk cB (setEpoch b scene (epochOf b scene + 1)) lo' hi' (picks.map (renPick ρ)) = true)
    (hinj : ∀ x ∈ a.live.map (·.id) ++ freshIds picks, ∀ y ∈ a.live.map (·.id) ++ freshIds picks, ρ x = ρ y → x = y)
    (hnew : ∀ id ∈ freshIds picks, ∀ t ∈ b.live, t.id ≠ ρ id) :
    ∃ b', predictScene cB b scene dets (table.map (renEntry ρ)) (picks.map (renPick ρ)) lo' hi' =
        some (b', recs.map (renRec ρ)) ∧ Rel cA cB ρ sel a' b' := by
  obtain ⟨hm, hh, ht, hv, ho, _⟩ := hc
  obtain ⟨hvA, _, hapA⟩ := C01.predictScene_parts cA a a' scene dets table picks lo hi recs hA
  have hidsA : a'.live.map (·.id) = a.live.map (·.id) ++ freshIds picks :=
    (C06.scene_fields cA scene a a' dets table picks lo hi recs hA).2.2.2.2.2.2
  obtain ⟨e, he⟩ : ∃ e, e = epochOf a scene + 1 := ⟨_, rfl⟩
  have heb : epochOf b scene + 1 = e := by rw [he, h.epochs scene hs]
  rw [← he] at hvA hapA
  rw [heb] at hfB
  -- the states after the epoch advance agree on the epochs of the selected scenes
  have hep2 : ∀ s, sel s = true → epochOf (setEpoch a scene e) s = epochOf (setEpoch b scene e) s := by
    intro s hsel
    rw [epochOf_setEpoch, epochOf_setEpoch, h.epochs s hsel]
  have hQB : vq cB sel (setEpoch b scene e) = vq cA sel (setEpoch a scene e) := vq_congr cA cB hm sel _ _ hep2
  have hQ0 : vq cB sel b = vq cA sel a := vq_congr cA cB hm sel a b h.epochs
  generalize hQdef : vq cA sel (setEpoch a scene e) = Q at hQB
  have hQval : ∀ t : Trk, Q t = (sel t.scene && !decide (t.lastUpd + cA.maxIdle < if t.scene = scene then e else epochOf a t.scene)) := by
    intro t
    rw [← hQdef]
    unfold vq expired
    rw [epochOf_setEpoch]
  have hQr : ∀ t, Q (renTrk ρ t) = Q t := fun t => by rw [hQval, hQval]; rfl
  have hQn : ∀ t : Trk, t.scene = scene → t.lastUpd = e → Q t = true := by
    intro t h1 h2
    rw [hQval, h1, hs, if_pos rfl, h2]
    simp
  have hQold : ∀ t : Trk, t.scene = scene → e - t.lastUpd ≤ cA.maxIdle → Q t = true := by
    intro t h1 h2
    rw [hQval, h1, hs, if_pos rfl]
    simp only [Bool.true_and, Bool.not_eq_true', decide_eq_false_iff_not]
    omega
  have hQimp : ∀ t : Trk, Q t = true → vq cA sel a t = true := by
    intro t hq
    rw [hQval] at hq
    unfold vq expired
    simp only [Bool.and_eq_true, Bool.not_eq_true', decide_eq_false_iff_not] at hq ⊢
    refine ⟨hq.1, ?_⟩
    have h2 := hq.2
    split at h2
    · rename_i hts
      rw [hts]
      omega
    · exact h2
  -- B holds the renamed `Q`-tracks of A
  have hrel0 : b.live.filter Q = (a.live.filter Q).map (renTrk ρ) := by
    have ht0 : b.live.filter (vq cA sel a) = (a.live.filter (vq cA sel a)).map (renTrk ρ) := by
      have := h.tracks
      rw [view_eq, view_eq, hQ0] at this
      exact this
    rw [C03.filter_of_imp (vq cA sel a) Q b.live hQimp, ht0, filter_map, C03.filter_of_imp (vq cA sel a) Q a.live hQimp]
    congr 1
    apply filter_congr
    intro t _
    exact hQr t
  have hnaF : (a.live.map (·.id) ++ freshIds picks).Nodup := by rw [← hidsA]; exact hndA'
  have hnbF : (b.live.map (·.id) ++ (freshIds picks).map ρ).Nodup := by
    rw [nodup_append]
    refine ⟨h.nodupB, ?_, ?_⟩
    · apply Nodup.map_on _ hnaF.of_append_right
      intro x hx y hy
      exact hinj x (mem_append_right _ hx) y (mem_append_right _ hy)
    · intro x hx y hy hxy
      obtain ⟨t, htm, rfl⟩ := mem_map.mp hx
      obtain ⟨id, hid, rfl⟩ := mem_map.mp hy
      exact hnew id hid t htm hxy
  obtain ⟨_, hc2⟩ := C01.valid_conts cA _ scene _ _ table picks hvA
  have hcQ : ∀ tid vis, Pick.cont tid vis ∈ picks →
      ∃ t, findLive (setEpoch a scene e) tid = some t ∧ t.scene = scene ∧ Q t = true := by
    intro tid vis hp
    have hmem : tid ∈ (picks.map contOf).filterMap id := by
      simp only [List.mem_filterMap, List.mem_map, id_eq, exists_eq_right]
      exact ⟨_, hp, rfl⟩
    obtain ⟨t, htf, hts, hte⟩ := hc2 tid hmem
    exact ⟨t, htf, hts, hQold t hts hte⟩
  -- validity of the renamed choice for B
  have hentry : ∀ x ∈ table, entryOk cA (setEpoch a scene e) scene e x = true →
      entryOk cB (setEpoch b scene e) scene e (renEntry ρ x) = true := by
    intro x _ hx
    unfold entryOk at hx ⊢
    cases hf : findLive (setEpoch a scene e) x.tid with
    | none => simp [hf] at hx
    | some t =>
      simp only [hf, Bool.and_eq_true, beq_iff_eq, decide_eq_true_eq] at hx
      have hfb : findLive (setEpoch b scene e) (ρ x.tid) = some (renTrk ρ t) :=
        find_ren ρ Q (setEpoch a scene e) (setEpoch b scene e) hrel0 h.nodupB x.tid t hf (hQold t hx.1 hx.2)
      show (match findLive (setEpoch b scene e) (ρ x.tid) with
        | some t => t.scene == scene && decide (e - t.lastUpd ≤ cB.maxIdle) | none => false) = true
      rw [hfb]
      simp only [renTrk_scene, renTrk_lastUpd, Bool.and_eq_true, beq_iff_eq]
      exact ⟨hx.1, by rw [← hm]; exact decide_eq_true hx.2⟩
  have hvB : validChoice cB (setEpoch b scene e) scene e dets.length (table.map (renEntry ρ)) (picks.map (renPick ρ)) = true :=
    validChoice_ren cA cB ht ρ (setEpoch a scene e) (setEpoch b scene e) scene e dets.length table picks hentry
      (fun x hx y hy => hinj x (mem_append_left _ hx) y (mem_append_left _ hy)) hvA
  -- the picks
  obtain ⟨b', hb', hrel'⟩ := applyPicks_ren cA cB hv ho hh ρ scene e Q hQr hQn dets picks
    (setEpoch a scene e) (setEpoch b scene e) a' recs hrel0 hnaF hnbF hinj hcQ hapA
  have hepA : a'.epochs = (setEpoch a scene e).epochs :=
    (applyPicks_spec cA scene e dets picks _ a' recs hapA).2.2.2.2.2.2.1
  obtain ⟨_, _, _, _, _, _, hepB, _, _, _, _, hidsB⟩ :=
    applyPicks_spec cB scene e dets (picks.map (renPick ρ)) _ b' (recs.map (renRec ρ)) hb'
  refine ⟨b', ?_, ?_, ?_, hndA', ?_, ?_⟩
  · unfold predictScene
    simp only
    rw [heb, hvB, hfB]
    exact hb'
  · intro s hsel
    rw [C03.epochOf_congr a' _ hepA, C03.epochOf_congr b' _ hepB]
    exact hep2 s hsel
  · rw [view_eq, view_eq, vq_epochs cB sel b' _ hepB, vq_epochs cA sel a' _ hepA, hQB, hQdef]
    exact hrel'
  · have : b'.live.map (·.id) = b.live.map (·.id) ++ freshIds (picks.map (renPick ρ)) := hidsB
    rw [this, freshIds_ren]
    exact hnbF
  · intro x hx y hy
    apply hinj
    · rw [← hidsA]; exact mem_map_of_mem hx
    · rw [← hidsA]; exact mem_map_of_mem hy

/-- a job of a scene that is NOT selected leaves the relation alone (B does nothing) -/
theorem other_scene_job (cA cB : Cfg) (ρ : Nat → Nat) (sel : Nat → Bool)
    (a b : St) (h : Rel cA cB ρ sel a b) (scene : Nat) (hs : sel scene = false)
    (dets : List Det) (table : List Entry) (picks : List Pick) (lo hi : Nat)
    (a' : St) (recs : List Rec)
    (hA : predictScene cA a scene dets table picks lo hi = some (a', recs))
    (hndA' : (a'.live.map (·.id)).Nodup)
    (hinj : ∀ x ∈ a.live.map (·.id) ++ freshIds picks, ∀ y ∈ a.live.map (·.id) ++ freshIds picks, ρ x = ρ y → x = y) :
    Rel cA cB ρ sel a' b := by
  have hep : ∀ s, sel s = true → epochOf a' s = epochOf a s := by
    intro s hsel
    rw [C06.scene_epoch cA scene a a' dets table picks lo hi recs hA s, if_neg]
    intro e; rw [e, hs] at hsel; cases hsel
  have hq : vq cA sel a' = vq cA sel a := vq_congr cA cA rfl sel a a' (fun s hsel => (hep s hsel).symm)
  have hids := (C06.scene_fields cA scene a a' dets table picks lo hi recs hA).2.2.2.2.2.2
  refine ⟨fun s hsel => (hep s hsel).trans (h.epochs s hsel), ?_, hndA', h.nodupB, ?_⟩
  · rw [h.tracks, view_eq, view_eq, hq]
    congr 1
    symm
    apply C06.scene_frame cA scene (vq cA sel a) _ a a' h.nodupA dets table picks lo hi recs hA
    intro t ht
    unfold vq
    rw [ht, hs]
    rfl
  · intro x hx y hy
    apply hinj
    · rw [← freshIds_eq, ← hids]; exact mem_map_of_mem hx
    · rw [← freshIds_eq, ← hids]; exact mem_map_of_mem hy

/-- collecting expired tracks on either side does not disturb the relation -/
theorem rel_collect (cA cB : Cfg) (ρ : Nat → Nat) (sel : Nat → Bool) (a b : St) (h : Rel cA cB ρ sel a b) :
    Rel cA cB ρ sel (collect cA a) b ∧ Rel cA cB ρ sel a (collect cB b) ∧
    Rel cA cB ρ sel (awStep cA a) b ∧ Rel cA cB ρ sel a (awStep cB b) := by
  have hA := rel_collectA cA cB ρ sel a b h
  have hB := rel_collectB cA cB ρ sel a b h
  refine ⟨hA, hB, ?_, ?_⟩
  · unfold awStep
    split
    · exact ⟨hA.epochs, hA.tracks, hA.nodupA, hA.nodupB, hA.inj⟩
    · exact ⟨h.epochs, h.tracks, h.nodupA, h.nodupB, h.inj⟩
  · unfold awStep
    split
    · exact ⟨hB.epochs, hB.tracks, hB.nodupA, hB.nodupB, hB.inj⟩
    · exact ⟨h.epochs, h.tracks, h.nodupA, h.nodupB, h.inj⟩

end SimVerif.Ren
