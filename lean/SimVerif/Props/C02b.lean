import SimVerif.Props.C02
import SimVerif.Lemmas.AssignCert
/-!
# C02, part B — the optimum the tracker model demands is the true optimum, for tables of every size

`validChoice` compares the objective of the observed association with `AssignX.bestOf`: the exhaustive
enumeration `best` on small tables, and beyond a solver result that is accepted only with a checked dual
certificate. `bestOf_eq_best` (weak duality, `Lemmas/AssignCert.lean`) shows the two coincide for every
table, so the tracker-level statement holds at full strength: a valid association is at least as heavy as
**every** one-to-one partial assignment of the call's detections to the tracks of its distance table,
unmatched detections counting the threshold.
-/
namespace SimVerif.C02
open SimVerif.AssignX SimVerif.Tracker

/-- the optimum used by the model is the maximum over the complete enumeration, whatever the table size -/
theorem C02_bestOf_is_best (s : List AssignX.Entry) (thr : Int) : bestOf s thr = best s thr :=
  AssignCert.bestOf_eq_best s thr

/-- **maximum weight, all sizes**: the association of a valid choice is at least as heavy as every one-to-one
partial assignment `a` over the table's tracks -/
theorem C02_tracker_optimal (cfg : Cfg) (st : St) (scene e n : Nat) (table : List Tracker.Entry) (picks : List Pick)
    (h : validChoice cfg st scene e n table picks = true) :
    let es : List AssignX.Entry := table.map (fun x => { q := x.det + 1, t := x.tid, w := x.w })
    ∀ a : List (Option Nat), a.length = (queries es).length → (∀ x ∈ a.filterMap id, x ∈ tracks es) →
      (a.filterMap id).Nodup →
      objective es cfg.thr (queries es) a ≤
        objective es cfg.thr (queries es) ((queries es).map (fun q => (picks.map contOf).getD (q - 1) none)) := by
  intro es a hlen hin hnd
  have hopt := (C02_tracker cfg st scene e n table picks h).2.2
  simp only at hopt
  rw [hopt, C02_bestOf_is_best]
  exact C02_best_max es cfg.thr a hlen hin hnd (Voting.firsts_nodup _)

/-- non-vacuity: a 6 × 6 table (beyond the enumeration limit of the executable model) whose certified optimum
is computed by the solver and accepted by the checker -/
example : small ((List.range 6).flatMap (fun q => (List.range 6).map (fun t =>
    ({ q := q + 1, t := 100 + t, w := (((q * 7 + t * 13) % 17 : Nat) : Int) * 50000 } : AssignX.Entry)))) = false := by
  decide +kernel

end SimVerif.C02
