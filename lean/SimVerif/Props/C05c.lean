import SimVerif.Props.C05
import SimVerif.Props.C05b
import SimVerif.Lemmas.AssignCert
/-!
# C05, part C — validity of an association does not depend on the order of the distance table

A different shard count or worker schedule can only permute the distance table the voting sees
(`C05_query_perm`). `C05_validChoice_perm`: for a table with distinct (detection, track) pairs the *whole*
validity predicate of the tracker model — admissibility, gating, one-to-one-ness and maximality of the total
weight — gives the same verdict on every permutation of the table. Hence the set of outcomes of a `predict`
call is the same for every shard count and schedule; with a unique optimum the records coincide.
This closes the item left open in `C05_valid_perm_partial` (it needed `bestOf = best` for tables of every
size, `AssignCert.bestOf_eq_best`).
-/
namespace SimVerif.C05
open SimVerif.Tracker SimVerif.AssignX List

def toAE (x : Tracker.Entry) : AssignX.Entry := { q := x.det + 1, t := x.tid, w := x.w }

/-- the objective of the assignment read off a fixed function of the query is a sum over the queries,
hence invariant under a permutation of the table (distinct pairs) -/
theorem objective_fn_perm (s₁ s₂ : List AssignX.Entry) (h : s₁ ~ s₂) (hnd : PairsNodup s₁) (thr : Int)
    (f : Nat → Option Nat) :
    objective s₁ thr (queries s₁) ((queries s₁).map f) = objective s₂ thr (queries s₂) ((queries s₂).map f) := by
  rw [C05L.objective_eq_sum, C05L.objective_eq_sum]
  have hz : ∀ qs : List Nat, (qs.zip (qs.map f)) = qs.map (fun q => (q, f q)) := by
    intro qs; induction qs with
    | nil => rfl
    | cons q qs ih => simp [ih]
  rw [hz, hz, map_map, map_map]
  have hterm : (C05L.term s₁ thr ∘ fun q => (q, f q)) = (C05L.term s₂ thr ∘ fun q => (q, f q)) := by
    funext q
    simp only [Function.comp, C05L.term]
    cases f q with
    | none => rfl
    | some t => exact weightOf_perm s₁ s₂ h hnd q t
  rw [hterm]
  exact ((queries_perm s₁ s₂ h).map _).sum_eq

/-- the optimum the model uses is invariant under permutation of the table -/
theorem C05_bestOf_perm (s₁ s₂ : List AssignX.Entry) (h : s₁ ~ s₂) (hnd : PairsNodup s₁) (thr : Int) :
    bestOf s₁ thr = bestOf s₂ thr := by
  rw [AssignCert.bestOf_eq_best, AssignCert.bestOf_eq_best]
  exact C05_best_perm s₁ s₂ h hnd thr

/-- **the whole validity predicate reads the distance table as a multiset** -/
theorem C05_validChoice_perm (cfg : Cfg) (st : St) (scene e n : Nat) (t₁ t₂ : List Tracker.Entry)
    (h : t₁ ~ t₂) (hnd : (t₁.map (fun x => (x.det, x.tid))).Nodup) (picks : List Pick) :
    validChoice cfg st scene e n t₁ picks = validChoice cfg st scene e n t₂ picks := by
  obtain ⟨h1, h2⟩ := C05_valid_perm_partial cfg st scene e n t₁ t₂ h picks
  have hes : t₁.map toAE ~ t₂.map toAE := h.map _
  have hpn : PairsNodup (t₁.map toAE) := by
    unfold PairsNodup
    rw [map_map]
    have : ((fun e : AssignX.Entry => (e.q, e.t)) ∘ toAE) = (fun p : Nat × Nat => (p.1 + 1, p.2)) ∘ (fun x : Tracker.Entry => (x.det, x.tid)) := by
      funext x; rfl
    rw [this, ← map_map]
    apply Nodup.map _ hnd
    intro a b hab
    simp only [Prod.mk.injEq, Nat.add_right_cancel_iff] at hab
    exact Prod.ext hab.1 hab.2
  have hobj := objective_fn_perm (t₁.map toAE) (t₂.map toAE) hes hpn cfg.thr
    (fun q => (picks.map contOf).getD (q - 1) none)
  have hbest := C05_bestOf_perm (t₁.map toAE) (t₂.map toAE) hes hpn cfg.thr
  unfold validChoice
  refine congrArg₂ (· && ·) (congrArg₂ (· && ·) (congrArg₂ (· && ·) (congrArg₂ (· && ·) rfl h1) ?_) rfl) ?_
  · exact h2
  · exact congrArg₂ (· == ·) hobj hbest

end SimVerif.C05
