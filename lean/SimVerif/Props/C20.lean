import SimVerif.Lemmas.Constraints
/-!
# C20 — spatio-temporal constraints are a pure, monotone filter (table level)

Model: `SimVerif.Constraints` (`add_constraints`, `validate` of
src/trackers/spatio_temporal_constraints.rs). Tracker-level statements (non-binding tables change
nothing; binding tables bound every attachment) live with the tracker model.
-/
namespace SimVerif.C20
open SimVerif.Constraints

/-- After any sequence of successful `add_constraints` calls (`calls`: most recent first) the table
is strictly sorted by gap and, for every gap, holds the limit configured **first** for that gap. -/
theorem C20_table (calls : List (List Entry)) (t : List Entry) (h : build calls = some t) :
    t.Pairwise (fun a b => a.1 < b.1) ∧
    ∀ g, t.find? (fun e => e.1 == g) = (calls.reverse.flatten).find? (fun e => e.1 == g) := by
  induction calls generalizing t with
  | nil => simp only [build, Option.some.injEq] at h; subst h; simp
  | cons c rest ih =>
    simp only [build] at h
    cases hb : build rest with
    | none => simp [hb] at h
    | some t' =>
      simp only [hb] at h
      obtain ⟨_, ih2⟩ := ih t' hb
      obtain ⟨h1, h2⟩ := add_spec t' c t h
      refine ⟨h1, fun g => ?_⟩
      rw [h2 g, List.find?_append, ih2 g]
      simp [List.find?_append]

/-- The entry used for gap `d` is the one with the smallest configured gap not below `d`;
none is used iff every configured gap is below `d`. -/
theorem C20_lookup (t : List Entry) (hs : t.Pairwise (fun a b => a.1 < b.1)) (d : Nat) :
    (∀ e, limitFor t d = some e → e ∈ t ∧ d ≤ e.1 ∧ ∀ e' ∈ t, d ≤ e'.1 → e.1 ≤ e'.1) ∧
    (limitFor t d = none → ∀ e ∈ t, e.1 < d) := by
  unfold limitFor
  constructor
  · intro e he
    have hmem := List.mem_of_find?_eq_some he
    have hp := List.find?_some he
    simp only [ge_iff_le, decide_eq_true_eq] at hp
    refine ⟨hmem, hp, ?_⟩
    intro e' he' hd
    induction t with
    | nil => cases hmem
    | cons a rest ih =>
      obtain ⟨h1, h2⟩ := List.pairwise_cons.mp hs
      by_cases ha : d ≤ a.1
      · have : e = a := by simpa [List.find?_cons, ha] using he.symm
        subst this
        rcases List.mem_cons.mp he' with rfl | he'
        · exact Nat.le_refl _
        · exact Nat.le_of_lt (h1 e' he')
      · have he2 : rest.find? (fun e => decide (e.1 ≥ d)) = some e := by
          simpa [List.find?_cons, ha] using he
        rcases List.mem_cons.mp he' with rfl | he'
        · exact absurd hd ha
        · exact ih h2 he2 (List.mem_of_find?_eq_some he2) he'
  · intro hn e he
    have := List.find?_eq_none.mp hn e he
    simpa using this

/-- A pair is admitted exactly when its distance does not exceed the applicable limit. -/
theorem C20_admit_iff (t : List Entry) (d : Nat) (x : Rat) (hx : 0 ≤ x) :
    validate t d x = some (decide (∀ e, limitFor t d = some e → x ≤ e.2)) := by
  unfold validate
  rw [if_neg (Rat.not_lt.mpr hx)]
  cases limitFor t d with
  | none => simp
  | some e => simp

/-- Admission is monotone in the distance. -/
theorem C20_monotone (t : List Entry) (d : Nat) (x₁ x₂ : Rat) (h0 : 0 ≤ x₁) (h : x₁ ≤ x₂)
    (hv : validate t d x₂ = some true) : validate t d x₁ = some true := by
  have h2 : 0 ≤ x₂ := Rat.le_trans h0 h
  rw [C20_admit_iff t d x₂ h2] at hv
  rw [C20_admit_iff t d x₁ h0]
  simp only [Option.some.injEq, decide_eq_true_eq] at hv ⊢
  exact fun e he => Rat.le_trans h (hv e he)

/-- Constraints only ever remove pairs: whatever a table admits, the empty table admits. -/
theorem C20_filter (t : List Entry) (d : Nat) (x : Rat) (b : Bool) (hv : validate t d x = some b) :
    validate [] d x = some true := by
  unfold validate at hv ⊢
  split at hv
  · cases hv
  · rename_i h; simp [h, limitFor]

/-- a larger gap never gets a smaller-gap entry: the applicable gap is monotone in `d` -/
theorem C20_gap_monotone (t : List Entry) (hs : t.Pairwise (fun a b => a.1 < b.1)) (d₁ d₂ : Nat)
    (h : d₁ ≤ d₂) (e₁ e₂ : Entry) (h1 : limitFor t d₁ = some e₁) (h2 : limitFor t d₂ = some e₂) :
    e₁.1 ≤ e₂.1 := by
  obtain ⟨_, _, hmin⟩ := (C20_lookup t hs d₁).1 e₁ h1
  obtain ⟨hm2, hd2, _⟩ := (C20_lookup t hs d₂).1 e₂ h2
  exact hmin e₂ hm2 (Nat.le_trans h hd2)

/-- `add_constraints` succeeds (the code does not assert) exactly on positive limits -/
theorem C20_build_total (calls : List (List Entry)) (h : ∀ c ∈ calls, ∀ e ∈ c, e.2 > 0) :
    ∃ t, build calls = some t := by
  induction calls with
  | nil => exact ⟨[], rfl⟩
  | cons c rest ih =>
    obtain ⟨t', ht'⟩ := ih (fun c' hc' => h c' (List.mem_cons_of_mem _ hc'))
    have hall : (c.all (fun e => decide (e.2 > 0))) = true := by
      simp only [List.all_eq_true, decide_eq_true_eq]
      exact h c List.mem_cons_self
    exact ⟨dedupFirst ((t' ++ c).mergeSort keyLE), by simp only [build, ht', addConstraints, hall, if_true]⟩

/-! ### non-vacuity -/
example : ∃ t, build [[(2, 9)], [(5, 3), (2, 1), (5, 7)]] = some t :=
  C20_build_total _ (by decide +kernel)
/-- and by `C20_table` that table answers gap 2 with limit 1 (the first configured), gap 5 with 3 -/
example (t : List Entry) (h : build [[(2, 9)], [(5, 3), (2, 1), (5, 7)]] = some t) :
    t.find? (fun e => e.1 == 2) = some (2, 1) ∧ t.find? (fun e => e.1 == 5) = some (5, 3) := by
  have := (C20_table _ t h).2
  exact ⟨by rw [this 2]; decide +kernel, by rw [this 5]; decide +kernel⟩
example : validate [(2, 1), (5, 3)] 3 (5/2) = some true ∧ validate [(2, 1), (5, 3)] 2 (5/2) = some false
    ∧ validate [(2, 1), (5, 3)] 6 100 = some true := by decide +kernel

end SimVerif.C20
