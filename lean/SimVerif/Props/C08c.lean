import SimVerif.Props.C08b
/-!
# C08, part C — the clip result lies in both rectangles (soundness of Sutherland–Hodgman)

For arbitrary subject and clip polygons, over any linear ordered field:
* every vertex of `shClip subject clipping` lies in every closed half-plane that contains all subject
  vertices (`C08_clip_in_subject_halfplanes`) — the intersection points the algorithm creates are convex
  combinations of consecutive vertices;
* every vertex of the result lies on the inner side of every edge of the clip polygon
  (`C08_clip_in_clip_edges`).
For two boxes (positive size, `c² + s² = 1`) the half-planes of a box's four edges cut out exactly the
closed rectangle (`inBox_iff`: local coordinates within the half extents), so every vertex of the polygon
whose area `intersection` reports lies in both rectangles (`C08_clip_sound`). Together with convexity this
is the inclusion `result ⊆ A ∩ B`; the converse inclusion and "shoelace = measure" stay unproved (`C08_full`).
-/
namespace SimVerif.C08c
open SimVerif.Geom SimVerif.C08b
variable {α : Type} [Field α] [LinearOrder α] [IsStrictOrderedRing α]

omit [LinearOrder α] [IsStrictOrderedRing α] in
theorem denom_eq (a b p q : Pt α) :
    (a.1 - b.1) * (p.2 - q.2) - (a.2 - b.2) * (p.1 - q.1) = cross a p q - cross b p q := by
  unfold cross; ring

omit [LinearOrder α] [IsStrictOrderedRing α] in
/-- the intersection point is the point `a + t·(b − a)` of the line through `a`, `b` with
`t = cross a / (cross a − cross b)` (crosses taken against the clip edge `(p, q)`) -/
theorem computeIntersection_lerp (a b p q : Pt α) (hD : cross a p q - cross b p q ≠ 0) :
    computeIntersection a b p q =
      (a.1 + cross a p q / (cross a p q - cross b p q) * (b.1 - a.1),
       a.2 + cross a p q / (cross a p q - cross b p q) * (b.2 - a.2)) := by
  have e := denom_eq a b p q
  unfold computeIntersection
  simp only
  rw [e]
  refine Prod.ext ?_ ?_
  · simp only
    field_simp
    unfold cross
    ring
  · simp only
    field_simp
    unfold cross
    ring

omit [LinearOrder α] [IsStrictOrderedRing α] in
/-- `cross · u w` is affine -/
theorem cross_lerp (a b u w : Pt α) (t : α) :
    cross (a.1 + t * (b.1 - a.1), a.2 + t * (b.2 - a.2)) u w = (1 - t) * cross a u w + t * cross b u w := by
  unfold cross; ring

/-- the intersection point created between a vertex inside and a vertex outside the clip edge lies on the
clip edge's line -/
theorem inter_on_line (a b p q : Pt α) (h : isInside a p q ≠ isInside b p q) :
    cross (computeIntersection a b p q) p q = 0 := by
  have hD : cross a p q - cross b p q ≠ 0 := by rw [← denom_eq]; exact denom_ne_zero_of_sides a b p q h
  rw [computeIntersection_lerp a b p q hD, cross_lerp]
  field_simp
  ring

/-- … and in every closed half-plane `cross · u w ≤ 0` that contains both vertices -/
theorem inter_in_halfplane (a b p q u w : Pt α) (h : isInside a p q ≠ isInside b p q)
    (ha : cross a u w ≤ 0) (hb : cross b u w ≤ 0) : cross (computeIntersection a b p q) u w ≤ 0 := by
  have hD : cross a p q - cross b p q ≠ 0 := by rw [← denom_eq]; exact denom_ne_zero_of_sides a b p q h
  rw [computeIntersection_lerp a b p q hD, cross_lerp]
  unfold isInside at h
  set ca := cross a p q
  set cb := cross b p q
  have key : 0 ≤ ca / (ca - cb) ∧ 0 ≤ 1 - ca / (ca - cb) := by
    have h1 : 1 - ca / (ca - cb) = -cb / (ca - cb) := by field_simp; ring
    rw [h1]
    by_cases hia : ca ≤ 0
    · have hib : ¬ cb ≤ 0 := by
        intro hib; apply h; simp [hia, hib]
      have hcb : 0 < cb := not_le.mp hib
      have hneg : ca - cb < 0 := by linarith
      exact ⟨div_nonneg_of_nonpos hia hneg.le, div_nonneg_of_nonpos (by linarith) hneg.le⟩
    · have hca : 0 < ca := not_le.mp hia
      have hib : cb ≤ 0 := by
        by_contra hib; apply h; simp [hia, hib]
      have hpos : 0 < ca - cb := by linarith
      exact ⟨div_nonneg hca.le hpos.le, div_nonneg (by linarith) hpos.le⟩
  have h1 := mul_nonpos_of_nonneg_of_nonpos key.2 ha
  have h2 := mul_nonpos_of_nonneg_of_nonpos key.1 hb
  linarith

/-- one pass keeps every closed half-plane that contains `prev` and all vertices -/
theorem clipEdge_halfplane (cs ce u w prev : Pt α) (poly : List (Pt α))
    (hprev : cross prev u w ≤ 0) (hall : ∀ x ∈ poly, cross x u w ≤ 0) :
    ∀ x ∈ clipEdge cs ce prev poly, cross x u w ≤ 0 := by
  induction poly generalizing prev with
  | nil => intro x hx; simp [clipEdge] at hx
  | cons cur rest ih =>
    have hcur : cross cur u w ≤ 0 := hall cur List.mem_cons_self
    have hrest : ∀ x ∈ rest, cross x u w ≤ 0 := fun x hx => hall x (List.mem_cons_of_mem _ hx)
    intro x hx
    simp only [clipEdge, List.mem_append] at hx
    rcases hx with hx | hx
    · cases hc : isInside cur cs ce <;> cases hp : isInside prev cs ce <;> simp [hc, hp] at hx
      · subst hx
        exact inter_in_halfplane prev cur cs ce u w (by rw [hc, hp]; simp) hprev hcur
      · rcases hx with rfl | rfl
        · exact inter_in_halfplane prev cur cs ce u w (by rw [hc, hp]; simp) hprev hcur
        · exact hcur
      · subst hx; exact hcur
    · exact ih cur hcur hrest x hx

/-- one pass puts every vertex on the inner side of its clip edge -/
theorem clipEdge_edge (cs ce prev : Pt α) (poly : List (Pt α)) :
    ∀ x ∈ clipEdge cs ce prev poly, cross x cs ce ≤ 0 := by
  induction poly generalizing prev with
  | nil => intro x hx; simp [clipEdge] at hx
  | cons cur rest ih =>
    intro x hx
    simp only [clipEdge, List.mem_append] at hx
    rcases hx with hx | hx
    · cases hc : isInside cur cs ce <;> cases hp : isInside prev cs ce <;> simp [hc, hp] at hx
      · subst hx
        exact le_of_eq (inter_on_line prev cur cs ce (by rw [hc, hp]; simp))
      · rcases hx with rfl | rfl
        · exact le_of_eq (inter_on_line prev cur cs ce (by rw [hc, hp]; simp))
        · simpa [isInside] using hc
      · subst hx; simpa [isInside] using hc
    · exact ih cur x hx

theorem clipPass_halfplane (cs ce u w : Pt α) (poly : List (Pt α)) (hall : ∀ x ∈ poly, cross x u w ≤ 0) :
    ∀ x ∈ clipPass cs ce poly, cross x u w ≤ 0 := by
  unfold clipPass
  cases hl : poly.getLast? with
  | none => intro x hx; simp at hx
  | some l => exact clipEdge_halfplane cs ce u w l poly (hall l (List.mem_of_getLast? hl)) hall

theorem clipPass_edge (cs ce : Pt α) (poly : List (Pt α)) : ∀ x ∈ clipPass cs ce poly, cross x cs ce ≤ 0 := by
  unfold clipPass
  cases poly.getLast? with
  | none => intro x hx; simp at hx
  | some l => exact clipEdge_edge cs ce l poly

/-- the clip edges `clipLoop` walks through: `(cprev, c₀), (c₀, c₁), …` -/
def edgesFrom : Pt α → List (Pt α) → List (Pt α × Pt α)
  | _, [] => []
  | cprev, c :: rest => (cprev, c) :: edgesFrom c rest

/-- the edges of a closed ring given by its open vertex list, starting with `(last, first)` -/
def cyclicEdges (poly : List (Pt α)) : List (Pt α × Pt α) :=
  match poly.getLast? with
  | none => []
  | some l => edgesFrom l poly

theorem clipLoop_halfplane (u w cprev : Pt α) (cl poly : List (Pt α)) (hall : ∀ x ∈ poly, cross x u w ≤ 0) :
    ∀ x ∈ clipLoop cprev cl poly, cross x u w ≤ 0 := by
  induction cl generalizing cprev poly with
  | nil => simpa [clipLoop] using hall
  | cons c rest ih => exact ih c _ (clipPass_halfplane cprev c u w poly hall)

theorem clipLoop_edges (cprev : Pt α) (cl poly : List (Pt α)) :
    ∀ e ∈ edgesFrom cprev cl, ∀ x ∈ clipLoop cprev cl poly, cross x e.1 e.2 ≤ 0 := by
  induction cl generalizing cprev poly with
  | nil => intro e he; simp [edgesFrom] at he
  | cons c rest ih =>
    intro e he x hx
    simp only [edgesFrom, List.mem_cons] at he
    simp only [clipLoop] at hx
    rcases he with rfl | he
    · exact clipLoop_halfplane cprev c c rest _ (clipPass_edge cprev c poly) x hx
    · exact ih c _ e he x hx

/-- C08: every vertex of the clip result lies in every closed half-plane that contains the subject polygon -/
theorem C08_clip_in_subject_halfplanes (subject clipping : List (Pt α)) (u w : Pt α)
    (hall : ∀ x ∈ subject, cross x u w ≤ 0) : ∀ x ∈ shClip subject clipping, cross x u w ≤ 0 := by
  unfold shClip
  cases clipping.getLast? with
  | none => exact hall
  | some l => exact clipLoop_halfplane u w l clipping subject hall

/-- C08: every vertex of the clip result lies on the inner side of every edge of the clip polygon -/
theorem C08_clip_in_clip_edges (subject clipping : List (Pt α)) :
    ∀ e ∈ cyclicEdges clipping, ∀ x ∈ shClip subject clipping, cross x e.1 e.2 ≤ 0 := by
  unfold shClip cyclicEdges
  cases clipping.getLast? with
  | none => intro e he; simp at he
  | some l => exact clipLoop_edges l clipping subject

/-! ### boxes -/

/-- a point lies in the closed rectangle of a box: on the inner side of its four edges -/
def inBox (u : UBox α) (c s : α) (x : Pt α) : Prop := ∀ e ∈ cyclicEdges (vertices u c s), cross x e.1 e.2 ≤ 0

omit [LinearOrder α] [IsStrictOrderedRing α] in
theorem cyclicEdges_boxV (x y hw hh c s : α) :
    cyclicEdges (boxV x y hw hh c s) =
      [(bv3 x y hw hh c s, bv0 x y hw hh c s), (bv0 x y hw hh c s, bv1 x y hw hh c s),
       (bv1 x y hw hh c s, bv2 x y hw hh c s), (bv2 x y hw hh c s, bv3 x y hw hh c s)] := rfl

/-- the four edge half-planes cut out the rectangle: in the box frame (`a` along the width axis `(c, s)`,
`b` along the height axis `(−s, c)`) the point has `|a| ≤ hw` and `|b| ≤ hh` -/
theorem inBoxV_iff (x y hw hh c s : α) (h : c * c + s * s = 1) (hw0 : 0 < hw) (hh0 : 0 < hh) (p : Pt α) :
    (∀ e ∈ cyclicEdges (boxV x y hw hh c s), cross p e.1 e.2 ≤ 0) ↔
      (-hw ≤ (p.1 - x) * c + (p.2 - y) * s ∧ (p.1 - x) * c + (p.2 - y) * s ≤ hw) ∧
      (-hh ≤ -(p.1 - x) * s + (p.2 - y) * c ∧ -(p.1 - x) * s + (p.2 - y) * c ≤ hh) := by
  rw [cyclicEdges_boxV]
  simp only [List.mem_cons, List.not_mem_nil, or_false, forall_eq_or_imp, forall_eq]
  set a := (p.1 - x) * c + (p.2 - y) * s with ha
  set b := -(p.1 - x) * s + (p.2 - y) * c with hb
  have e30 : cross p (bv3 x y hw hh c s) (bv0 x y hw hh c s) = (2 * hh) * (-(a) - hw) * 1 + (2 * hh) * (-hw) * (c * c + s * s - 1) := by
    simp only [cross, bv0, bv3, ha]; ring
  have e01 : cross p (bv0 x y hw hh c s) (bv1 x y hw hh c s) = (2 * hw) * (b - hh) * 1 + (2 * hw) * (-hh) * (c * c + s * s - 1) := by
    simp only [cross, bv0, bv1, hb]; ring
  have e12 : cross p (bv1 x y hw hh c s) (bv2 x y hw hh c s) = (2 * hh) * (a - hw) * 1 + (2 * hh) * (-hw) * (c * c + s * s - 1) := by
    simp only [cross, bv1, bv2, ha]; ring
  have e23 : cross p (bv2 x y hw hh c s) (bv3 x y hw hh c s) = (2 * hw) * (-(b) - hh) * 1 + (2 * hw) * (-hh) * (c * c + s * s - 1) := by
    simp only [cross, bv2, bv3, hb]; ring
  rw [e30, e01, e12, e23, h]
  simp only [sub_self, mul_zero, add_zero, mul_one]
  have p2h : 0 < 2 * hh := by linarith
  have p2w : 0 < 2 * hw := by linarith
  constructor
  · rintro ⟨h1, h2, h3, h4⟩
    have h1' := nonpos_of_mul_nonpos_right h1 p2h
    have h2' := nonpos_of_mul_nonpos_right h2 p2w
    have h3' := nonpos_of_mul_nonpos_right h3 p2h
    have h4' := nonpos_of_mul_nonpos_right h4 p2w
    exact ⟨⟨by linarith, by linarith⟩, ⟨by linarith, by linarith⟩⟩
  · rintro ⟨⟨h1, h2⟩, ⟨h3, h4⟩⟩
    exact ⟨mul_nonpos_of_nonneg_of_nonpos p2h.le (by linarith), mul_nonpos_of_nonneg_of_nonpos p2w.le (by linarith),
           mul_nonpos_of_nonneg_of_nonpos p2h.le (by linarith), mul_nonpos_of_nonneg_of_nonpos p2w.le (by linarith)⟩

/-- the corners of a box lie in the box -/
theorem boxV_in_self (x y hw hh c s : α) (h : c * c + s * s = 1) (hw0 : 0 < hw) (hh0 : 0 < hh) :
    ∀ p ∈ boxV x y hw hh c s, ∀ e ∈ cyclicEdges (boxV x y hw hh c s), cross p e.1 e.2 ≤ 0 := by
  intro p hp
  rw [inBoxV_iff x y hw hh c s h hw0 hh0 p]
  have hc : ∀ k l : α, (k * hw * c - l * hh * s) * c + (k * hw * s + l * hh * c) * s = k * hw := by
    intro k l; linear_combination (k * hw) * h
  have hs : ∀ k l : α, -(k * hw * c - l * hh * s) * s + (k * hw * s + l * hh * c) * c = l * hh := by
    intro k l; linear_combination (l * hh) * h
  simp only [boxV, List.mem_cons, List.not_mem_nil, or_false] at hp
  rcases hp with rfl | rfl | rfl | rfl
  · have e1 : (((bv0 x y hw hh c s).1 - x) * c + ((bv0 x y hw hh c s).2 - y) * s) = -hw := by
      have := hc (-1) 1; simp only [bv0]; linear_combination this
    have e2 : (-((bv0 x y hw hh c s).1 - x) * s + ((bv0 x y hw hh c s).2 - y) * c) = hh := by
      have := hs (-1) 1; simp only [bv0]; linear_combination this
    rw [e1, e2]; exact ⟨⟨le_refl _, by linarith⟩, ⟨by linarith, le_refl _⟩⟩
  · have e1 : (((bv1 x y hw hh c s).1 - x) * c + ((bv1 x y hw hh c s).2 - y) * s) = hw := by
      have := hc 1 1; simp only [bv1]; linear_combination this
    have e2 : (-((bv1 x y hw hh c s).1 - x) * s + ((bv1 x y hw hh c s).2 - y) * c) = hh := by
      have := hs 1 1; simp only [bv1]; linear_combination this
    rw [e1, e2]; exact ⟨⟨by linarith, le_refl _⟩, ⟨by linarith, le_refl _⟩⟩
  · have e1 : (((bv2 x y hw hh c s).1 - x) * c + ((bv2 x y hw hh c s).2 - y) * s) = hw := by
      have := hc 1 (-1); simp only [bv2]; linear_combination this
    have e2 : (-((bv2 x y hw hh c s).1 - x) * s + ((bv2 x y hw hh c s).2 - y) * c) = -hh := by
      have := hs 1 (-1); simp only [bv2]; linear_combination this
    rw [e1, e2]; exact ⟨⟨by linarith, le_refl _⟩, ⟨le_refl _, by linarith⟩⟩
  · have e1 : (((bv3 x y hw hh c s).1 - x) * c + ((bv3 x y hw hh c s).2 - y) * s) = -hw := by
      have := hc (-1) (-1); simp only [bv3]; linear_combination this
    have e2 : (-((bv3 x y hw hh c s).1 - x) * s + ((bv3 x y hw hh c s).2 - y) * c) = -hh := by
      have := hs (-1) (-1); simp only [bv3]; linear_combination this
    rw [e1, e2]; exact ⟨⟨le_refl _, by linarith⟩, ⟨le_refl _, by linarith⟩⟩

/-- `inBox` in box-frame coordinates -/
theorem inBox_iff (u : UBox α) (c s : α) (h : c * c + s * s = 1) (hh : 0 < u.height) (ha : 0 < u.aspect) (p : Pt α) :
    inBox u c s p ↔
      (-(u.height * u.aspect / two) ≤ (p.1 - u.xc) * c + (p.2 - u.yc) * s ∧
        (p.1 - u.xc) * c + (p.2 - u.yc) * s ≤ u.height * u.aspect / two) ∧
      (-(u.height / two) ≤ -(p.1 - u.xc) * s + (p.2 - u.yc) * c ∧
        -(p.1 - u.xc) * s + (p.2 - u.yc) * c ≤ u.height / two) := by
  have h2 : (0 : α) < two := by unfold two; linarith [zero_lt_one (α := α)]
  unfold inBox
  rw [vertices_eq_boxV]
  exact inBoxV_iff _ _ _ _ _ _ h (div_pos (mul_pos hh ha) h2) (div_pos hh h2) p

/-- C08 (soundness of the clip): every vertex of the polygon whose area `intersection` reports lies in both
closed rectangles -/
theorem C08_clip_sound (l r : UBox α) (cl sl cr sr : α)
    (hl : cl * cl + sl * sl = 1)
    (hlh : 0 < l.height) (hla : 0 < l.aspect) :
    ∀ p ∈ shClip (vertices l cl sl) (vertices r cr sr), inBox l cl sl p ∧ inBox r cr sr p := by
  have h2 : (0 : α) < two := by unfold two; linarith [zero_lt_one (α := α)]
  intro p hp
  constructor
  · intro e he
    refine C08_clip_in_subject_halfplanes (vertices l cl sl) (vertices r cr sr) e.1 e.2 ?_ p hp
    intro x hx
    rw [vertices_eq_boxV] at hx he
    exact boxV_in_self _ _ _ _ _ _ hl (div_pos (mul_pos hlh hla) h2) (div_pos hlh h2) x hx e he
  · intro e he
    exact C08_clip_in_clip_edges (vertices l cl sl) (vertices r cr sr) e he p hp

/-- non-vacuity: the hypotheses are met by the unit square at the origin (axis-aligned, `(c, s) = (1, 0)`),
and its corner `(1/2, 1/2)` is in the box while `(1, 0)` is not -/
example : ((1 : ℚ) * 1 + 0 * 0 = 1) ∧ (0 : ℚ) < 1 ∧
    inBox ({ xc := 0, yc := 0, angle := none, aspect := 1, height := 1, conf := 1 } : UBox ℚ) 1 0 (1/2, 1/2) ∧
    ¬ inBox ({ xc := 0, yc := 0, angle := none, aspect := 1, height := 1, conf := 1 } : UBox ℚ) 1 0 (1, 0) := by
  refine ⟨by norm_num, by norm_num, ?_, ?_⟩
  · rw [inBox_iff _ _ _ (by norm_num) (by norm_num) (by norm_num)]
    simp only [two]; norm_num
  · rw [inBox_iff _ _ _ (by norm_num) (by norm_num) (by norm_num)]
    simp only [two]; norm_num

end SimVerif.C08c
