import SimVerif.Model.Geom
import Mathlib.Algebra.Order.Field.Basic
import Mathlib.Tactic.Ring
import Mathlib.Tactic.FieldSimp
import Mathlib.Tactic.Linarith
import Mathlib.Tactic.LinearCombination
/-!
# C08, part B — the Sutherland–Hodgman clipping model is equivariant under rigid motions

so the intersection area and IoU are unchanged when both boxes are translated / rotated together;
identical boxes have IoU 1. Over any linear ordered field, `c² + s² = 1`.
-/
namespace SimVerif.C08b
open SimVerif.Geom
variable {α : Type} [Field α] [LinearOrder α] [IsStrictOrderedRing α]

/-- rotation by `(c, s)` about the origin followed by translation by `(tx, ty)` -/
def rigid (c s tx ty : α) (p : Pt α) : Pt α := (c * p.1 - s * p.2 + tx, s * p.1 + c * p.2 + ty)

theorem cross_rigid (c s tx ty : α) (h : c * c + s * s = 1) (q p1 p2 : Pt α) :
    cross (rigid c s tx ty q) (rigid c s tx ty p1) (rigid c s tx ty p2) = cross q p1 p2 := by
  simp only [cross, rigid]
  linear_combination ((p2.1 - p1.1) * (q.2 - p1.2) - (p2.2 - p1.2) * (q.1 - p1.1)) * h

theorem isInside_rigid (c s tx ty : α) (h : c * c + s * s = 1) (q p1 p2 : Pt α) :
    isInside (rigid c s tx ty q) (rigid c s tx ty p1) (rigid c s tx ty p2) = isInside q p1 p2 := by
  unfold isInside
  rw [cross_rigid c s tx ty h]

/-- the denominator of `computeIntersection a b p q` is `cross a p q - cross b p q` (up to sign), hence
non-zero whenever exactly one of `a`, `b` is inside the edge `(p, q)` -/
theorem computeIntersection_rigid (c s tx ty : α) (h : c * c + s * s = 1) (a b p q : Pt α)
    (hd : (a.1 - b.1) * (p.2 - q.2) - (a.2 - b.2) * (p.1 - q.1) ≠ 0) :
    computeIntersection (rigid c s tx ty a) (rigid c s tx ty b) (rigid c s tx ty p) (rigid c s tx ty q)
      = rigid c s tx ty (computeIntersection a b p q) := by
  obtain ⟨a1, a2⟩ := a
  obtain ⟨b1, b2⟩ := b
  obtain ⟨p1, p2⟩ := p
  obtain ⟨q1, q2⟩ := q
  simp only at hd
  have hD : (c * a1 - s * a2 + tx - (c * b1 - s * b2 + tx)) * (s * p1 + c * p2 + ty - (s * q1 + c * q2 + ty))
      - (s * a1 + c * a2 + ty - (s * b1 + c * b2 + ty)) * (c * p1 - s * p2 + tx - (c * q1 - s * q2 + tx))
      = (a1 - b1) * (p2 - q2) - (a2 - b2) * (p1 - q1) := by
    linear_combination ((a1 - b1) * (p2 - q2) - (a2 - b2) * (p1 - q1)) * h
  simp only [computeIntersection, rigid]
  rw [hD]
  refine Prod.ext ?_ ?_
  · simp only
    field_simp
    linear_combination ((a1 * b2 - a2 * b1) * (c * (p1 - q1) - s * (p2 - q2))
      - (p1 * q2 - p2 * q1) * (c * (a1 - b1) - s * (a2 - b2))
      + tx * ((a1 - b1) * (p2 - q2) - (a2 - b2) * (p1 - q1))) * h
  · simp only
    field_simp
    linear_combination ((a1 * b2 - a2 * b1) * (s * (p1 - q1) + c * (p2 - q2))
      - (p1 * q2 - p2 * q1) * (s * (a1 - b1) + c * (a2 - b2))
      + ty * ((a1 - b1) * (p2 - q2) - (a2 - b2) * (p1 - q1))) * h

theorem denom_ne_zero_of_sides (a b p q : Pt α) (h : isInside a p q ≠ isInside b p q) :
    (a.1 - b.1) * (p.2 - q.2) - (a.2 - b.2) * (p.1 - q.1) ≠ 0 := by
  intro h0
  apply h
  have : cross a p q = cross b p q := by
    unfold cross
    linear_combination h0
  unfold isInside
  rw [this]

theorem clipEdge_rigid (c s tx ty : α) (h : c * c + s * s = 1) (cs ce prev : Pt α) (poly : List (Pt α)) :
    clipEdge (rigid c s tx ty cs) (rigid c s tx ty ce) (rigid c s tx ty prev) (poly.map (rigid c s tx ty))
      = (clipEdge cs ce prev poly).map (rigid c s tx ty) := by
  induction poly generalizing prev with
  | nil => simp [clipEdge]
  | cons cur rest ih =>
    simp only [List.map_cons, clipEdge, isInside_rigid c s tx ty h, ih, List.map_append]
    congr 1
    cases hc : isInside cur cs ce <;> cases hp : isInside prev cs ce <;> simp
    · exact computeIntersection_rigid c s tx ty h _ _ _ _
        (denom_ne_zero_of_sides _ _ _ _ (by rw [hc, hp]; simp))
    · exact computeIntersection_rigid c s tx ty h _ _ _ _
        (denom_ne_zero_of_sides _ _ _ _ (by rw [hc, hp]; simp))

theorem clipPass_rigid (c s tx ty : α) (h : c * c + s * s = 1) (cs ce : Pt α) (poly : List (Pt α)) :
    clipPass (rigid c s tx ty cs) (rigid c s tx ty ce) (poly.map (rigid c s tx ty))
      = (clipPass cs ce poly).map (rigid c s tx ty) := by
  unfold clipPass
  rw [List.getLast?_map]
  cases poly.getLast? with
  | none => simp
  | some l => simp only [Option.map_some]; exact clipEdge_rigid c s tx ty h cs ce l poly

theorem clipLoop_rigid (c s tx ty : α) (h : c * c + s * s = 1) (cprev : Pt α) (cl poly : List (Pt α)) :
    clipLoop (rigid c s tx ty cprev) (cl.map (rigid c s tx ty)) (poly.map (rigid c s tx ty))
      = (clipLoop cprev cl poly).map (rigid c s tx ty) := by
  induction cl generalizing cprev poly with
  | nil => simp [clipLoop]
  | cons cc rest ih =>
    simp only [List.map_cons, clipLoop, clipPass_rigid c s tx ty h, ih]

/-- the whole clip commutes with a rigid motion applied to both polygons -/
theorem shClip_rigid (c s tx ty : α) (h : c * c + s * s = 1) (subject clipping : List (Pt α)) :
    shClip (subject.map (rigid c s tx ty)) (clipping.map (rigid c s tx ty))
      = (shClip subject clipping).map (rigid c s tx ty) := by
  unfold shClip
  rw [List.getLast?_map]
  cases clipping.getLast? with
  | none => simp
  | some l => simp only [Option.map_some]; exact clipLoop_rigid c s tx ty h l clipping subject

theorem shoelace2Aux_rigid (c s tx ty : α) (h : c * c + s * s = 1) (f p : Pt α) (l : List (Pt α)) :
    shoelace2Aux (rigid c s tx ty f) ((p :: l).map (rigid c s tx ty))
      = shoelace2Aux f (p :: l)
        + (tx * (s * f.1 + c * f.2) - ty * (c * f.1 - s * f.2))
        - (tx * (s * p.1 + c * p.2) - ty * (c * p.1 - s * p.2)) := by
  induction l generalizing p with
  | nil =>
    simp only [List.map_cons, List.map_nil, shoelace2Aux, rigid]
    linear_combination (p.1 * f.2 - f.1 * p.2) * h
  | cons q rest ih =>
    have ih' := ih q
    simp only [List.map_cons] at ih' ⊢
    simp only [shoelace2Aux]
    rw [ih']
    simp only [rigid]
    linear_combination (p.1 * q.2 - q.1 * p.2) * h

/-- the (signed, doubled) shoelace area of a closed ring is invariant under rigid motions -/
theorem shoelace2_rigid (c s tx ty : α) (h : c * c + s * s = 1) (poly : List (Pt α)) :
    shoelace2 (poly.map (rigid c s tx ty)) = shoelace2 poly := by
  cases poly with
  | nil => simp [shoelace2]
  | cons p l =>
    simp only [List.map_cons, shoelace2]
    have := shoelace2Aux_rigid c s tx ty h p p l
    simp only [List.map_cons] at this
    rw [this]; ring

/-- C08: intersection area unchanged when both polygons undergo the same rigid motion -/
theorem C08_rigid_invariant (c s tx ty : α) (h : c * c + s * s = 1) (subject clipping : List (Pt α)) :
    polyArea (shClip (subject.map (rigid c s tx ty)) (clipping.map (rigid c s tx ty)))
      = polyArea (shClip subject clipping) := by
  unfold polyArea
  rw [shClip_rigid c s tx ty h, shoelace2_rigid c s tx ty h]

/-- the vertices of a box moved rigidly are the moved vertices: the centre is mapped by `rigid`, the
orientation `(cb, sb)` is composed with the rotation `(c, s)` -/
theorem vertices_rigid (c s tx ty : α) (u : UBox α) (cb sb : α) :
    vertices { u with xc := c * u.xc - s * u.yc + tx, yc := s * u.xc + c * u.yc + ty } (c * cb - s * sb) (s * cb + c * sb)
      = (vertices u cb sb).map (rigid c s tx ty) := by
  simp only [vertices, rigid, List.map_cons, List.map_nil]
  refine congrArg₂ _ (Prod.ext ?_ ?_) (congrArg₂ _ (Prod.ext ?_ ?_) (congrArg₂ _ (Prod.ext ?_ ?_)
    (congrArg₂ _ (Prod.ext ?_ ?_) rfl))) <;> simp only <;> ring

omit [LinearOrder α] [IsStrictOrderedRing α] in
theorem radiusSq_rigid (u : UBox α) (x y : α) :
    radiusSq { u with xc := x, yc := y } = radiusSq u := rfl

/-- the pre-filter only looks at centre distance and radii, both preserved -/
theorem tooFar_rigid (c s tx ty : α) (h : c * c + s * s = 1) (l r : UBox α) :
    tooFar { l with xc := c * l.xc - s * l.yc + tx, yc := s * l.xc + c * l.yc + ty }
           { r with xc := c * r.xc - s * r.yc + tx, yc := s * r.xc + c * r.yc + ty } = tooFar l r := by
  simp only [tooFar, radiusSq_rigid]
  have hd : (c * l.xc - s * l.yc + tx - (c * r.xc - s * r.yc + tx)) * (c * l.xc - s * l.yc + tx - (c * r.xc - s * r.yc + tx))
      + (s * l.xc + c * l.yc + ty - (s * r.xc + c * r.yc + ty)) * (s * l.xc + c * l.yc + ty - (s * r.xc + c * r.yc + ty))
      = (l.xc - r.xc) * (l.xc - r.xc) + (l.yc - r.yc) * (l.yc - r.yc) := by
    linear_combination ((l.xc - r.xc) * (l.xc - r.xc) + (l.yc - r.yc) * (l.yc - r.yc)) * h
  rw [hd]
  rfl

/-- C08: `Universal2DBox::intersection` (hence IoU) is unchanged when both boxes are translated or rotated together -/
theorem C08_intersection_rigid (c s tx ty : α) (h : c * c + s * s = 1) (l r : UBox α) (cl sl cr sr : α) :
    intersection { l with xc := c * l.xc - s * l.yc + tx, yc := s * l.xc + c * l.yc + ty }
                 { r with xc := c * r.xc - s * r.yc + tx, yc := s * r.xc + c * r.yc + ty }
                 (c * cl - s * sl) (s * cl + c * sl) (c * cr - s * sr) (s * cr + c * sr)
      = intersection l r cl sl cr sr := by
  unfold intersection
  rw [tooFar_rigid c s tx ty h, vertices_rigid, vertices_rigid, C08_rigid_invariant c s tx ty h]


omit [IsStrictOrderedRing α] in
theorem isInside_of_cross {q a b : Pt α} (hc : cross q a b ≤ 0) : isInside q a b = true := by
  simp [isInside, hc]

omit [IsStrictOrderedRing α] in
theorem clipEdge_all_inside (cs ce prev : Pt α) (poly : List (Pt α))
    (hp : isInside prev cs ce = true) (hall : ∀ q ∈ poly, isInside q cs ce = true) :
    clipEdge cs ce prev poly = poly := by
  induction poly generalizing prev with
  | nil => rfl
  | cons cur rest ih =>
    have hcur : isInside cur cs ce = true := hall cur (List.mem_cons_self)
    have hrest : ∀ q ∈ rest, isInside q cs ce = true := fun q hq => hall q (List.mem_cons_of_mem _ hq)
    simp only [clipEdge, hcur, hp, ih cur hcur hrest]
    simp

omit [IsStrictOrderedRing α] in
theorem clipPass_all_inside (cs ce : Pt α) (poly : List (Pt α))
    (hall : ∀ q ∈ poly, isInside q cs ce = true) : clipPass cs ce poly = poly := by
  unfold clipPass
  cases hl : poly.getLast? with
  | none => simp only; exact (List.getLast?_eq_none_iff.mp hl).symm
  | some l =>
    simp only
    exact clipEdge_all_inside cs ce l poly (hall l (List.mem_of_getLast? hl)) hall

/-- the four corners of a box with centre `(x, y)`, half-extents `hw`, `hh`, orientation `(c, s)` -/
def bv0 (x y hw hh c s : α) : Pt α := (x + (-hw * c - hh * s), y + (-hw * s + hh * c))
def bv1 (x y hw hh c s : α) : Pt α := (x + (hw * c - hh * s), y + (hw * s + hh * c))
def bv2 (x y hw hh c s : α) : Pt α := (x - (-hw * c - hh * s), y - (-hw * s + hh * c))
def bv3 (x y hw hh c s : α) : Pt α := (x - (hw * c - hh * s), y - (hw * s + hh * c))
def boxV (x y hw hh c s : α) : List (Pt α) :=
  [bv0 x y hw hh c s, bv1 x y hw hh c s, bv2 x y hw hh c s, bv3 x y hw hh c s]

omit [LinearOrder α] [IsStrictOrderedRing α] in
theorem vertices_eq_boxV (u : UBox α) (c s : α) :
    vertices u c s = boxV u.xc u.yc (u.height * u.aspect / two) (u.height / two) c s := rfl

set_option linter.unusedSimpArgs false in
theorem boxV_selfclip (x y hw hh c s : α) (h : c * c + s * s = 1) (hw0 : 0 ≤ hw) (hh0 : 0 ≤ hh) :
    shClip (boxV x y hw hh c s) (boxV x y hw hh c s) = boxV x y hw hh c s := by
  have hpos : 0 ≤ hw * hh := mul_nonneg hw0 hh0
  have c0_30 : isInside (bv0 x y hw hh c s) (bv3 x y hw hh c s) (bv0 x y hw hh c s) = true := by
    apply isInside_of_cross
    have e : cross (bv0 x y hw hh c s) (bv3 x y hw hh c s) (bv0 x y hw hh c s) = (hw * hh) * (0) * (c * c + s * s) := by
      simp only [cross, bv0, bv1, bv2, bv3]; ring
    rw [e, h]; linarith [hpos]
  have c1_30 : isInside (bv1 x y hw hh c s) (bv3 x y hw hh c s) (bv0 x y hw hh c s) = true := by
    apply isInside_of_cross
    have e : cross (bv1 x y hw hh c s) (bv3 x y hw hh c s) (bv0 x y hw hh c s) = (hw * hh) * (-4) * (c * c + s * s) := by
      simp only [cross, bv0, bv1, bv2, bv3]; ring
    rw [e, h]; linarith [hpos]
  have c2_30 : isInside (bv2 x y hw hh c s) (bv3 x y hw hh c s) (bv0 x y hw hh c s) = true := by
    apply isInside_of_cross
    have e : cross (bv2 x y hw hh c s) (bv3 x y hw hh c s) (bv0 x y hw hh c s) = (hw * hh) * (-4) * (c * c + s * s) := by
      simp only [cross, bv0, bv1, bv2, bv3]; ring
    rw [e, h]; linarith [hpos]
  have c3_30 : isInside (bv3 x y hw hh c s) (bv3 x y hw hh c s) (bv0 x y hw hh c s) = true := by
    apply isInside_of_cross
    have e : cross (bv3 x y hw hh c s) (bv3 x y hw hh c s) (bv0 x y hw hh c s) = (hw * hh) * (0) * (c * c + s * s) := by
      simp only [cross, bv0, bv1, bv2, bv3]; ring
    rw [e, h]; linarith [hpos]
  have c0_01 : isInside (bv0 x y hw hh c s) (bv0 x y hw hh c s) (bv1 x y hw hh c s) = true := by
    apply isInside_of_cross
    have e : cross (bv0 x y hw hh c s) (bv0 x y hw hh c s) (bv1 x y hw hh c s) = (hw * hh) * (0) * (c * c + s * s) := by
      simp only [cross, bv0, bv1, bv2, bv3]; ring
    rw [e, h]; linarith [hpos]
  have c1_01 : isInside (bv1 x y hw hh c s) (bv0 x y hw hh c s) (bv1 x y hw hh c s) = true := by
    apply isInside_of_cross
    have e : cross (bv1 x y hw hh c s) (bv0 x y hw hh c s) (bv1 x y hw hh c s) = (hw * hh) * (0) * (c * c + s * s) := by
      simp only [cross, bv0, bv1, bv2, bv3]; ring
    rw [e, h]; linarith [hpos]
  have c2_01 : isInside (bv2 x y hw hh c s) (bv0 x y hw hh c s) (bv1 x y hw hh c s) = true := by
    apply isInside_of_cross
    have e : cross (bv2 x y hw hh c s) (bv0 x y hw hh c s) (bv1 x y hw hh c s) = (hw * hh) * (-4) * (c * c + s * s) := by
      simp only [cross, bv0, bv1, bv2, bv3]; ring
    rw [e, h]; linarith [hpos]
  have c3_01 : isInside (bv3 x y hw hh c s) (bv0 x y hw hh c s) (bv1 x y hw hh c s) = true := by
    apply isInside_of_cross
    have e : cross (bv3 x y hw hh c s) (bv0 x y hw hh c s) (bv1 x y hw hh c s) = (hw * hh) * (-4) * (c * c + s * s) := by
      simp only [cross, bv0, bv1, bv2, bv3]; ring
    rw [e, h]; linarith [hpos]
  have c0_12 : isInside (bv0 x y hw hh c s) (bv1 x y hw hh c s) (bv2 x y hw hh c s) = true := by
    apply isInside_of_cross
    have e : cross (bv0 x y hw hh c s) (bv1 x y hw hh c s) (bv2 x y hw hh c s) = (hw * hh) * (-4) * (c * c + s * s) := by
      simp only [cross, bv0, bv1, bv2, bv3]; ring
    rw [e, h]; linarith [hpos]
  have c1_12 : isInside (bv1 x y hw hh c s) (bv1 x y hw hh c s) (bv2 x y hw hh c s) = true := by
    apply isInside_of_cross
    have e : cross (bv1 x y hw hh c s) (bv1 x y hw hh c s) (bv2 x y hw hh c s) = (hw * hh) * (0) * (c * c + s * s) := by
      simp only [cross, bv0, bv1, bv2, bv3]; ring
    rw [e, h]; linarith [hpos]
  have c2_12 : isInside (bv2 x y hw hh c s) (bv1 x y hw hh c s) (bv2 x y hw hh c s) = true := by
    apply isInside_of_cross
    have e : cross (bv2 x y hw hh c s) (bv1 x y hw hh c s) (bv2 x y hw hh c s) = (hw * hh) * (0) * (c * c + s * s) := by
      simp only [cross, bv0, bv1, bv2, bv3]; ring
    rw [e, h]; linarith [hpos]
  have c3_12 : isInside (bv3 x y hw hh c s) (bv1 x y hw hh c s) (bv2 x y hw hh c s) = true := by
    apply isInside_of_cross
    have e : cross (bv3 x y hw hh c s) (bv1 x y hw hh c s) (bv2 x y hw hh c s) = (hw * hh) * (-4) * (c * c + s * s) := by
      simp only [cross, bv0, bv1, bv2, bv3]; ring
    rw [e, h]; linarith [hpos]
  have c0_23 : isInside (bv0 x y hw hh c s) (bv2 x y hw hh c s) (bv3 x y hw hh c s) = true := by
    apply isInside_of_cross
    have e : cross (bv0 x y hw hh c s) (bv2 x y hw hh c s) (bv3 x y hw hh c s) = (hw * hh) * (-4) * (c * c + s * s) := by
      simp only [cross, bv0, bv1, bv2, bv3]; ring
    rw [e, h]; linarith [hpos]
  have c1_23 : isInside (bv1 x y hw hh c s) (bv2 x y hw hh c s) (bv3 x y hw hh c s) = true := by
    apply isInside_of_cross
    have e : cross (bv1 x y hw hh c s) (bv2 x y hw hh c s) (bv3 x y hw hh c s) = (hw * hh) * (-4) * (c * c + s * s) := by
      simp only [cross, bv0, bv1, bv2, bv3]; ring
    rw [e, h]; linarith [hpos]
  have c2_23 : isInside (bv2 x y hw hh c s) (bv2 x y hw hh c s) (bv3 x y hw hh c s) = true := by
    apply isInside_of_cross
    have e : cross (bv2 x y hw hh c s) (bv2 x y hw hh c s) (bv3 x y hw hh c s) = (hw * hh) * (0) * (c * c + s * s) := by
      simp only [cross, bv0, bv1, bv2, bv3]; ring
    rw [e, h]; linarith [hpos]
  have c3_23 : isInside (bv3 x y hw hh c s) (bv2 x y hw hh c s) (bv3 x y hw hh c s) = true := by
    apply isInside_of_cross
    have e : cross (bv3 x y hw hh c s) (bv2 x y hw hh c s) (bv3 x y hw hh c s) = (hw * hh) * (0) * (c * c + s * s) := by
      simp only [cross, bv0, bv1, bv2, bv3]; ring
    rw [e, h]; linarith [hpos]
  have p30 : clipPass (bv3 x y hw hh c s) (bv0 x y hw hh c s) (boxV x y hw hh c s) = boxV x y hw hh c s := by
    apply clipPass_all_inside
    intro q hq
    simp only [boxV, List.mem_cons, List.not_mem_nil, or_false] at hq
    rcases hq with rfl | rfl | rfl | rfl
    · exact c0_30
    · exact c1_30
    · exact c2_30
    · exact c3_30
  have p01 : clipPass (bv0 x y hw hh c s) (bv1 x y hw hh c s) (boxV x y hw hh c s) = boxV x y hw hh c s := by
    apply clipPass_all_inside
    intro q hq
    simp only [boxV, List.mem_cons, List.not_mem_nil, or_false] at hq
    rcases hq with rfl | rfl | rfl | rfl
    · exact c0_01
    · exact c1_01
    · exact c2_01
    · exact c3_01
  have p12 : clipPass (bv1 x y hw hh c s) (bv2 x y hw hh c s) (boxV x y hw hh c s) = boxV x y hw hh c s := by
    apply clipPass_all_inside
    intro q hq
    simp only [boxV, List.mem_cons, List.not_mem_nil, or_false] at hq
    rcases hq with rfl | rfl | rfl | rfl
    · exact c0_12
    · exact c1_12
    · exact c2_12
    · exact c3_12
  have p23 : clipPass (bv2 x y hw hh c s) (bv3 x y hw hh c s) (boxV x y hw hh c s) = boxV x y hw hh c s := by
    apply clipPass_all_inside
    intro q hq
    simp only [boxV, List.mem_cons, List.not_mem_nil, or_false] at hq
    rcases hq with rfl | rfl | rfl | rfl
    · exact c0_23
    · exact c1_23
    · exact c2_23
    · exact c3_23
  have e : shClip (boxV x y hw hh c s) (boxV x y hw hh c s)
      = clipLoop (bv3 x y hw hh c s) (boxV x y hw hh c s) (boxV x y hw hh c s) := rfl
  rw [e]
  conv_lhs => arg 2; unfold boxV
  simp only [clipLoop, p30, p01, p12, p23]

omit [LinearOrder α] [IsStrictOrderedRing α] in
theorem shoelace2_boxV (x y hw hh c s : α) :
    shoelace2 (boxV x y hw hh c s) = -(8 * hw * hh) * (c * c + s * s) := by
  simp only [boxV, shoelace2, shoelace2Aux, bv0, bv1, bv2, bv3]
  ring

theorem tooFar_self (u : UBox α) : tooFar u u = false := by
  have hr : 0 ≤ radiusSq u := by
    unfold radiusSq
    exact add_nonneg (mul_self_nonneg _) (mul_self_nonneg _)
  have hn : ¬ (0 < (u.xc - u.xc) * (u.xc - u.xc) + (u.yc - u.yc) * (u.yc - u.yc) - radiusSq u - radiusSq u) := by
    intro hlt
    have : (u.xc - u.xc) * (u.xc - u.xc) + (u.yc - u.yc) * (u.yc - u.yc) = 0 := by ring
    rw [this] at hlt
    linarith
  simp only [tooFar, hn, decide_false, Bool.false_and]

/-- identical boxes: clipping a box polygon by itself returns it, so IoU = 1
(positive size, `cb² + sb² = 1`) -/
theorem C08_identical (u : UBox α) (cb sb : α) (h : cb * cb + sb * sb = 1) (hh : 0 < u.height) (ha : 0 < u.aspect) :
    shClip (vertices u cb sb) (vertices u cb sb) = vertices u cb sb ∧
    iou u u cb sb cb sb = some 1 := by
  have h2 : (0 : α) < two := by unfold two; linarith [zero_lt_one (α := α)]
  have hw0 : 0 ≤ u.height * u.aspect / two := le_of_lt (div_pos (mul_pos hh ha) h2)
  have hh0 : 0 ≤ u.height / two := le_of_lt (div_pos hh h2)
  have hclip : shClip (vertices u cb sb) (vertices u cb sb) = vertices u cb sb := by
    rw [vertices_eq_boxV]
    exact boxV_selfclip _ _ _ _ _ _ h hw0 hh0
  refine ⟨hclip, ?_⟩
  have hA : 0 < u.height * u.aspect * u.height := mul_pos (mul_pos hh ha) hh
  have hsl : shoelace2 (vertices u cb sb) = -(2 * (u.height * u.aspect * u.height)) := by
    rw [vertices_eq_boxV, shoelace2_boxV, h]
    unfold two
    field_simp
    ring
  have hpa : polyArea (vertices u cb sb) = u.height * u.aspect * u.height := by
    unfold polyArea
    rw [hsl]
    have hneg : -(2 * (u.height * u.aspect * u.height)) < 0 := by linarith
    simp only [absv, hneg, if_true]
    unfold two
    field_simp
    ring
  have hi : intersection u u cb sb cb sb = u.height * u.aspect * u.height := by
    unfold intersection
    rw [tooFar_self, hclip, hpa]
    simp
  unfold iou
  simp only [hi]
  rw [if_neg (ne_of_gt hA)]
  congr 1
  rw [div_eq_one_iff_eq]
  · ring
  · have : u.height * u.height * u.aspect + u.height * u.height * u.aspect - u.height * u.aspect * u.height
        = u.height * u.aspect * u.height := by ring
    rw [this]; exact ne_of_gt hA

end SimVerif.C08b
