import SimVerif.Props.C08
import SimVerif.Tie.Own
/-!
# C15 at source level

`Gen.L.exclusively_owned_areas` (regenerated from `src/utils/clipping/bbox_own_areas.rs`) clips box `i` against exactly the
boxes near it (`Tie/Own.lean`). With the soundness of the pre-filter (`C08_toofar_sound`, over the model `tooFar` that
`Tie/Inter.lean` ties to the source's `too_far`) this gives: **every other box that shares a point with box `i` is subtracted
from it**, whatever the order of the set, and box `i` itself never is. What the subtraction and the area then yield is `geo`'s
contract (correspondence run).
-/
namespace SimVerif.C15
open SimVerif.Geom SimVerif.Tie SimVerif.Gen.L
variable {α : Type} [Field α] [LinearOrder α] [IsStrictOrderedRing α]

/-- two different boxes of the set with a common point (a point within the bounding circle of both) are near each other -/
theorem C15_source_overlapping_is_near (boxes : List (UBox α)) (i j : Nat) (a b : UBox α) (hij : i ≠ j)
    (ha : boxes[i]? = some a) (hb : boxes[j]? = some b) (px py : α)
    (hpa : (px - a.xc) * (px - a.xc) + (py - a.yc) * (py - a.yc) ≤ radiusSq a)
    (hpb : (px - b.xc) * (px - b.xc) + (py - b.yc) * (py - b.yc) ≤ radiusSq b) :
    nearB tooFar boxes i j = true := by
  unfold nearB
  simp only [ha, hb]
  have h1 := C08.C08_toofar_sound a b px py hpa hpb
  have h2 := C08.C08_toofar_sound b a px py hpb hpa
  rcases Nat.lt_or_gt_of_ne hij with h | h
  · simp [h, h1]
  · simp [h, h2]

/-- … hence it is among the boxes the source subtracts from box `i`; and `i` is never subtracted from itself -/
theorem C15_source_spec {P : Type} (polyOf : UBox α → P) (diff : P → P → P) (boxes : List (UBox α)) :
    exclusively_owned_areas tooFar polyOf diff boxes = ownSpec tooFar polyOf diff boxes ∧
    ∀ i, nearB tooFar boxes i i = false :=
  ⟨tie_exclusively_owned_areas tooFar polyOf diff boxes, nearB_irrefl tooFar boxes⟩

end SimVerif.C15
