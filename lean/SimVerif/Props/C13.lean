import SimVerif.Lemmas.Tracker
namespace SimVerif.C13
theorem C13_placeholder : True := trivial
end SimVerif.C13
