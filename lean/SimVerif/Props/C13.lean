import SimVerif.Lemmas.Tracker
/-!
# C13 — bounded galleries and histories: newest kept, lowest quality evicted

Model: `SimVerif.Tracker.{galleryUpdate, featCount, pushBounded, applyPick}` — `VisualMetric::optimize`
/ `optimize_observations`, `update_history` of both attribute kinds.
-/
namespace SimVerif.C13
open SimVerif.Tracker List

def qGE (a b : GE) : Bool := decide (b.quality ≤ a.quality)

theorem qGE_trans (a b c : GE) : qGE a b = true → qGE b c = true → qGE a c = true := by
  simp only [qGE, decide_eq_true_eq]; exact fun h1 h2 => Rat.le_trans h2 h1
theorem qGE_total (a b : GE) : (qGE a b || qGE b a) = true := by
  simp only [qGE, Bool.or_eq_true, decide_eq_true_eq]; exact (Rat.le_total).symm

/-- the stored-feature part of the old gallery, stably sorted by decreasing quality -/
def keptSorted (old : List GE) : List GE :=
  ((old.filter (fun g => g.feat != 0)).map (fun g => { g with box := false })).mergeSort qGE

theorem galleryUpdate_eq (maxObs : Nat) (old : List GE) (new : GE) :
    galleryUpdate maxObs old new =
      (match (if (keptSorted old).length ≥ maxObs then (keptSorted old).dropLast else keptSorted old) with
       | [] => [new]
       | a0 :: rest => new :: rest ++ [a0]) := rfl

theorem keptSorted_length_le (old : List GE) : (keptSorted old).length ≤ old.length := by
  unfold keptSorted
  rw [(mergeSort_perm _ _).length_eq, length_map]
  exact length_filter_le _ _

/-- **The gallery is bounded**: at most `visual_max_observations` entries in every reachable state. -/
theorem C13_bound (maxObs : Nat) (h1 : 1 ≤ maxObs) (old : List GE) (new : GE) (h : old.length ≤ maxObs) :
    (galleryUpdate maxObs old new).length ≤ maxObs := by
  rw [galleryUpdate_eq]
  have hk := keptSorted_length_le old
  have hcut : (if (keptSorted old).length ≥ maxObs then (keptSorted old).dropLast else keptSorted old).length ≤ maxObs - 1 := by
    split
    · rw [length_dropLast]; omega
    · omega
  generalize (if (keptSorted old).length ≥ maxObs then (keptSorted old).dropLast else keptSorted old) = cut at hcut
  cases cut with
  | nil => simp; omega
  | cons a0 rest => simp at hcut ⊢; omega

/-- a fresh track's gallery (one entry) is within the bound, so by `C13_bound` every gallery is -/
theorem C13_bound_init (maxObs : Nat) (h1 : 1 ≤ maxObs) (new : GE) : ([new] : List GE).length ≤ maxObs := by simpa using h1

/-- **What survives an update**: the newest observation is first and is the only entry that still
carries its box; every other entry is a stored *feature* of the previous gallery, box dropped. -/
theorem C13_survivors (maxObs : Nat) (old : List GE) (new : GE) :
    (galleryUpdate maxObs old new).head? = some new ∧
    ∀ g ∈ (galleryUpdate maxObs old new).tail, g.box = false ∧ g.feat ≠ 0 ∧
      ∃ g0 ∈ old, g0.feat = g.feat ∧ g0.quality = g.quality := by
  rw [galleryUpdate_eq]
  have hmem : ∀ g ∈ keptSorted old, g.box = false ∧ g.feat ≠ 0 ∧ ∃ g0 ∈ old, g0.feat = g.feat ∧ g0.quality = g.quality := by
    intro g hg
    have := (mergeSort_perm _ _).subset hg
    obtain ⟨g0, hg0, rfl⟩ := mem_map.mp this
    have hf := (mem_filter.mp hg0)
    exact ⟨rfl, by simpa using hf.2, g0, hf.1, rfl, rfl⟩
  have hcutmem : ∀ g ∈ (if (keptSorted old).length ≥ maxObs then (keptSorted old).dropLast else keptSorted old), g ∈ keptSorted old := by
    intro g hg
    split at hg
    · exact (dropLast_sublist _).subset hg
    · exact hg
  generalize (if (keptSorted old).length ≥ maxObs then (keptSorted old).dropLast else keptSorted old) = cut at hcutmem
  cases cut with
  | nil => simp
  | cons a0 rest =>
    refine ⟨rfl, ?_⟩
    intro g hg
    have hg : g ∈ rest ++ [a0] := hg
    simp only [mem_append, mem_singleton] at hg
    rcases hg with hg | rfl
    · exact hmem g (hcutmem g (mem_cons_of_mem _ hg))
    · exact hmem _ (hcutmem _ mem_cons_self)

/-- **Lowest quality evicted first**: when the stored features already fill the gallery, the entry
that is dropped has a quality no larger than every stored feature that is kept. -/
theorem C13_evict (maxObs : Nat) (old : List GE) (hfull : (keptSorted old).length ≥ maxObs)
    (hne : keptSorted old ≠ []) :
    ∀ g ∈ (keptSorted old).dropLast, ((keptSorted old).getLast hne).quality ≤ g.quality := by
  have hsorted : (keptSorted old).Pairwise (fun a b => b.quality ≤ a.quality) := by
    have := pairwise_mergeSort (le := qGE) qGE_trans qGE_total
      ((old.filter (fun g => g.feat != 0)).map (fun g => { g with box := false }))
    simpa [qGE, keptSorted] using this
  intro g hg
  have hsplit := dropLast_concat_getLast hne
  rw [← hsplit] at hsorted
  exact (pairwise_append.mp hsorted).2.2 g hg _ (by simp)

/-- **Collected count and collect thresholds** (one pick of a VisualSORT tracker): the reported
count is the number of stored features; a continuing update stores the detection's feature iff it
meets the collect thresholds; a new track keeps its first feature unconditionally. -/
theorem C13_count_collect (cfg : Cfg) (hv : cfg.visual = true) (scene e : Nat) (st st' : St) (d : Det) (p : Pick) (r : Rec)
    (h : applyPick cfg scene e st d p = some (st', r)) :
    (∀ tid vis, p = .cont tid vis → ∃ t t', findLive st tid = some t ∧ t' ∈ st'.live ∧ t'.id = t.id ∧
        t'.gallery = galleryUpdate cfg.maxObs t.gallery { quality := d.quality, feat := if d.collectOk then d.feat else 0, box := true } ∧
        t'.vcount = featCount t'.gallery ∧ t'.featH = pushBounded t.featH d.feat cfg.histLen) ∧
    (∀ id, p = .fresh id → ∃ t' ∈ st'.live, t'.id = id ∧ t'.gallery = [{ quality := d.quality, feat := d.feat, box := true }] ∧
        t'.vcount = featCount t'.gallery ∧ t'.featH = [d.feat]) := by
  unfold applyPick at h
  cases p with
  | cont tid vis =>
    refine ⟨?_, (fun id hp => by cases hp)⟩
    intro tid' vis' hp
    injection hp with hp1 hp2
    subst hp1; subst hp2
    simp only at h
    cases hf : findLive (if cfg.batchIds = true then { st with nextId := st.nextId + 1 } else st) tid with
    | none => simp [hf] at h
    | some t =>
      have hf' : findLive st tid = some t := by split at hf <;> exact hf
      simp only [hf, Option.some.injEq, Prod.mk.injEq] at h
      obtain ⟨h1, _⟩ := h
      subst h1
      have hid := findLive_id st tid t hf'
      have hmem := findLive_mem st tid t hf'
      refine ⟨t, _, hf', mem_map.mpr ⟨t, ?_, rfl⟩, ?_, ?_, ?_, ?_⟩
      · split <;> exact hmem
      all_goals simp [hid, hv]
  | fresh id =>
    refine ⟨(fun tid vis hp => by cases hp), ?_⟩
    intro id' hp
    injection hp with hp
    subst hp
    simp only [Option.some.injEq, Prod.mk.injEq] at h
    obtain ⟨h1, _⟩ := h
    subst h1
    refine ⟨_, mem_append_right _ (mem_singleton_self _), ?_, ?_, ?_, ?_⟩
    all_goals simp [hv]

/-- the last `n` entries of a list -/
def lastN (n : Nat) (l : List Nat) : List Nat := l.drop (l.length - n)

theorem push_lastN (n : Nat) (hn : 0 < n) (h : List Nat) (x : Nat) :
    pushBounded (lastN n h) x n = lastN n (h ++ [x]) := by
  unfold pushBounded lastN
  simp only [length_append, length_singleton, length_drop]
  by_cases hc : h.length < n
  · have h0 : h.length - n = 0 := by omega
    have h1 : h.length + 1 - n = 0 := by omega
    simp only [h0, h1, drop_zero, Nat.sub_zero]
    have h2 : ¬ (h.length + 1 > n) := by omega
    simp [h2]
  · have h3 : h.length - (h.length - n) = n := by omega
    have h2 : h.length - (h.length - n) + 1 > n := by omega
    simp only [hn, decide_true, h2, Bool.and_self, if_true]
    rw [show h.length + 1 - n = (h.length - n) + 1 by omega]
    rw [← drop_drop, drop_append_of_le_length (Nat.sub_le _ _)]

/-- **Bounded histories**: after pushing `xs` one by one a history of bound `n > 0` holds exactly the
last `min xs.length n` entries, in arrival order… -/
theorem C13_history (n : Nat) (hn : 0 < n) (xs : List Nat) :
    xs.foldl (fun h x => pushBounded h x n) [] = xs.drop (xs.length - n) := by
  have key : ∀ (xs h : List Nat),
      xs.foldl (fun h x => pushBounded h x n) (lastN n h) = lastN n (h ++ xs) := by
    intro xs
    induction xs with
    | nil => intro h; simp
    | cons x xs ih =>
      intro h
      simp only [foldl_cons]
      rw [push_lastN n hn, ih]
      simp
  have := key xs []
  simpa [lastN] using this

theorem C13_history_length (n : Nat) (xs : List Nat) : (xs.drop (xs.length - n)).length = min xs.length n := by
  simp only [length_drop]; omega

/-- … and its last entry is the one pushed last (the entry echoed in the record). -/
theorem C13_history_last (h : List Nat) (x n : Nat) : (pushBounded h x n).getLast? = some x := by
  unfold pushBounded
  simp only
  split
  · rename_i hc
    cases h with
    | nil => simp at hc; omega
    | cons a t => simp
  · simp

/-! ### non-vacuity: a full gallery of three evicts its lowest quality -/
example : (galleryUpdate 3 [⟨9, 7, false⟩, ⟨5, 11, true⟩, ⟨2, 5, false⟩] ⟨7, 12, true⟩).map (·.feat) = [12, 11, 7] := by
  have hk : keptSorted [⟨9, 7, false⟩, ⟨5, 11, true⟩, ⟨2, 5, false⟩] = [⟨9, 7, false⟩, ⟨5, 11, false⟩, ⟨2, 5, false⟩] := by
    unfold keptSorted
    apply mergeSort_of_pairwise
    decide +kernel
  rw [galleryUpdate_eq, hk]
  rfl

end SimVerif.C13
