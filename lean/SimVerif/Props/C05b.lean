import SimVerif.Props.C02
import SimVerif.Lemmas.Voting
import SimVerif.Lemmas.AssignPerm
import Mathlib.Data.List.Perm.Basic
import Mathlib.Data.List.Nodup
/-!
# C05 — the optimum of the association reads the distance table as a multiset
Model: `SimVerif.AssignX`. Helper lemmas: `SimVerif/Lemmas/AssignPerm.lean`.
-/
namespace SimVerif.C05
open SimVerif.AssignX SimVerif.Voting List

/-- no (detection, track) pair occurs twice in the table (the trackers compute one distance per pair) -/
def PairsNodup (s : List Entry) : Prop := (s.map (fun e => (e.q, e.t))).Nodup

/-- with distinct pairs the stored weight of a pair does not depend on the order of the table -/
theorem weightOf_perm (s₁ s₂ : List Entry) (h : s₁ ~ s₂) (hnd : PairsNodup s₁) (q t : Nat) :
    weightOf s₁ q t = weightOf s₂ q t := by
  have hnd2 : PairsNodup s₂ := (h.map _).nodup_iff.mp hnd
  by_cases hex : ∃ e ∈ s₁, e.q = q ∧ e.t = t
  · obtain ⟨e, he, rfl, rfl⟩ := hex
    rw [C05L.weightOf_of_mem s₁ hnd e he, C05L.weightOf_of_mem s₂ hnd2 e (h.mem_iff.mp he)]
  · have h1 : ∀ e ∈ s₁, ¬ (e.q = q ∧ e.t = t) := fun e he hc => hex ⟨e, he, hc⟩
    rw [C05L.weightOf_of_not_mem s₁ q t h1,
      C05L.weightOf_of_not_mem s₂ q t (fun e he => h1 e (h.mem_iff.mpr he))]

/-- the detections and the tracks of a permuted table are permutations of the original ones -/
theorem queries_perm (s₁ s₂ : List Entry) (h : s₁ ~ s₂) : queries s₁ ~ queries s₂ := by
  apply (perm_ext_iff_of_nodup (firsts_nodup _) (firsts_nodup _)).mpr
  intro a
  rw [mem_firsts, mem_firsts]
  exact (h.map _).mem_iff

theorem tracks_perm (s₁ s₂ : List Entry) (h : s₁ ~ s₂) : tracks s₁ ~ tracks s₂ := by
  apply (perm_ext_iff_of_nodup (firsts_nodup _) (firsts_nodup _)).mpr
  intro a
  rw [mem_firsts, mem_firsts]
  exact (h.map _).mem_iff

/-- the enumeration is sound: each of its members is a one-to-one partial assignment into `ts` -/
theorem allAssign_sound (qs ts : List Nat) (hts : ts.Nodup) (a : List (Option Nat)) (h : a ∈ allAssign qs ts) :
    a.length = qs.length ∧ (∀ x ∈ a.filterMap id, x ∈ ts) ∧ (a.filterMap id).Nodup := by
  induction qs generalizing ts a with
  | nil =>
    simp only [allAssign, mem_singleton] at h
    subst h
    simp
  | cons q qs ih =>
    simp only [allAssign, mem_append, mem_map, mem_flatMap] at h
    rcases h with ⟨r, hr, rfl⟩ | ⟨t, ht, r, hr, rfl⟩
    · obtain ⟨h1, h2, h3⟩ := ih ts hts r hr
      refine ⟨by simp [h1], ?_, ?_⟩
      · simpa using h2
      · simpa using h3
    · obtain ⟨h1, h2, h3⟩ := ih (ts.filter (· != t)) (hts.filter _) r hr
      have h2' : ∀ x ∈ r.filterMap id, x ∈ ts ∧ x ≠ t := by
        intro x hx
        have := h2 x hx
        simpa using this
      refine ⟨by simp [h1], ?_, ?_⟩
      · intro x hx
        simp only [filterMap_cons, id_eq, mem_cons] at hx
        rcases hx with rfl | hx
        · exact ht
        · exact (h2' x hx).1
      · simp only [filterMap_cons, id_eq, nodup_cons]
        exact ⟨fun hm => (h2' t hm).2 rfl, h3⟩

/-- the optimum is attained by a member of the enumeration -/
theorem best_attained (s : List Entry) (thr : Int) :
    ∃ a ∈ allAssign (queries s) (tracks s), objective s thr (queries s) a = best s thr := by
  have hnone : (queries s).map (fun _ => (none : Option Nat)) ∈ allAssign (queries s) (tracks s) :=
    C02.mem_allAssign _ _ (firsts_nodup _) _ (by simp)
      (by rw [C05L.filterMap_id_map_none]; intro x hx; cases hx)
      (by rw [C05L.filterMap_id_map_none]; exact nodup_nil)
  unfold best
  rcases C05L.foldl_max_mem ((allAssign (queries s) (tracks s)).map (objective s thr (queries s)))
      (objective s thr (queries s) ((queries s).map (fun _ => none))) with h | h
  · exact ⟨_, hnone, h.symm⟩
  · obtain ⟨a, ha, hao⟩ := mem_map.mp h
    exact ⟨a, ha, hao⟩

/-- re-reading an assignment of `s₁` along the detection order of `s₂` gives an assignment of `s₂`
with the same objective -/
theorem transport (s₁ s₂ : List Entry) (h : s₁ ~ s₂) (hnd : PairsNodup s₁) (thr : Int)
    (a₁ : List (Option Nat)) (hmem : a₁ ∈ allAssign (queries s₁) (tracks s₁)) :
    (queries s₂).map (C05L.reread (queries s₁) a₁) ∈ allAssign (queries s₂) (tracks s₂) ∧
    objective s₂ thr (queries s₂) ((queries s₂).map (C05L.reread (queries s₁) a₁)) =
      objective s₁ thr (queries s₁) a₁ := by
  obtain ⟨hlen, hin, hnda⟩ := allAssign_sound _ _ (firsts_nodup _) a₁ hmem
  have hq : (queries s₁).Nodup := firsts_nodup _
  have hz := C05L.zip_reread_perm (queries s₁) (queries s₂) a₁ hq hlen (queries_perm s₁ s₂ h)
  have ha : (queries s₂).map (C05L.reread (queries s₁) a₁) ~ a₁ := by
    have := hz.map Prod.snd
    rwa [map_snd_zip (by simp), map_snd_zip (by omega)] at this
  have hf := ha.filterMap id
  refine ⟨?_, ?_⟩
  · apply C02.mem_allAssign _ _ (firsts_nodup _)
    · simp
    · intro x hx
      exact (tracks_perm s₁ s₂ h).mem_iff.mp (hin x (hf.mem_iff.mp hx))
    · exact hf.nodup_iff.mpr hnda
  · rw [C05L.objective_eq_sum, C05L.objective_eq_sum]
    have hterm : C05L.term s₂ thr = C05L.term s₁ thr := by
      funext p
      rcases p with ⟨q, _ | t⟩
      · rfl
      · exact (weightOf_perm s₁ s₂ h hnd q t).symm
    rw [hterm]
    exact (hz.map _).sum_eq

/-- **The optimum does not depend on the order of the distance table** (distinct pairs). -/
theorem C05_best_perm (s₁ s₂ : List Entry) (h : s₁ ~ s₂) (hnd : PairsNodup s₁) (thr : Int) :
    best s₁ thr = best s₂ thr := by
  have hnd2 : PairsNodup s₂ := (h.map _).nodup_iff.mp hnd
  have key : ∀ (s s' : List Entry), s ~ s' → PairsNodup s → best s thr ≤ best s' thr := by
    intro s s' hp hn
    obtain ⟨a, ha, hab⟩ := best_attained s thr
    obtain ⟨hm, ho⟩ := transport s s' hp hn thr a ha
    obtain ⟨hlen, hin, hnda⟩ := allAssign_sound _ _ (firsts_nodup _) _ hm
    rw [← hab, ← ho]
    exact C02.C02_best_max s' thr _ hlen hin hnda (firsts_nodup _)
  exact Int.le_antisymm (key s₁ s₂ h hnd) (key s₂ s₁ h.symm hnd2)

/-- … and neither does the number of optimal choices being 1 (uniqueness of the optimum is what makes
the outcome of a call schedule independent): stated as the optimum being attained by assignments
that describe the same matching. Every optimal assignment of `s₁`, re-read along the detection
order of `s₂`, is an optimal assignment of `s₂`. -/
theorem C05_optimal_transport (s₁ s₂ : List Entry) (h : s₁ ~ s₂) (hnd : PairsNodup s₁) (thr : Int)
    (a₁ : List (Option Nat)) (ha : a₁ ∈ optimal s₁ thr) :
    (queries s₂).map (fun q => (((queries s₁).zip a₁).find? (fun p => p.1 == q)).bind (·.2)) ∈ optimal s₂ thr := by
  change (queries s₂).map (C05L.reread (queries s₁) a₁) ∈ optimal s₂ thr
  unfold optimal at ha ⊢
  simp only [mem_filter, beq_iff_eq] at ha ⊢
  obtain ⟨hm, ho⟩ := transport s₁ s₂ h hnd thr a₁ ha.1
  exact ⟨hm, by rw [ho, ha.2, C05_best_perm s₁ s₂ h hnd thr]⟩

/-! ### non-vacuity -/
example :
    let s₁ : List Entry := [⟨1, 101, 900000⟩, ⟨1, 102, 800000⟩, ⟨2, 101, 700000⟩]
    let s₂ : List Entry := [⟨2, 101, 700000⟩, ⟨1, 102, 800000⟩, ⟨1, 101, 900000⟩]
    best s₁ 300000 = 1500000 ∧ best s₂ 300000 = 1500000 ∧ queries s₂ = [2, 1] := by
  decide +kernel

end SimVerif.C05
