import SimVerif.Props.C03
import SimVerif.Lemmas.TrackerGC
import Mathlib.Data.List.Perm.Basic
import Mathlib.Data.List.Forall2
/-!
# C03 — the timing of the periodic collection of expired tracks is unobservable
Model: `SimVerif.Tracker`. Helper lemmas: `SimVerif/Lemmas/TrackerGC.lean`.

Two runs of a simple tracker (`cfg.batchIds = false`) over the same calls — except for the
`set_auto_waste` calls, which may differ arbitrarily — report the same records, epochs and idle
lists, and `wasted()` hands out the same tracks (as multisets). `clear_wasted` is not among the
calls: what it drops does depend on whether the collection has already run.
-/
namespace SimVerif.C03
open SimVerif.Tracker List

inductive Op where
  | predict (scene : Nat) (dets : List Det) (table : List Entry) (picks : List Pick)
  | skip (scene n : Nat)
  | wasted
  | idle (scene : Nat)
  | epoch (scene : Nat)
  | setAw (p : Nat)

inductive Out where
  | recs (r : List Rec)
  | invalid                      -- the choice offered for this call is not a valid one
  | unit
  | wasted (ts : List Trk)
  | idle (ts : List Trk)
  | epoch (e : Nat)

/-- one call: new state and what the caller sees -/
def stepOp (cfg : Cfg) (st : St) : Op → St × Out
  | .predict scene dets table picks =>
    match predict cfg st scene dets table picks with
    | some (st', r) => (st', .recs r)
    | none => (st, .invalid)
  | .skip scene n => (skip cfg st scene n, .unit)
  | .wasted => let r := wastedOp cfg st; (r.1, .wasted r.2)
  | .idle scene => (st, .idle (idle cfg st scene))
  | .epoch scene => (st, .epoch (epochOf st scene))
  | .setAw p => (setAutoWaste st p, .unit)

def run (cfg : Cfg) : St → List Op → List Out
  | _, [] => []
  | st, op :: ops => (stepOp cfg st op).2 :: run cfg (stepOp cfg st op).1 ops

/-- what a caller can tell apart: `wasted()` results are compared as multisets -/
def OutEq : Out → Out → Prop
  | .recs a, .recs b => a = b
  | .invalid, .invalid => True
  | .unit, .unit => True
  | .wasted a, .wasted b => a ~ b
  | .idle a, .idle b => a = b
  | .epoch a, .epoch b => a = b
  | _, _ => False

/-- two states a caller cannot tell apart: same epochs and id counter, the same unexpired live tracks
in the same order, the same tracks expired-or-collected (as a multiset); the countdown of the
periodic collection is free. Track ids are unique. -/
def Equiv (cfg : Cfg) (a b : St) : Prop :=
  a.epochs = b.epochs ∧ a.nextId = b.nextId ∧
  (collect cfg a).live = (collect cfg b).live ∧ (collect cfg a).wasted ~ (collect cfg b).wasted ∧
  ((a.live ++ a.wasted).map (·.id)).Nodup ∧ ((b.live ++ b.wasted).map (·.id)).Nodup ∧
  (∀ t ∈ a.live ++ a.wasted, t.id ≤ a.nextId) ∧ (∀ t ∈ b.live ++ b.wasted, t.id ≤ b.nextId)

/-! ### helper lemmas -/

/-- `Equiv` in terms of the simulation invariant: same epochs, and the states agree on the unexpired
live tracks and hold the same tracks overall -/
theorem equiv_iff (cfg : Cfg) (a b : St) :
    Equiv cfg a b ↔ a.epochs = b.epochs ∧ Inv (fun t => !expired cfg a t) a b := by
  have hlb : a.epochs = b.epochs → (collect cfg b).live = b.live.filter (fun t => !expired cfg a t) := by
    intro he
    show b.live.filter (fun t => !expired cfg b t) = _
    rw [expired_congr cfg a b he]
  constructor
  · rintro ⟨he, hn, hl, hw, nda, _, bda, _⟩
    refine ⟨he, hn, ?_, ?_, nda, bda⟩
    · rw [← hlb he]; exact hl
    · have h1 : (collect cfg a).live ++ (collect cfg a).wasted ~ (collect cfg b).live ++ (collect cfg b).wasted := by
        rw [hl]; exact Perm.append_left _ hw
      exact (collect_perm cfg a).symm.trans (h1.trans (collect_perm cfg b))
  · rintro ⟨he, h⟩
    have hs := h.symm
    have hl : (collect cfg a).live = (collect cfg b).live := by
      rw [hlb he]; exact h.live
    refine ⟨he, h.nid, hl, ?_, h.nd, hs.nd, h.bd, hs.bd⟩
    have h1 : (collect cfg a).live ++ (collect cfg a).wasted ~ (collect cfg a).live ++ (collect cfg b).wasted := by
      have := (collect_perm cfg a).trans (h.perm.trans (collect_perm cfg b).symm)
      rw [← hl] at this
      exact this
    exact (perm_append_left_iff _).mp h1

theorem Equiv.symm {cfg : Cfg} {a b : St} (h : Equiv cfg a b) : Equiv cfg b a := by
  obtain ⟨he, hi⟩ := (equiv_iff cfg a b).mp h
  refine (equiv_iff cfg b a).mpr ⟨he.symm, ?_⟩
  rw [← expired_congr cfg a b he]
  exact hi.symm

theorem Equiv.trans {cfg : Cfg} {a b c : St} (h1 : Equiv cfg a b) (h2 : Equiv cfg b c) : Equiv cfg a c := by
  obtain ⟨he1, hi1⟩ := (equiv_iff cfg a b).mp h1
  obtain ⟨he2, hi2⟩ := (equiv_iff cfg b c).mp h2
  refine (equiv_iff cfg a c).mpr ⟨he1.trans he2, ?_⟩
  rw [← expired_congr cfg a b he1] at hi2
  exact hi1.trans hi2

/-- only `epochs`, `live`, `wasted`, `nextId` matter -/
theorem equiv_fields (cfg : Cfg) (a b : St) (he : a.epochs = b.epochs) (hl : a.live = b.live)
    (hw : a.wasted = b.wasted) (hn : a.nextId = b.nextId) (hnd : ((a.live ++ a.wasted).map (·.id)).Nodup)
    (hb : ∀ t ∈ a.live ++ a.wasted, t.id ≤ a.nextId) : Equiv cfg a b := by
  refine (equiv_iff cfg a b).mpr ⟨he, hn, ?_, ?_, hnd, hb⟩
  · rw [hl]
  · rw [hl, hw]

theorem equiv_collect_self (cfg : Cfg) (a : St) (hnd : ((a.live ++ a.wasted).map (·.id)).Nodup)
    (hb : ∀ t ∈ a.live ++ a.wasted, t.id ≤ a.nextId) : Equiv cfg a (collect cfg a) := by
  refine (equiv_iff cfg a _).mpr ⟨rfl, rfl, ?_, (collect_perm cfg a).symm, hnd, hb⟩
  show a.live.filter _ = (a.live.filter _).filter _
  rw [filter_filter]
  apply filter_congr
  intro t _
  simp

theorem equiv_awStep (cfg : Cfg) (a : St) (hnd : ((a.live ++ a.wasted).map (·.id)).Nodup)
    (hb : ∀ t ∈ a.live ++ a.wasted, t.id ≤ a.nextId) : Equiv cfg a (awStep cfg a) := by
  unfold awStep
  split
  · have h := equiv_collect_self cfg a hnd hb
    refine h.trans ?_
    obtain ⟨_, _, _, _, _, nd, _, bd⟩ := h
    exact equiv_fields cfg _ _ rfl rfl rfl rfl nd bd
  · exact equiv_fields cfg _ _ rfl rfl rfl rfl hnd hb

theorem equiv_collect (cfg : Cfg) (a b : St) (h : Equiv cfg a b) : Equiv cfg (collect cfg a) (collect cfg b) := by
  obtain ⟨_, _, _, _, nda, ndb, bda, bdb⟩ := id h
  exact (equiv_collect_self cfg a nda bda).symm.trans (h.trans (equiv_collect_self cfg b ndb bdb))

/-- advancing the epoch of a scene in both states -/
theorem equiv_setEpoch (cfg : Cfg) (a b : St) (h : Equiv cfg a b) (s e : Nat) (hle : epochOf a s ≤ e) :
    Equiv cfg (setEpoch a s e) (setEpoch b s e) := by
  obtain ⟨he, hi⟩ := (equiv_iff cfg a b).mp h
  refine (equiv_iff cfg _ _).mpr ⟨?_, ?_⟩
  · show a.epochs.filter _ ++ _ = b.epochs.filter _ ++ _
    rw [he]
  · have hm := hi.mono (q' := fun t => !expired cfg (setEpoch a s e) t) (by
      intro t ht
      simp only [expired, epochOf_setEpoch, Bool.not_eq_true', decide_eq_false_iff_not] at ht ⊢
      split at ht <;> rename_i hs
      · rw [hs]; omega
      · exact ht)
    exact ⟨hm.nid, hm.live, hm.perm, hm.nd, hm.bd⟩

theorem idle_congr (cfg : Cfg) (a b : St) (he : a.epochs = b.epochs) (hl : a.live = b.live) (scene : Nat) :
    idle cfg a scene = idle cfg b scene := by
  unfold idle
  rw [hl, expired_congr cfg a b he, epochOf_congr a b he]

theorem equiv_predict (cfg : Cfg) (hb : cfg.batchIds = false) (a b : St) (h : Equiv cfg a b)
    (scene : Nat) (dets : List Det) (table : List Entry) (picks : List Pick) (a' : St) (recs : List Rec)
    (ha : predict cfg a scene dets table picks = some (a', recs)) :
    ∃ b', predict cfg b scene dets table picks = some (b', recs) ∧ Equiv cfg a' b' := by
  obtain ⟨_, _, _, _, nda, ndb, bda, bdb⟩ := id h
  have h1 : Equiv cfg (awStep cfg a) (awStep cfg b) :=
    (equiv_awStep cfg a nda bda).symm.trans (h.trans (equiv_awStep cfg b ndb bdb))
  have h2 := equiv_setEpoch cfg _ _ h1 scene (epochOf (awStep cfg a) scene + 1) (by omega)
  obtain ⟨he, hi⟩ := (equiv_iff cfg _ _).mp h2
  obtain ⟨he1, _⟩ := (equiv_iff cfg _ _).mp h1
  have hi' : Inv (fun t => !expired cfg (setEpoch (awStep cfg a) scene (epochOf (awStep cfg a) scene + 1)) t)
      (awStep cfg a) (awStep cfg b) := ⟨hi.nid, hi.live, hi.perm, hi.nd, hi.bd⟩
  obtain ⟨b', hb', ea, eb, hinv⟩ := predictScene_sim cfg hb _ _ he1 scene hi' dets table picks a' recs ha
  refine ⟨b', hb', (equiv_iff cfg _ _).mpr ⟨eb.symm, ?_⟩⟩
  rw [expired_congr cfg a' _ ea]
  exact hinv

theorem equiv_refl (cfg : Cfg) (a : St) (hnd : ((a.live ++ a.wasted).map (·.id)).Nodup)
    (hb : ∀ t ∈ a.live ++ a.wasted, t.id ≤ a.nextId) : Equiv cfg a a := by
  exact equiv_fields cfg a a rfl rfl rfl rfl hnd hb

/-- the countdown fields do not matter -/
theorem equiv_aw (cfg : Cfg) (a : St) (p c : Nat) (hnd : ((a.live ++ a.wasted).map (·.id)).Nodup)
    (hb : ∀ t ∈ a.live ++ a.wasted, t.id ≤ a.nextId) :
    Equiv cfg a { a with awPeriod := p, awCounter := c } := by
  exact equiv_fields cfg a _ rfl rfl rfl rfl hnd hb

theorem equiv_wastedOp (cfg : Cfg) (a b : St) (h : Equiv cfg a b) :
    Equiv cfg (wastedOp cfg a).1 (wastedOp cfg b).1 := by
  obtain ⟨he, hn, hl, _, nda, _, bda, _⟩ := id h
  refine (equiv_iff cfg _ _).mpr ⟨he, hn, ?_, ?_, ?_, ?_⟩
  · show (collect cfg a).live.filter _ = (collect cfg b).live.filter _
    rw [hl]
  · show (collect cfg a).live ++ [] ~ (collect cfg b).live ++ []
    rw [hl]
  · show (((collect cfg a).live ++ []).map (fun t : Trk => t.id)).Nodup
    have := (((collect_perm cfg a).map (fun t : Trk => t.id)).nodup_iff).mpr nda
    rw [map_append] at this
    rw [append_nil]
    exact this.of_append_left
  · intro t ht
    have ht' : t ∈ (collect cfg a).live ++ [] := ht
    rw [append_nil] at ht'
    exact bda t ((collect_perm cfg a).mem_iff.mp (mem_append_left _ ht'))

/-- **One call**: indistinguishable states stay indistinguishable and answer alike. -/
theorem step_equiv (cfg : Cfg) (hb : cfg.batchIds = false) (a b : St) (h : Equiv cfg a b) (op : Op) :
    OutEq (stepOp cfg a op).2 (stepOp cfg b op).2 ∧ Equiv cfg (stepOp cfg a op).1 (stepOp cfg b op).1 := by
  obtain ⟨he, hn, hl, hw, nda, ndb, bda, bdb⟩ := id h
  cases op with
  | predict scene dets table picks =>
    simp only [stepOp]
    cases ha : predict cfg a scene dets table picks with
    | some x =>
      obtain ⟨a', r⟩ := x
      obtain ⟨b', hb', heq⟩ := equiv_predict cfg hb a b h scene dets table picks a' r ha
      rw [hb']
      exact ⟨rfl, heq⟩
    | none =>
      cases hb2 : predict cfg b scene dets table picks with
      | some y =>
        obtain ⟨b', r⟩ := y
        obtain ⟨a', ha', _⟩ := equiv_predict cfg hb b a h.symm scene dets table picks b' r hb2
        rw [ha] at ha'
        cases ha'
      | none => exact ⟨trivial, h⟩
  | skip scene n =>
    refine ⟨trivial, ?_⟩
    show Equiv cfg (skip cfg a scene n) (skip cfg b scene n)
    unfold skip
    rw [← epochOf_congr a b he scene]
    exact equiv_collect cfg _ _ (equiv_setEpoch cfg a b h scene _ (by omega))
  | wasted =>
    refine ⟨hw, ?_⟩
    exact equiv_wastedOp cfg a b h
  | idle scene =>
    refine ⟨?_, h⟩
    show idle cfg a scene = idle cfg b scene
    rw [← (C03_idle cfg a scene).1, ← (C03_idle cfg b scene).1]
    exact idle_congr cfg (collect cfg a) (collect cfg b) he hl scene
  | epoch scene => exact ⟨epochOf_congr a b he scene, h⟩
  | setAw p =>
    refine ⟨trivial, ?_⟩
    exact (equiv_aw cfg a p 0 nda bda).symm.trans (h.trans (equiv_aw cfg b p 0 ndb bdb))

/-- **Whole histories, same calls**, from indistinguishable states (in particular: from the same
state with different countdown settings). -/
theorem C03_gc_unobservable_same_ops (cfg : Cfg) (hb : cfg.batchIds = false) (a b : St) (h : Equiv cfg a b)
    (ops : List Op) : Forall₂ OutEq (run cfg a ops) (run cfg b ops) := by
  induction ops generalizing a b with
  | nil => exact Forall₂.nil
  | cons op ops ih =>
    obtain ⟨h1, h2⟩ := step_equiv cfg hb a b h op
    exact Forall₂.cons h1 (ih _ _ h2)

def isSetAw : Op → Bool
  | .setAw _ => true
  | _ => false

/-- the answers to the calls other than `set_auto_waste` -/
def visible (cfg : Cfg) : St → List Op → List Out
  | _, [] => []
  | st, op :: ops =>
    if isSetAw op then visible cfg (stepOp cfg st op).1 ops
    else (stepOp cfg st op).2 :: visible cfg (stepOp cfg st op).1 ops

theorem visible_setAw (cfg : Cfg) (st : St) (op : Op) (ops : List Op) (h : isSetAw op = true) :
    visible cfg st (op :: ops) = visible cfg (stepOp cfg st op).1 ops := by
  simp only [visible, h, if_true]

theorem visible_other (cfg : Cfg) (st : St) (op : Op) (ops : List Op) (h : isSetAw op = false) :
    visible cfg st (op :: ops) = (stepOp cfg st op).2 :: visible cfg (stepOp cfg st op).1 ops := by
  simp only [visible, h, Bool.false_eq_true, if_false]

/-- a `set_auto_waste` call on one side only -/
theorem equiv_stepAw_right (cfg : Cfg) (a b : St) (h : Equiv cfg a b) (op : Op) (ho : isSetAw op = true) :
    Equiv cfg a (stepOp cfg b op).1 := by
  obtain ⟨_, _, _, _, _, ndb, _, bdb⟩ := id h
  cases op with
  | setAw p => exact h.trans (equiv_aw cfg b p 0 ndb bdb)
  | predict _ _ _ _ => cases ho
  | skip _ _ => cases ho
  | wasted => cases ho
  | idle _ => cases ho
  | epoch _ => cases ho

/-- **GC timing is unobservable**: two histories that differ only in their `set_auto_waste` calls
(anywhere, any periodicities) give the same answers to all other calls. -/
theorem C03_gc_unobservable (cfg : Cfg) (hb : cfg.batchIds = false) (a b : St) (h : Equiv cfg a b)
    (ops₁ ops₂ : List Op) (hops : ops₁.filter (fun o => !isSetAw o) = ops₂.filter (fun o => !isSetAw o)) :
    Forall₂ OutEq (visible cfg a ops₁) (visible cfg b ops₂) := by
  induction ops₁ generalizing ops₂ a b with
  | nil =>
    induction ops₂ generalizing b with
    | nil => exact Forall₂.nil
    | cons o₂ r₂ ih₂ =>
      cases ho : isSetAw o₂ with
      | true =>
        rw [visible_setAw cfg b o₂ r₂ ho]
        apply ih₂ _ (equiv_stepAw_right cfg a b h o₂ ho)
        rw [filter_cons] at hops
        simpa [ho] using hops
      | false =>
        rw [filter_cons] at hops
        simp [ho] at hops
  | cons o₁ r₁ ih₁ =>
    cases ho₁ : isSetAw o₁ with
    | true =>
      rw [visible_setAw cfg a o₁ r₁ ho₁]
      apply ih₁ _ b (equiv_stepAw_right cfg b a h.symm o₁ ho₁).symm
      rw [filter_cons] at hops
      simpa [ho₁] using hops
    | false =>
      induction ops₂ generalizing b with
      | nil =>
        rw [filter_cons] at hops
        simp [ho₁] at hops
      | cons o₂ r₂ ih₂ =>
        cases ho₂ : isSetAw o₂ with
        | true =>
          rw [visible_setAw cfg b o₂ r₂ ho₂]
          apply ih₂ _ (equiv_stepAw_right cfg a b h o₂ ho₂)
          rw [filter_cons (x := o₂)] at hops
          simpa [ho₂] using hops
        | false =>
          rw [filter_cons, filter_cons (x := o₂)] at hops
          simp only [ho₁, ho₂, Bool.not_false, if_true, cons.injEq] at hops
          obtain ⟨e1, e2⟩ := hops
          subst e1
          rw [visible_other cfg a o₁ r₁ ho₁, visible_other cfg b o₁ r₂ ho₁]
          obtain ⟨h1, h2⟩ := step_equiv cfg hb a b h o₁
          exact Forall₂.cons h1 (ih₁ _ _ h2 r₂ e2)

end SimVerif.C03
