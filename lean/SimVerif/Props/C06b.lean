import SimVerif.Props.C03b
import Mathlib.Data.List.Perm.Basic
import SimVerif.Lemmas.TrackerBatch
/-!
# C06 — the scenes of one batch may be processed in any order
Model: `SimVerif.Tracker`. Helper lemmas: `SimVerif/Lemmas/TrackerBatch.lean`.

The voting threads of a batch tracker work on the scenes of one batch concurrently; each scene's
job is one `predictScene` step (the same step the simple trackers take) with ids drawn from the
batch's range. The model runs the jobs one after the other (`batchScenes`); these theorems say
that the order does not matter.
-/
namespace SimVerif.C06
open SimVerif.Tracker List

/-- two tracker states that agree up to the order in which scenes and tracks were entered -/
def StEq (a b : St) : Prop :=
  (∀ s, epochOf a s = epochOf b s) ∧ a.live ~ b.live ∧ a.wasted = b.wasted ∧ a.nextId = b.nextId ∧
  a.awPeriod = b.awPeriod ∧ a.awCounter = b.awCounter ∧ a.handed = b.handed ∧ a.cleared = b.cleared

theorem StEq.refl (a : St) : StEq a a := by
  exact ⟨fun _ => rfl, Perm.refl _, rfl, rfl, rfl, rfl, rfl, rfl⟩

theorem StEq.trans {a b c : St} (h1 : StEq a b) (h2 : StEq b c) : StEq a c := by
  obtain ⟨x1, x2, x3, x4, x5, x6, x7, x8⟩ := h1
  obtain ⟨y1, y2, y3, y4, y5, y6, y7, y8⟩ := h2
  exact ⟨fun s => (x1 s).trans (y1 s), x2.trans y2, x3.trans y3, x4.trans y4, x5.trans y5, x6.trans y6,
    x7.trans y7, x8.trans y8⟩

theorem StEq.nodup {a b : St} (h : StEq a b) (hu : (a.live.map (·.id)).Nodup) : (b.live.map (·.id)).Nodup :=
  ((h.2.1.map (·.id)).nodup_iff).mp hu

/-- one scene job gives the same records from states that agree up to order (track ids unique) -/
theorem predictScene_congr (cfg : Cfg) (a b : St) (hab : StEq a b) (hu : (a.live.map (·.id)).Nodup)
    (scene : Nat) (dets : List Det) (table : List Entry) (picks : List Pick) (lo hi : Nat)
    (st₁ : St) (recs : List Rec) (h : predictScene cfg a scene dets table picks lo hi = some (st₁, recs)) :
    ∃ st₂, predictScene cfg b scene dets table picks lo hi = some (st₂, recs) ∧ StEq st₁ st₂ := by
  obtain ⟨he, hl, hw, hn, hp1, hp2, hh, hc⟩ := hab
  have hnb : (b.live.map (·.id)).Nodup := ((hl.map (·.id)).nodup_iff).mp hu
  obtain ⟨_, hf, _⟩ := C01.predictScene_parts cfg a st₁ scene dets table picks lo hi recs h
  -- the id check passes in `b`
  have hfb : freshIdsOk cfg (setEpoch b scene (epochOf b scene + 1)) lo hi picks = true := by
    cases hb : cfg.batchIds with
    | false =>
      rw [← hf]
      exact (simple_fresh_congr cfg hb _ _ hn lo hi picks).symm
    | true =>
      obtain ⟨f1, f2⟩ := (batch_fresh_iff cfg hb _ lo hi picks).mp hf
      refine (batch_fresh_iff cfg hb _ lo hi picks).mpr ⟨fun id hid => ?_, f2⟩
      obtain ⟨g1, g2, g3⟩ := f1 id hid
      refine ⟨g1, g2, fun hm => g3 ?_⟩
      exact (hl.map (·.id)).mem_iff.mpr hm
  obtain ⟨st₂, h2, hperm⟩ := scene_sim cfg scene (fun _ => true) (fun _ _ _ => rfl) (fun _ _ => rfl) a b hu hnb
    (by rw [filter_true, filter_true]; exact hl) (he scene) dets table picks lo hi hfb
    (fun _ _ _ _ hs => by cases hs) st₁ recs h
  rw [filter_true, filter_true] at hperm
  obtain ⟨a1, a2, a3, a4, a5, a6, _⟩ := scene_fields cfg scene a st₁ dets table picks lo hi recs h
  obtain ⟨b1, b2, b3, b4, b5, b6, _⟩ := scene_fields cfg scene b st₂ dets table picks lo hi recs h2
  refine ⟨st₂, h2, ?_, hperm, ?_, ?_, ?_, ?_, ?_, ?_⟩
  · intro s
    rw [scene_epoch cfg scene a st₁ dets table picks lo hi recs h s,
      scene_epoch cfg scene b st₂ dets table picks lo hi recs h2 s, he scene, he s]
  · rw [a1, b1, hw]
  · rw [a6, b6, hn]
  · rw [a4, b4, hp1]
  · rw [a5, b5, hp2]
  · rw [a2, b2, hh]
  · rw [a3, b3, hc]

/-- two jobs of different scenes commute -/
theorem predictScene_comm (cfg : Cfg) (hb : cfg.batchIds = true) (a : St) (hu : (a.live.map (·.id)).Nodup)
    (s₁ s₂ : Nat) (hne : s₁ ≠ s₂) (d₁ d₂ : List Det) (t₁ t₂ : List Entry) (p₁ p₂ : List Pick) (lo hi : Nat)
    (m st : St) (r₁ r₂ : List Rec)
    (h₁ : predictScene cfg a s₁ d₁ t₁ p₁ lo hi = some (m, r₁))
    (h₂ : predictScene cfg m s₂ d₂ t₂ p₂ lo hi = some (st, r₂)) :
    ∃ m' st', predictScene cfg a s₂ d₂ t₂ p₂ lo hi = some (m', r₂) ∧
      predictScene cfg m' s₁ d₁ t₁ p₁ lo hi = some (st', r₁) ∧ StEq st st' := by
  -- the two scene predicates
  have hne' : s₂ ≠ s₁ := fun h => hne h.symm
  have hσ₁ : ∀ t t' : Trk, t.scene = t'.scene → (t.scene == s₁) = (t'.scene == s₁) := fun t t' h => by rw [h]
  have hσ₂ : ∀ t t' : Trk, t.scene = t'.scene → (t.scene == s₂) = (t'.scene == s₂) := fun t t' h => by rw [h]
  have hs₁ : ∀ t : Trk, t.scene = s₁ → (t.scene == s₁) = true := fun t h => by simp [h]
  have hs₂ : ∀ t : Trk, t.scene = s₂ → (t.scene == s₂) = true := fun t h => by simp [h]
  have hq12 : ∀ t : Trk, t.scene = s₁ → (t.scene == s₂) = false := fun t h => by simp [h, hne]
  have hq21 : ∀ t : Trk, t.scene = s₂ → (t.scene == s₁) = false := fun t h => by simp [h, hne']
  -- job 1 from `a`, job 2 from `m`: ids
  have hum := scene_nodup cfg hb s₁ a m hu d₁ t₁ p₁ lo hi r₁ h₁
  obtain ⟨f1, f1nd⟩ := scene_fresh cfg hb s₁ a m d₁ t₁ p₁ lo hi r₁ h₁
  obtain ⟨f2, f2nd⟩ := scene_fresh cfg hb s₂ m st d₂ t₂ p₂ lo hi r₂ h₂
  have idsm := (scene_fields cfg s₁ a m d₁ t₁ p₁ lo hi r₁ h₁).2.2.2.2.2.2
  have f2a : ∀ id ∈ C01.freshIds p₂, id ∉ a.live.map (·.id) := fun id hid hm =>
    (f2 id hid).2.2 (by rw [idsm]; exact mem_append_left _ hm)
  have f12 : ∀ id ∈ C01.freshIds p₁, id ∉ C01.freshIds p₂ := fun id hid h2 =>
    (f2 id h2).2.2 (by rw [idsm]; exact mem_append_right _ hid)
  -- job 2 from `a`
  have hfb2 : freshIdsOk cfg (setEpoch a s₂ (epochOf a s₂ + 1)) lo hi p₂ = true :=
    (batch_fresh_iff cfg hb _ lo hi p₂).mpr ⟨fun id hid => ⟨(f2 id hid).1, (f2 id hid).2.1, f2a id hid⟩, f2nd⟩
  have hem : epochOf m s₂ = epochOf a s₂ := by
    rw [scene_epoch cfg s₁ a m d₁ t₁ p₁ lo hi r₁ h₁ s₂, if_neg hne']
  have hfr12 : m.live.filter (fun t => t.scene == s₂) = a.live.filter (fun t => t.scene == s₂) :=
    scene_frame cfg s₁ _ hq12 a m hu d₁ t₁ p₁ lo hi r₁ h₁
  obtain ⟨m', hm', hp2⟩ := scene_sim cfg s₂ (fun t => t.scene == s₂) hσ₂ hs₂ m a hum hu (by rw [hfr12]) hem
    d₂ t₂ p₂ lo hi hfb2 (fun id hid y hy _ hyid => f2a id hid (mem_map.mpr ⟨y, hy, hyid⟩)) st r₂ h₂
  -- job 1 from `m'`
  have hum' := scene_nodup cfg hb s₂ a m' hu d₂ t₂ p₂ lo hi r₂ hm'
  have idsm' := (scene_fields cfg s₂ a m' d₂ t₂ p₂ lo hi r₂ hm').2.2.2.2.2.2
  have f1m' : ∀ id ∈ C01.freshIds p₁, id ∉ m'.live.map (·.id) := by
    intro id hid hm
    rw [idsm'] at hm
    rcases mem_append.mp hm with hm | hm
    · exact (f1 id hid).2.2 hm
    · exact f12 id hid hm
  have hfb1 : freshIdsOk cfg (setEpoch m' s₁ (epochOf m' s₁ + 1)) lo hi p₁ = true :=
    (batch_fresh_iff cfg hb _ lo hi p₁).mpr ⟨fun id hid => ⟨(f1 id hid).1, (f1 id hid).2.1, f1m' id hid⟩, f1nd⟩
  have hem' : epochOf a s₁ = epochOf m' s₁ := by
    rw [scene_epoch cfg s₂ a m' d₂ t₂ p₂ lo hi r₂ hm' s₁, if_neg hne]
  have hfr21 : m'.live.filter (fun t => t.scene == s₁) = a.live.filter (fun t => t.scene == s₁) :=
    scene_frame cfg s₂ _ hq21 a m' hu d₂ t₂ p₂ lo hi r₂ hm'
  obtain ⟨st', hst', hp1⟩ := scene_sim cfg s₁ (fun t => t.scene == s₁) hσ₁ hs₁ a m' hu hum' (by rw [hfr21]) hem'
    d₁ t₁ p₁ lo hi hfb1 (fun id hid y hy _ hyid => f1m' id hid (mem_map.mpr ⟨y, hy, hyid⟩)) m r₁ h₁
  refine ⟨m', st', hm', hst', ?_⟩
  -- the final states agree up to order
  obtain ⟨a1, a2, a3, a4, a5, a6, _⟩ := scene_fields cfg s₁ a m d₁ t₁ p₁ lo hi r₁ h₁
  obtain ⟨b1, b2, b3, b4, b5, b6, _⟩ := scene_fields cfg s₂ m st d₂ t₂ p₂ lo hi r₂ h₂
  obtain ⟨c1, c2, c3, c4, c5, c6, _⟩ := scene_fields cfg s₂ a m' d₂ t₂ p₂ lo hi r₂ hm'
  obtain ⟨e1, e2, e3, e4, e5, e6, _⟩ := scene_fields cfg s₁ m' st' d₁ t₁ p₁ lo hi r₁ hst'
  refine ⟨?_, ?_, ?_, ?_, ?_, ?_, ?_, ?_⟩
  · intro s
    rw [scene_epoch cfg s₂ m st d₂ t₂ p₂ lo hi r₂ h₂ s, scene_epoch cfg s₁ m' st' d₁ t₁ p₁ lo hi r₁ hst' s,
      ← hem', hem, scene_epoch cfg s₁ a m d₁ t₁ p₁ lo hi r₁ h₁ s, scene_epoch cfg s₂ a m' d₂ t₂ p₂ lo hi r₂ hm' s]
    by_cases x1 : s = s₁
    · subst x1; rw [if_neg hne, if_pos rfl, if_pos rfl]
    · rw [if_neg x1, if_neg x1]
  · -- live lists: scene s₁, scene s₂, the rest
    have hρ1 : ∀ t : Trk, t.scene = s₁ → (!(t.scene == s₁) && !(t.scene == s₂)) = false := fun t h => by simp [h]
    have hρ2 : ∀ t : Trk, t.scene = s₂ → (!(t.scene == s₁) && !(t.scene == s₂)) = false := fun t h => by simp [h]
    have L1 : st.live.filter (fun t => t.scene == s₁) = m.live.filter (fun t => t.scene == s₁) :=
      scene_frame cfg s₂ _ hq21 m st hum d₂ t₂ p₂ lo hi r₂ h₂
    have L2 : st'.live.filter (fun t => t.scene == s₂) = m'.live.filter (fun t => t.scene == s₂) :=
      scene_frame cfg s₁ _ hq12 m' st' hum' d₁ t₁ p₁ lo hi r₁ hst'
    have R1 : st.live.filter (fun t => !(t.scene == s₁) && !(t.scene == s₂)) =
        a.live.filter (fun t => !(t.scene == s₁) && !(t.scene == s₂)) :=
      (scene_frame cfg s₂ _ hρ2 m st hum d₂ t₂ p₂ lo hi r₂ h₂).trans
        (scene_frame cfg s₁ _ hρ1 a m hu d₁ t₁ p₁ lo hi r₁ h₁)
    have R2 : st'.live.filter (fun t => !(t.scene == s₁) && !(t.scene == s₂)) =
        a.live.filter (fun t => !(t.scene == s₁) && !(t.scene == s₂)) :=
      (scene_frame cfg s₁ _ hρ1 m' st' hum' d₁ t₁ p₁ lo hi r₁ hst').trans
        (scene_frame cfg s₂ _ hρ2 a m' hu d₂ t₂ p₂ lo hi r₂ hm')
    have hdis : ∀ t : Trk, (t.scene == s₂) = true → (t.scene == s₁) = false := by
      intro t ht
      exact hq21 t (by simpa using ht)
    refine (split3_perm _ _ hdis st.live).trans (Perm.trans ?_ (split3_perm _ _ hdis st'.live).symm)
    rw [L1, L2, R1, R2]
    exact Perm.append hp1 (Perm.append_right _ hp2)
  · rw [b1, a1, e1, c1]
  · rw [b6, a6, e6, c6]
    simp only [hb, if_true]
    omega
  · rw [b4, a4, e4, c4]
  · rw [b5, a5, e5, c5]
  · rw [b2, a2, e2, c2]
  · rw [b3, a3, e3, c3]

/-! ### sequences of jobs -/

theorem batchScenes_cons_inv (cfg : Cfg) (lo hi : Nat) (x : Nat × List Det × List Entry × List Pick)
    (rest : List (Nat × List Det × List Entry × List Pick)) (a st : St) (out : List (Nat × List Rec))
    (h : batchScenes cfg lo hi (x :: rest) a = some (st, out)) :
    ∃ a' r out', predictScene cfg a x.1 x.2.1 x.2.2.1 x.2.2.2 lo hi = some (a', r) ∧
      batchScenes cfg lo hi rest a' = some (st, out') ∧ out = (x.1, r) :: out' := by
  obtain ⟨scene, dets, table, picks⟩ := x
  simp only [batchScenes] at h
  cases h1 : predictScene cfg a scene dets table picks lo hi with
  | none => simp [h1] at h
  | some y =>
    obtain ⟨a', r⟩ := y
    simp only [h1] at h
    cases h2 : batchScenes cfg lo hi rest a' with
    | none => simp [h2] at h
    | some z =>
      obtain ⟨st2, out'⟩ := z
      simp only [h2, Option.some.injEq, Prod.mk.injEq] at h
      exact ⟨a', r, out', rfl, by rw [← h.1]; exact h2, h.2.symm⟩

theorem batchScenes_cons_eq (cfg : Cfg) (lo hi : Nat) (x : Nat × List Det × List Entry × List Pick)
    (rest : List (Nat × List Det × List Entry × List Pick)) (a a' st : St) (r : List Rec) (out' : List (Nat × List Rec))
    (h1 : predictScene cfg a x.1 x.2.1 x.2.2.1 x.2.2.2 lo hi = some (a', r))
    (h2 : batchScenes cfg lo hi rest a' = some (st, out')) :
    batchScenes cfg lo hi (x :: rest) a = some (st, (x.1, r) :: out') := by
  obtain ⟨scene, dets, table, picks⟩ := x
  simp only [batchScenes]
  simp only at h1
  rw [h1]
  simp only [h2]

/-- the same jobs in the same order from two states that agree up to order -/
theorem batchScenes_congr (cfg : Cfg) (hb : cfg.batchIds = true) (lo hi : Nat)
    (l : List (Nat × List Det × List Entry × List Pick)) (a b : St) (hab : StEq a b)
    (hu : (a.live.map (·.id)).Nodup) (st : St) (out : List (Nat × List Rec))
    (h : batchScenes cfg lo hi l a = some (st, out)) :
    ∃ st₂, batchScenes cfg lo hi l b = some (st₂, out) ∧ StEq st st₂ := by
  induction l generalizing a b out with
  | nil =>
    simp only [batchScenes, Option.some.injEq, Prod.mk.injEq] at h
    obtain ⟨e1, e2⟩ := h
    subst e1; subst e2
    exact ⟨b, rfl, hab⟩
  | cons x rest ih =>
    obtain ⟨a', r, out', h1, h2, ho⟩ := batchScenes_cons_inv cfg lo hi x rest a st out h
    subst ho
    obtain ⟨b', hb1, hab'⟩ := predictScene_congr cfg a b hab hu x.1 x.2.1 x.2.2.1 x.2.2.2 lo hi a' r h1
    have hu' := scene_nodup cfg hb x.1 a a' hu x.2.1 x.2.2.1 x.2.2.2 lo hi r h1
    obtain ⟨st₂, hb2, hst⟩ := ih a' b' hab' hu' out' h2
    exact ⟨st₂, batchScenes_cons_eq cfg lo hi x rest b b' st₂ r out' hb1 hb2, hst⟩

theorem scene_order_aux (cfg : Cfg) (hb : cfg.batchIds = true) (lo hi : Nat)
    (sc₁ sc₂ : List (Nat × List Det × List Entry × List Pick)) (hperm : sc₁ ~ sc₂) :
    (sc₁.map (·.1)).Nodup → ∀ (a : St), (a.live.map (·.id)).Nodup →
    ∀ (st₁ : St) (out₁ : List (Nat × List Rec)), batchScenes cfg lo hi sc₁ a = some (st₁, out₁) →
    ∃ st₂ out₂, batchScenes cfg lo hi sc₂ a = some (st₂, out₂) ∧ out₁ ~ out₂ ∧ StEq st₁ st₂ := by
  induction hperm with
  | nil =>
    intro _ a _ st₁ out₁ h
    exact ⟨st₁, out₁, h, Perm.refl _, StEq.refl _⟩
  | cons x _ ih =>
    intro hd a hu st₁ out₁ h
    obtain ⟨a', r, out', h1, h2, ho⟩ := batchScenes_cons_inv cfg lo hi x _ a st₁ out₁ h
    subst ho
    rw [map_cons, nodup_cons] at hd
    have hu' := scene_nodup cfg hb x.1 a a' hu x.2.1 x.2.2.1 x.2.2.2 lo hi r h1
    obtain ⟨st₂, out₂, g1, g2, g3⟩ := ih hd.2 a' hu' st₁ out' h2
    exact ⟨st₂, (x.1, r) :: out₂, batchScenes_cons_eq cfg lo hi x _ a a' st₂ r out₂ h1 g1, g2.cons _, g3⟩
  | swap x y l =>
    intro hd a hu st₁ out₁ h
    obtain ⟨m, ry, o1, h1, h2, ho1⟩ := batchScenes_cons_inv cfg lo hi y (x :: l) a st₁ out₁ h
    obtain ⟨st, rx, o2, h3, h4, ho2⟩ := batchScenes_cons_inv cfg lo hi x l m st₁ o1 h2
    subst ho2; subst ho1
    have hne : y.1 ≠ x.1 := by
      rw [map_cons, map_cons, nodup_cons] at hd
      intro he
      exact hd.1 (he ▸ mem_cons_self)
    obtain ⟨m', st', g1, g2, g3⟩ := predictScene_comm cfg hb a hu y.1 x.1 hne y.2.1 x.2.1 y.2.2.1 x.2.2.1
      y.2.2.2 x.2.2.2 lo hi m st ry rx h1 h3
    have hum := scene_nodup cfg hb y.1 a m hu y.2.1 y.2.2.1 y.2.2.2 lo hi ry h1
    have hust := scene_nodup cfg hb x.1 m st hum x.2.1 x.2.2.1 x.2.2.2 lo hi rx h3
    obtain ⟨st₂, g4, g5⟩ := batchScenes_congr cfg hb lo hi l st st' g3 hust st₁ o2 h4
    refine ⟨st₂, (x.1, rx) :: (y.1, ry) :: o2, ?_, Perm.swap _ _ _, g5⟩
    exact batchScenes_cons_eq cfg lo hi x (y :: l) a m' st₂ rx _ g1
      (batchScenes_cons_eq cfg lo hi y l m' st' st₂ ry o2 g2 g4)
  | trans p1 _ ih1 ih2 =>
    intro hd a hu st₁ out₁ h
    obtain ⟨st₂, out₂, g1, g2, g3⟩ := ih1 hd a hu st₁ out₁ h
    have hd2 := ((p1.map (·.1)).nodup_iff).mp hd
    obtain ⟨st₃, out₃, k1, k2, k3⟩ := ih2 hd2 a hu st₂ out₂ g1
    exact ⟨st₃, out₃, k1, g2.trans k2, g3.trans k3⟩

/-- **The order of the scenes of a batch does not matter**: for any two orders of the same jobs
(distinct scenes), the batch succeeds in one order iff in the other, every scene gets the same
records, and the resulting states agree up to order. -/
theorem C06_scene_order (cfg : Cfg) (hb : cfg.batchIds = true) (lo hi : Nat)
    (sc₁ sc₂ : List (Nat × List Det × List Entry × List Pick)) (hperm : sc₁ ~ sc₂)
    (hd : (sc₁.map (·.1)).Nodup) (a : St) (hu : (a.live.map (·.id)).Nodup)
    (st₁ : St) (out₁ : List (Nat × List Rec)) (h : batchScenes cfg lo hi sc₁ a = some (st₁, out₁)) :
    ∃ st₂ out₂, batchScenes cfg lo hi sc₂ a = some (st₂, out₂) ∧ out₁ ~ out₂ ∧ StEq st₁ st₂ := by
  exact scene_order_aux cfg hb lo hi sc₁ sc₂ hperm hd a hu st₁ out₁ h

theorem awStep_nodup (cfg : Cfg) (a : St) (hu : (a.live.map (·.id)).Nodup) :
    ((awStep cfg a).live.map (·.id)).Nodup := by
  unfold awStep
  split
  · show ((a.live.filter _).map (·.id)).Nodup
    exact Nodup.sublist (filter_sublist.map _) hu
  · exact hu

/-- the same for a whole `predict` call of the batch tracker -/
theorem C06_batch_order (cfg : Cfg) (hb : cfg.batchIds = true)
    (sc₁ sc₂ : List (Nat × List Det × List Entry × List Pick)) (hperm : sc₁ ~ sc₂)
    (hd : (sc₁.map (·.1)).Nodup) (a : St) (hu : (a.live.map (·.id)).Nodup)
    (st₁ : St) (out₁ : List (Nat × List Rec)) (h : predictBatch cfg a sc₁ = some (st₁, out₁)) :
    ∃ st₂ out₂, predictBatch cfg a sc₂ = some (st₂, out₂) ∧ out₁ ~ out₂ ∧ StEq st₁ st₂ := by
  have hsum : (sc₁.map (fun s => s.2.1.length)).foldl (· + ·) 0 = (sc₂.map (fun s => s.2.1.length)).foldl (· + ·) 0 := by
    rw [← sum_eq_foldl_nat, ← sum_eq_foldl_nat]
    exact (hperm.map _).sum_nat
  unfold predictBatch at h ⊢
  simp only at h ⊢
  rw [← hsum]
  generalize (awStep cfg a).nextId + (sc₁.map (fun s => s.2.1.length)).foldl (· + ·) 0 = hi at h ⊢
  cases hbs : batchScenes cfg (awStep cfg a).nextId hi sc₁ (awStep cfg a) with
  | none => rw [hbs] at h; cases h
  | some x =>
    obtain ⟨s₁, o₁⟩ := x
    rw [hbs] at h
    simp only [Option.map_some, Option.some.injEq, Prod.mk.injEq] at h
    obtain ⟨e1, e2⟩ := h
    subst e1; subst e2
    obtain ⟨s₂, o₂, g1, g2, g3⟩ := C06_scene_order cfg hb _ hi sc₁ sc₂ hperm hd (awStep cfg a)
      (awStep_nodup cfg a hu) s₁ o₁ hbs
    refine ⟨{ s₂ with nextId := hi }, o₂, by rw [g1]; rfl, g2, ?_⟩
    obtain ⟨x1, x2, x3, _, x5, x6, x7, x8⟩ := g3
    exact ⟨x1, x2, x3, rfl, x5, x6, x7, x8⟩

end SimVerif.C06
