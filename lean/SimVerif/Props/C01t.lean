import SimVerif.Tie.Apply
import SimVerif.Tie.SortVoting
/-!
# C01 at source level, continued: the winners the apply loop reads are never empty

`Tie/Apply.lean` reads `dest[0]` of the winners table with a default on an empty list (Rust would panic there). For the table
`SortVoting::winners` returns — as generated from the source, `Tie/SortVoting.lean` — every entry is a **singleton** list, so the
default is never taken: the id the loop continues is the one the assignment chose.
-/
namespace SimVerif.C01
open SimVerif.Tie SimVerif.Gen.L

/-- every entry of the winners table of `SortVoting::winners` is `(candidate, [track])` -/
theorem C01_source_winners_singleton (quant : Rat → Int) (mult : Rat) (km : (Nat → Nat → Int) → Int × List Nat) (thr : Int) (cn tn : Nat)
    (ds : List SD) : ∀ p ∈ sort_voting_winners quant mult km thr cn tn ds, ∃ d, p.2 = [d] := by
  intro p hp
  by_cases htn : tn = 0
  · subst htn; rw [tie_sort_voting_empty] at hp; cases hp
  · rw [tie_sort_voting_winners quant mult km thr cn tn ds htn] at hp
    simp only [List.mem_filterMap] at hp
    obtain ⟨q, _, hq⟩ := hp
    split at hq
    · cases hq; exact ⟨_, rfl⟩
    · cases hq

/-- hence what the apply loop reads for a candidate present in the table is that single winner -/
theorem C01_source_pick_is_winner (w : List (Nat × List Nat)) (src d : Nat) (h : mapGet w src = some [d]) :
    pickOf w src = if d = src then none else some d := by
  unfold pickOf; rw [h]; rfl

end SimVerif.C01
