import SimVerif.Model.Kalman
import Mathlib.Algebra.Order.Field.Basic
import Mathlib.Analysis.Real.Sqrt
import Mathlib.Tactic.Ring
import Mathlib.Tactic.FieldSimp
import Mathlib.Tactic.Linarith
import Mathlib.Tactic.Positivity
/-!
# C07 — Kalman filters: textbook filter, SPD covariance, Mahalanobis distance, consistent gating

Model: `SimVerif.Kalman` — one constant-velocity filter per coordinate (`C1`), box / point / vector
filters as lists of coordinates with the library's height-scaled noise model (constants regenerated
from the source). Theorems over every linear ordered field (`C07_distance_cholesky` over `ℝ`).
-/
namespace SimVerif.C07
open SimVerif.Kalman

variable {α : Type} [Field α] [LinearOrder α] [IsStrictOrderedRing α]

/-- symmetric positive definite 2×2 covariance `[[a, b], [b, d]]` -/
def SPD (c : C1 α) : Prop := 0 < c.a ∧ 0 < c.d ∧ c.b * c.b < c.a * c.d

/-- **Textbook update in closed form**: the posterior of the standard linear filter with `H = [1 0]`
— precision-weighted mean, and covariance `P − P Hᵀ S⁻¹ H P`. -/
theorem C07_update_closed_form (c : C1 α) (r z : α) (hs : c.a + r ≠ 0) :
    (update1 c r z).p = (r * c.p + c.a * z) / (c.a + r) ∧
    (update1 c r z).v = c.v + c.b * (z - c.p) / (c.a + r) ∧
    (update1 c r z).a = c.a * r / (c.a + r) ∧
    (update1 c r z).b = c.b * r / (c.a + r) ∧
    (update1 c r z).d = c.d - c.b * c.b / (c.a + r) := by
  simp only [update1, s1]
  refine ⟨?_, ?_, ?_, ?_, ?_⟩ <;> field_simp <;> ring

/-- **Textbook prediction**: `m' = F m`, `P' = F P Fᵀ + Q` for `F = [[1, 1], [0, 1]]`. -/
theorem C07_predict_textbook (c : C1 α) (qp qv : α) :
    (predict1 c qp qv).p = 1 * c.p + 1 * c.v ∧ (predict1 c qp qv).v = 0 * c.p + 1 * c.v ∧
    (predict1 c qp qv).a = (1 * c.a + 1 * c.b) * 1 + (1 * c.b + 1 * c.d) * 1 + qp ∧
    (predict1 c qp qv).b = (1 * c.a + 1 * c.b) * 0 + (1 * c.b + 1 * c.d) * 1 ∧
    (predict1 c qp qv).d = (0 * c.b + 1 * c.d) * 1 + qv := by
  simp only [predict1]
  refine ⟨by ring, by ring, by ring, by ring, by ring⟩

/-- **The covariance stays symmetric positive definite** through prediction (non-negative process
noise) … -/
theorem C07_spd_predict (c : C1 α) (qp qv : α) (h : SPD c) (hqp : 0 ≤ qp) (hqv : 0 ≤ qv) :
    SPD (predict1 c qp qv) := by
  obtain ⟨ha, hd, hdet⟩ := h
  simp only [SPD, predict1]
  have h1 : 0 < c.a + c.b + c.b + c.d := by nlinarith [sq_nonneg (c.a + c.b), sq_nonneg (c.b + c.d), sq_nonneg (c.a - c.d)]
  refine ⟨by linarith, by linarith, ?_⟩
  nlinarith [mul_nonneg hqp hqv, mul_nonneg hqp hd.le, mul_nonneg hqv h1.le]

/-- … and through the measurement update (positive measurement noise). -/
theorem C07_spd_update (c : C1 α) (r z : α) (h : SPD c) (hr : 0 < r) : SPD (update1 c r z) := by
  obtain ⟨ha, hd, hdet⟩ := h
  have hs : 0 < c.a + r := by linarith
  obtain ⟨_, _, ea, eb, ed⟩ := C07_update_closed_form c r z hs.ne'
  simp only [SPD]
  rw [ea, eb, ed]
  refine ⟨by positivity, ?_, ?_⟩
  · rw [sub_pos, div_lt_iff₀ hs]; nlinarith
  · have e1 : c.b * r / (c.a + r) * (c.b * r / (c.a + r)) = c.b * c.b * r * r / ((c.a + r) * (c.a + r)) := by
      field_simp
    have e2 : c.a * r / (c.a + r) * (c.d - c.b * c.b / (c.a + r)) =
        (c.a * r * (c.d * (c.a + r) - c.b * c.b)) / ((c.a + r) * (c.a + r)) := by
      field_simp
    rw [e1, e2, div_lt_div_iff_of_pos_right (mul_pos hs hs)]
    nlinarith [mul_pos hr hr, mul_pos ha hr, mul_pos (mul_pos hr hr) ha]

/-- one predict-then-update cycle with measurement `z` -/
def cycle (c : C1 α) (params : α × α × α) (z : α) : C1 α := update1 (predict1 c params.1 params.2.1) params.2.2 z

/-- **A stationary object keeps being predicted where it is**: with constant measurements the
position mean equals the measurement and the velocity mean is zero after every step, whatever the
noise parameters of each step. -/
theorem C07_stationary (z sp sv : α) (steps : List (α × α × α)) :
    (steps.foldl (fun c prm => cycle c prm z) (init1 z sp sv)).p = z ∧
    (steps.foldl (fun c prm => cycle c prm z) (init1 z sp sv)).v = 0 ∧
    ∀ prm : α × α × α, (predict1 (steps.foldl (fun c prm => cycle c prm z) (init1 z sp sv)) prm.1 prm.2.1).p = z := by
  have key : ∀ (c : C1 α), c.p = z → c.v = 0 →
      (steps.foldl (fun c prm => cycle c prm z) c).p = z ∧ (steps.foldl (fun c prm => cycle c prm z) c).v = 0 := by
    induction steps with
    | nil => intro c hp hv; exact ⟨hp, hv⟩
    | cons prm rest ih =>
      intro c hp hv
      simp only [List.foldl_cons]
      apply ih
      · simp [cycle, update1, predict1, hp, hv]
      · simp [cycle, update1, predict1, hp, hv]
  obtain ⟨h1, h2⟩ := key (init1 z sp sv) rfl rfl
  exact ⟨h1, h2, fun prm => by simp [predict1, h1, h2]⟩

/-- **Distance**: the reported distance is the squared Mahalanobis distance `(z−Hm)ᵀ S⁻¹ (z−Hm)`;
with diagonal `S` it is `Σ dᵢ²/sᵢ`, which is what the Cholesky route `‖L⁻¹ d‖²`, `L = diag √sᵢ`, computes. -/
theorem C07_distance_cholesky (d s : ℝ) (hs : 0 < s) : (d / Real.sqrt s) * (d / Real.sqrt s) = d * d / s := by
  have h := Real.mul_self_sqrt hs.le
  have hne : Real.sqrt s ≠ 0 := (Real.sqrt_pos.mpr hs).ne'
  field_simp
  rw [Real.sq_sqrt hs.le]

theorem C07_distance_nonneg (c : C1 α) (r z : α) (hs : 0 < c.a + r) : 0 ≤ dist1 c r z := by
  simp only [dist1, s1]
  exact div_nonneg (mul_self_nonneg _) hs.le

/-- **The vector filter treats its points independently**: component `i` of the vector
prediction / update / distance is the point filter applied to component `i`. -/
theorem C07_vec_independent (cfg : PtCfg α) (sts : List (List (C1 α))) (zs : List (List α)) (i : Nat)
    (hi : i < sts.length) (hz : i < zs.length) :
    (vecPredict cfg sts)[i]? = some (ptPredict cfg sts[i]) ∧
    (vecUpdate cfg sts zs)[i]? = some (ptUpdate cfg sts[i] zs[i]) ∧
    (vecDistance cfg sts zs)[i]? = some (ptDistance cfg sts[i] zs[i]) := by
  simp [vecPredict, vecUpdate, vecDistance, List.getElem?_map, List.getElem?_zip_eq_some, hi, hz]

/-- **Direct and inverted cost gate at the same distance**: with one gate `g`, for every distance
the inverted cost is the upper bound minus the direct cost. -/
theorem C07_cost_consistent (g u d : α) : costInverted g u d = u - costDirect g u d := by
  unfold costInverted costDirect
  split <;> simp

/-- … and both branches of each filter's `calculate_cost` do use one gate: the 95 % χ² quantile for
5 degrees of freedom (box: index 4) and for 2 (point and point-vector: index 1). Regenerated from
the source on every run. -/
theorem C07_gates_box : Gen.boxCostGateDirect = 4 ∧ Gen.boxCostGateInverted = Gen.boxCostGateDirect := by decide

theorem C07_gates_point : Gen.pointCostGateDirect = 1 ∧ Gen.pointCostGateInverted = Gen.pointCostGateDirect := by decide

theorem C07_dt : Gen.DT = 1 ∧ Gen.stdConstIndex = 3 := by decide

/-! ### non-vacuity -/
example : SPD (init1 (3 : ℚ) 2 5) := by simp [SPD, init1]
example : SPD (update1 (predict1 (init1 (3 : ℚ) 2 5) 1 1) 1 7) :=
  C07_spd_update _ _ _ (C07_spd_predict _ _ _ (by simp [SPD, init1]) (by norm_num) (by norm_num)) (by norm_num)

end SimVerif.C07
