import SimVerif.Model.BatchProtocol
/-!
# C06 — the batch hand-off protocol: one result per scene, monitor bookkeeping, progress, termination

Model: `SimVerif.BatchProtocol` (one submitted batch: dispatch to voting worker `i % V`, take, send on
the batch's bounded(1) channel, monitor decrement, consumer receive). All theorems are for every
number of scenes and workers and every schedule (induction over event traces). The data side of the
property (a batch = the per-scene simple steps in any order) rests on `C04_frame` / `C04_valid_restrict`.
-/
namespace SimVerif.C06
open SimVerif.BatchProtocol

/-- reachable-state invariant of one batch over the distinct scenes `scenes` -/
structure Inv (scenes : List Nat) (s : PS) : Prop where
  /-- every scene is in exactly one place: not yet sent / in the channel / delivered -/
  place : (pending s ++ s.chan.toList ++ s.delivered).Perm scenes
  /-- the scenes of the dispatched jobs and of the todo list are pairwise distinct -/
  distinct : (s.todo ++ s.jobs.map (·.scene)).Nodup
  /-- the monitor counts the jobs whose decrement is still to come -/
  monitor : s.monitor = undecremented s

/-! ### helper lemmas -/

theorem setPhase_of_ne (l : List Job) (sc : Nat) (p : Phase) (h : ∀ x ∈ l, x.scene ≠ sc) :
    setPhase l sc p = l := by
  induction l with
  | nil => rfl
  | cons a l ih =>
    have ha : a.scene ≠ sc := h a (by simp)
    have hl : ∀ x ∈ l, x.scene ≠ sc := fun x hx => h x (by simp [hx])
    have := ih hl
    simp only [setPhase] at this ⊢
    simp [ha, this]

/-- with distinct scenes, a successful `findJob` splits the job list around the unique job of that scene -/
theorem findJob_split (s : PS) (sc : Nat) (j : Job) (hf : findJob s sc = some j)
    (hd : (s.jobs.map (·.scene)).Nodup) :
    j.scene = sc ∧ ∃ as bs, s.jobs = as ++ j :: bs ∧ (∀ x ∈ as, x.scene ≠ sc) ∧ (∀ x ∈ bs, x.scene ≠ sc) := by
  unfold findJob at hf
  rw [List.find?_eq_some_iff_append] at hf
  obtain ⟨hj, as, bs, hjobs, has⟩ := hf
  have hj' : j.scene = sc := by simpa using hj
  refine ⟨hj', as, bs, hjobs, ?_, ?_⟩
  · intro x hx
    have := has x hx
    simpa using this
  · intro x hx hxs
    rw [hjobs] at hd
    simp only [List.map_append, List.map_cons] at hd
    have h2 := (List.nodup_append.mp hd).2.1
    have h3 := (List.nodup_cons.mp h2).1
    apply h3
    rw [hj', ← hxs]
    exact List.mem_map_of_mem hx

theorem setPhase_split (as bs : List Job) (j : Job) (sc : Nat) (p : Phase) (hj : j.scene = sc)
    (has : ∀ x ∈ as, x.scene ≠ sc) (hbs : ∀ x ∈ bs, x.scene ≠ sc) :
    setPhase (as ++ j :: bs) sc p = as ++ { j with phase := p } :: bs := by
  have h1 := setPhase_of_ne as sc p has
  have h2 := setPhase_of_ne bs sc p hbs
  simp only [setPhase] at h1 h2 ⊢
  simp [h1, h2, hj]

/-- conversely, in such a split `findJob` finds the job -/
theorem findJob_of_split (s : PS) (as bs : List Job) (j : Job) (hjobs : s.jobs = as ++ j :: bs)
    (has : ∀ x ∈ as, x.scene ≠ j.scene) : findJob s j.scene = some j := by
  unfold findJob
  rw [List.find?_eq_some_iff_append]
  refine ⟨by simp, as, bs, hjobs, ?_⟩
  intro a ha
  simpa using has a ha

theorem foldl_add (l : List Nat) (a : Nat) : l.foldl (· + ·) a = a + l.sum := by
  induction l generalizing a with
  | nil => simp
  | cons x l ih => simp [ih]; omega


theorem inv_init (scenes : List Nat) (h : scenes.Nodup) : Inv scenes (init scenes) := by
  constructor
  · simp [init, pending]
  · simpa [init] using h
  · simp [init, undecremented]

/-- every enabled transition preserves the invariant -/
theorem inv_step (V : Nat) (scenes : List Nat) (s s' : PS) (e : Ev) (h : Inv scenes s)
    (hs : step V s e = some s') : Inv scenes s' := by
  obtain ⟨todo, next, jobs, chan, mon, delivered⟩ := s
  obtain ⟨hp, hd, hm⟩ := h
  simp only [pending, undecremented] at hp hd hm
  cases e with
  | dispatch sc =>
    simp only [step] at hs
    cases todo with
    | nil => simp at hs
    | cons sc' rest =>
      simp only at hs
      split at hs
      · rename_i heq; subst heq
        injection hs with hs; subst hs
        constructor
        · simp only [pending]
          refine List.Perm.trans ?_ hp
          rw [List.perm_iff_count]
          intro a
          simp [List.count_append, List.count_cons, List.filter_append]
          omega
        · simp only
          refine (List.Perm.nodup_iff ?_).mp hd
          rw [List.perm_iff_count]
          intro a
          simp [List.count_append, List.count_cons]
          omega
        · simp only [undecremented]
          simp [List.filter_append, hm]
          omega
      · simp at hs
  | take sc =>
    simp only [step] at hs
    split at hs
    · rename_i j hf
      split at hs
      · rename_i hc
        injection hs with hs; subst hs
        have hdj : (jobs.map (·.scene)).Nodup := (List.nodup_append.mp hd).2.1
        obtain ⟨hjs, as, bs, hjobs, has, hbs⟩ := findJob_split _ sc j hf hdj
        simp only at hjobs; subst hjobs
        obtain ⟨hq, -, -⟩ := hc
        constructor
        · simp only [pending, setPhase_split as bs j sc _ hjs has hbs]
          simpa [List.filter_append, List.filter_cons, hq] using hp
        · simp only [setPhase_split as bs j sc _ hjs has hbs]
          simpa using hd
        · simp only [undecremented, setPhase_split as bs j sc _ hjs has hbs]
          simpa [List.filter_append, List.filter_cons, hq] using hm
      · simp at hs
    · simp at hs
  | send sc =>
    simp only [step] at hs
    split at hs
    · rename_i j hf
      split at hs
      · rename_i hc
        injection hs with hs; subst hs
        have hdj : (jobs.map (·.scene)).Nodup := (List.nodup_append.mp hd).2.1
        obtain ⟨hjs, as, bs, hjobs, has, hbs⟩ := findJob_split _ sc j hf hdj
        simp only at hjobs; subst hjobs
        obtain ⟨hq, hch⟩ := hc
        have hch' : chan = none := hch
        subst hch'
        constructor
        · simp only [pending, setPhase_split as bs j sc _ hjs has hbs]
          refine List.Perm.trans ?_ hp
          rw [List.perm_iff_count]
          intro a
          simp [List.count_append, List.count_cons, List.filter_append, hq, hjs]
          omega
        · simp only [setPhase_split as bs j sc _ hjs has hbs]
          simpa using hd
        · simp only [undecremented, setPhase_split as bs j sc _ hjs has hbs]
          simpa [List.filter_append, List.filter_cons, hq] using hm
      · simp at hs
    · simp at hs
  | decr sc =>
    simp only [step] at hs
    split at hs
    · rename_i j hf
      split at hs
      · rename_i hq
        injection hs with hs; subst hs
        have hdj : (jobs.map (·.scene)).Nodup := (List.nodup_append.mp hd).2.1
        obtain ⟨hjs, as, bs, hjobs, has, hbs⟩ := findJob_split _ sc j hf hdj
        simp only at hjobs; subst hjobs
        constructor
        · simp only [pending, setPhase_split as bs j sc _ hjs has hbs]
          simpa [List.filter_append, List.filter_cons, hq] using hp
        · simp only [setPhase_split as bs j sc _ hjs has hbs]
          simpa using hd
        · simp only [undecremented, setPhase_split as bs j sc _ hjs has hbs]
          simp [List.filter_append, hq] at hm ⊢
          omega
      · simp at hs
    · simp at hs
  | recv sc =>
    simp only [step] at hs
    split at hs
    · rename_i hc
      injection hs with hs; subst hs
      have hc' : chan = some sc := hc
      subst hc'
      constructor
      · simp only [pending]
        refine List.Perm.trans ?_ hp
        rw [List.perm_iff_count]
        intro a
        simp [List.count_append, List.count_cons]
      · exact hd
      · exact hm
    · simp at hs


theorem inv_run_from (V : Nat) (scenes : List Nat) (tr : List Ev) (s0 s : PS) (h0 : Inv scenes s0)
    (h : run V s0 tr = some s) : Inv scenes s := by
  induction tr generalizing s0 with
  | nil =>
    simp only [run] at h
    injection h with h; subst h; exact h0
  | cons e es ih =>
    simp only [run] at h
    split at h
    · rename_i s1 hs1
      exact ih s1 (inv_step V scenes s0 s1 e h0 hs1) h
    · simp at h

/-- hence every state reached by a trace from the initial state satisfies it -/
theorem inv_run (V : Nat) (scenes : List Nat) (hn : scenes.Nodup) (tr : List Ev) (s : PS)
    (h : run V (init scenes) tr = some s) : Inv scenes s :=
  inv_run_from V scenes tr (init scenes) s (inv_init scenes hn) h

/-- **C06_monitor**: in every reachable state the monitor equals the number of jobs of the batch whose
decrement has not happened yet (so the next submission, which waits for `monitor = 0`, waits exactly
for all votes of this batch) -/
theorem C06_monitor (V : Nat) (scenes : List Nat) (hn : scenes.Nodup) (tr : List Ev) (s : PS)
    (h : run V (init scenes) tr = some s) : s.monitor = undecremented s :=
  (inv_run V scenes hn tr s h).monitor

/-- **C06_one_result**: when nothing is left to do, exactly one result per scene of the batch has been
delivered (a permutation of the scenes: each once, none missing, none extra) -/
theorem C06_one_result (V : Nat) (scenes : List Nat) (hn : scenes.Nodup) (tr : List Ev) (s : PS)
    (h : run V (init scenes) tr = some s) (hf : final s) : s.delivered.Perm scenes := by
  have hp := (inv_run V scenes hn tr s h).place
  obtain ⟨ht, hj, hc⟩ := hf
  have hfil : s.jobs.filter (fun j => j.phase = .queued ∨ j.phase = .voting) = [] := by
    rw [List.filter_eq_nil_iff]
    intro a ha
    simp [hj a ha]
  simp only [pending, ht, hc, hfil] at hp
  simpa using hp

/-- **C06_terminates**: every transition strictly decreases the outstanding work, so every schedule
ends after finitely many steps (at most `measure (init scenes) = 10 * #scenes` of them) -/
theorem C06_terminates (V : Nat) (s s' : PS) (e : Ev) (hs : step V s e = some s')
    (hd : (s.todo ++ s.jobs.map (·.scene)).Nodup) : measure s' < measure s := by
  obtain ⟨todo, next, jobs, chan, mon, delivered⟩ := s
  have hdj : (jobs.map (·.scene)).Nodup := (List.nodup_append.mp hd).2.1
  cases e with
  | dispatch sc =>
    simp only [step] at hs
    cases todo with
    | nil => simp at hs
    | cons sc' rest =>
      simp only at hs
      split at hs
      · injection hs with hs; subst hs
        simp [BatchProtocol.measure, foldl_add, phaseWeight]
        omega
      · simp at hs
  | take sc =>
    simp only [step] at hs
    split at hs
    · rename_i j hf
      split at hs
      · rename_i hc
        injection hs with hs; subst hs
        obtain ⟨hjs, as, bs, hjobs, has, hbs⟩ := findJob_split _ sc j hf hdj
        simp only at hjobs; subst hjobs
        obtain ⟨hq, -, -⟩ := hc
        simp only [BatchProtocol.measure, setPhase_split as bs j sc _ hjs has hbs]
        simp [foldl_add, phaseWeight, hq]
      · simp at hs
    · simp at hs
  | send sc =>
    simp only [step] at hs
    split at hs
    · rename_i j hf
      split at hs
      · rename_i hc
        injection hs with hs; subst hs
        obtain ⟨hjs, as, bs, hjobs, has, hbs⟩ := findJob_split _ sc j hf hdj
        simp only at hjobs; subst hjobs
        obtain ⟨hq, hch⟩ := hc
        have hch' : chan = none := hch
        subst hch'
        simp only [BatchProtocol.measure, setPhase_split as bs j sc _ hjs has hbs]
        simp [foldl_add, phaseWeight, hq]
        omega
      · simp at hs
    · simp at hs
  | decr sc =>
    simp only [step] at hs
    split at hs
    · rename_i j hf
      split at hs
      · rename_i hq
        injection hs with hs; subst hs
        obtain ⟨hjs, as, bs, hjobs, has, hbs⟩ := findJob_split _ sc j hf hdj
        simp only at hjobs; subst hjobs
        simp only [BatchProtocol.measure, setPhase_split as bs j sc _ hjs has hbs]
        simp [foldl_add, phaseWeight, hq]
      · simp at hs
    · simp at hs
  | recv sc =>
    simp only [step] at hs
    split at hs
    · rename_i hc
      injection hs with hs; subst hs
      have hc' : chan = some sc := hc
      subst hc'
      simp [BatchProtocol.measure]
    · simp at hs


theorem split_nodup (as bs : List Job) (j : Job) (hd : ((as ++ j :: bs).map (·.scene)).Nodup) :
    ∀ x ∈ as, x.scene ≠ j.scene := by
  intro x hx hxs
  simp only [List.map_append, List.map_cons] at hd
  have h3 := (List.nodup_append.mp hd).2.2
  exact h3 x.scene (List.mem_map_of_mem hx) j.scene (by simp) hxs

theorem findJob_of_mem (s : PS) (j : Job) (hj : j ∈ s.jobs) (hd : (s.jobs.map (·.scene)).Nodup) :
    findJob s j.scene = some j := by
  obtain ⟨as, bs, hjobs⟩ := List.append_of_mem hj
  rw [hjobs] at hd
  exact findJob_of_split s as bs j hjobs (split_nodup as bs j hd)

/-- core of the progress argument: with an empty channel, a non-final state with distinct job scenes
has an enabled transition of the tracker's own threads -/
theorem progress_core (V : Nat) (s : PS) (hd : (s.jobs.map (·.scene)).Nodup) (hnf : ¬ final s)
    (hc : s.chan = none) : ∃ e s', step V s e = some s' ∧ (∀ sc, e ≠ .recv sc) := by
  cases ht : s.todo with
  | cons sc rest =>
    have hen : ∃ s', step V s (.dispatch sc) = some s' := by simp [step, ht]
    obtain ⟨s', hs'⟩ := hen
    exact ⟨_, s', hs', by intro sc'; simp⟩
  | nil =>
    by_cases hv : ∃ j ∈ s.jobs, j.phase = .voting
    · obtain ⟨j, hj, hjv⟩ := hv
      have hfind := findJob_of_mem s j hj hd
      have hen : ∃ s', step V s (.send j.scene) = some s' := by simp [step, hfind, hjv, hc]
      obtain ⟨s', hs'⟩ := hen
      exact ⟨_, s', hs', by intro sc'; simp⟩
    · by_cases hsn : ∃ j ∈ s.jobs, j.phase = .sent
      · obtain ⟨j, hj, hjs⟩ := hsn
        have hfind := findJob_of_mem s j hj hd
        have hen : ∃ s', step V s (.decr j.scene) = some s' := by simp [step, hfind, hjs]
        obtain ⟨s', hs'⟩ := hen
        exact ⟨_, s', hs', by intro sc'; simp⟩
      · -- all jobs that are not done are queued, and there is one
        have hq : ∃ j ∈ s.jobs, j.phase = .queued := by
          apply Classical.byContradiction
          intro hnq
          apply hnf
          refine ⟨ht, ?_, hc⟩
          intro j hj
          cases hph : j.phase with
          | queued => exact absurd ⟨j, hj, hph⟩ hnq
          | voting => exact absurd ⟨j, hj, hph⟩ hv
          | sent => exact absurd ⟨j, hj, hph⟩ hsn
          | done => rfl
        cases hfq : s.jobs.find? (fun j => j.phase = .queued) with
        | none =>
          rw [List.find?_eq_none] at hfq
          obtain ⟨j, hj, hjq⟩ := hq
          exact absurd (by simpa using hjq) (hfq j hj)
        | some j0 =>
          rw [List.find?_eq_some_iff_append] at hfq
          obtain ⟨hq0, as, bs, hjobs, has⟩ := hfq
          have hq0' : j0.phase = .queued := by simpa using hq0
          have hj0 : j0 ∈ s.jobs := by rw [hjobs]; simp
          have hfind := findJob_of_mem s j0 hj0 hd
          have hbusy : busy s j0.worker = false := by
            simp only [busy, List.any_eq_false]
            intro x hx
            have h1 : x.phase ≠ .voting := fun h => hv ⟨x, hx, h⟩
            have h2 : x.phase ≠ .sent := fun h => hsn ⟨x, hx, h⟩
            simp [h1, h2]
          have hhead : headOf s j0.worker = some j0 := by
            unfold headOf
            rw [List.find?_eq_some_iff_append]
            refine ⟨by simp [hq0'], as, bs, hjobs, ?_⟩
            intro a ha
            have := has a ha
            simp at this
            simp [this]
          have hen : ∃ s', step V s (.take j0.scene) = some s' := by simp [step, hfind, hq0', hbusy, hhead]
          obtain ⟨s', hs'⟩ := hen
          exact ⟨_, s', hs', by intro sc'; simp⟩

/-- **C06_progress** (no deadlock): in every reachable state that is not final some transition is
enabled — possibly the consumer's `recv`, which is exactly the proviso "results are retrieved"
(`V > 0` voting workers) -/
theorem C06_progress (V : Nat) (hV : 0 < V) (scenes : List Nat) (hn : scenes.Nodup) (tr : List Ev) (s : PS)
    (h : run V (init scenes) tr = some s) (hnf : ¬ final s) : ∃ e s', step V s e = some s' := by
  have _ := hV -- not needed: progress holds for every `V`
  have hd := (inv_run V scenes hn tr s h).distinct
  have hdj : (s.jobs.map (·.scene)).Nodup := (List.nodup_append.mp hd).2.1
  cases hc : s.chan with
  | some sc =>
    have hen : ∃ s', step V s (.recv sc) = some s' := by simp [step, hc]
    obtain ⟨s', hs'⟩ := hen
    exact ⟨_, s', hs'⟩
  | none =>
    obtain ⟨e, s', hs, -⟩ := progress_core V s hdj hnf hc
    exact ⟨e, s', hs⟩

/-- the only transition that can be blocked by the consumer is `send` on a full channel: while the
channel is empty, a non-final reachable state has an enabled transition of the tracker's own threads -/
theorem C06_progress_without_consumer (V : Nat) (hV : 0 < V) (scenes : List Nat) (hn : scenes.Nodup)
    (tr : List Ev) (s : PS) (h : run V (init scenes) tr = some s) (hnf : ¬ final s) (hc : s.chan = none) :
    ∃ e s', step V s e = some s' ∧ (∀ sc, e ≠ .recv sc) := by
  have _ := hV -- not needed: progress holds for every `V`
  have hd := (inv_run V scenes hn tr s h).distinct
  have hdj : (s.jobs.map (·.scene)).Nodup := (List.nodup_append.mp hd).2.1
  exact progress_core V s hdj hnf hc

end SimVerif.C06
