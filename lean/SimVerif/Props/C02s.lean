import SimVerif.Tie.SortVoting
import SimVerif.Props.C02
/-!
# C02 at source level

For the cost matrix `SortVoting::winners` builds (`Tie/SortVoting.lean`: generated from `src/trackers/sort/voting.rs`, proved equal to
`Assign.M thr W`): **every** maximum-weight perfect matching of that matrix — whatever `kuhn_munkres` returns — decodes to a
one-to-one association of candidates to tracks in which every match is gated (`weight ≥ threshold`), and which is maximal among
**all** one-to-one partial associations when an unmatched candidate counts as the threshold.
-/
namespace SimVerif.C02
open SimVerif.Tie SimVerif.Gen.L SimVerif.Assign Finset

/-- total weight of a row ↦ column choice on the source's matrix -/
def srcTotal (quant : Rat → Int) (mult : Rat) (thr : Int) (cn : Nat) (ds : List SD)
    (σ : Fin cn → Col cn (absRun quant mult ds).ts.length) : Int :=
  ∑ i, svMatrix quant mult thr cn ds i.val (colIdx cn (σ i))

theorem srcTotal_eq (quant : Rat → Int) (mult : Rat) (thr : Int) (cn : Nat) (ds : List SD)
    (hok : okRun quant mult cn ⟨[], [], fun _ _ => 0⟩ ds) (σ : Fin cn → Col cn (absRun quant mult ds).ts.length) :
    srcTotal quant mult thr cn ds σ = total thr (Wfin (absRun quant mult ds) cn) σ := by
  unfold srcTotal total
  exact Finset.sum_congr rfl (fun i _ => tie_sort_voting_matrix quant mult thr cn ds hok i (σ i))

/-- **gated, one-to-one, maximum weight** — for every optimal solution of the matrix the source builds -/
theorem C02_source_assignment (quant : Rat → Int) (mult : Rat) (thr : Int) (cn : Nat) (ds : List SD)
    (hok : okRun quant mult cn ⟨[], [], fun _ _ => 0⟩ ds) (hthr : 0 < thr)
    (σ : Fin cn → Col cn (absRun quant mult ds).ts.length) (hinj : Function.Injective σ)
    (hopt : ∀ τ : Fin cn → Col cn (absRun quant mult ds).ts.length, Function.Injective τ →
      srcTotal quant mult thr cn ds τ ≤ srcTotal quant mult thr cn ds σ) :
    InjOnSome (decode σ) ∧
    (∀ i k, decode σ i = some k → thr ≤ Wfin (absRun quant mult ds) cn i k) ∧
    (∀ m : Fin cn → Option (Fin (absRun quant mult ds).ts.length), InjOnSome m →
      obj thr (Wfin (absRun quant mult ds) cn) m ≤ obj thr (Wfin (absRun quant mult ds) cn) (decode σ)) := by
  have hIsOpt : IsOpt thr (Wfin (absRun quant mult ds) cn) σ :=
    ⟨hinj, fun τ hτ => by rw [← srcTotal_eq quant mult thr cn ds hok τ, ← srcTotal_eq quant mult thr cn ds hok σ]; exact hopt τ hτ⟩
  exact decode_optimal hthr hIsOpt

end SimVerif.C02
