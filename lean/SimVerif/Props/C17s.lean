import SimVerif.Props.C17
import SimVerif.Tie.Voting
/-!
# C17 at source level

The voting theorems restated for the functions generated from `src/track/voting/topn.rs` and `best.rs`
(`Gen.L.topn_winners`, `Gen.L.bestfit_winners`; `Tie/Voting.lean`), with the group map iterated in first-appearance order:
what `winners(...)` returns for a query **is** the model's `topn` / `bestfit` of that query, so everything `Props/C17.lean`
proves about those — at most `N` entries, only pairs with `min_votes` distances `≤ max_distance`, decreasing weight
`Σ (largest distance seen − d)`, each track awarded to at most one query, independence of the order of the stream —
is a statement about the source.
-/
namespace SimVerif.C17
open SimVerif.Voting SimVerif.Tie SimVerif.Gen.L
variable (maxD : Rat) (mv n : Nat)

/-- the entry TopN returns for a query: at most `N` candidates of that query, by decreasing weight, none outweighed by an
excluded one; and there is an entry exactly when the query has a candidate -/
theorem C17_source_topn (s : List Dist) (q : Nat) :
    (mapGet (topn_winners id n maxD mv s) q).isSome = !((cands maxD mv s).filter (fun e => e.q == q)).isEmpty ∧
    ∀ l, mapGet (topn_winners id n maxD mv s) q = some l →
      (∀ e ∈ l, e ∈ cands maxD mv s ∧ e.q = q) ∧ l.Pairwise (fun a b => b.weight ≤ a.weight) ∧
      l.length = min n ((cands maxD mv s).filter (fun e => e.q == q)).length := by
  rw [tie_topn_winners_id]
  constructor
  · cases h : (cands maxD mv s).filter (fun e => e.q == q) <;> simp
  · intro l hl
    by_cases h : (cands maxD mv s).filter (fun e => e.q == q) = []
    · simp [h] at hl
    · simp only [h, if_false, Option.some.injEq] at hl
      subst hl
      obtain ⟨h1, h2, h3, _⟩ := C17_topn_spec n maxD mv s q
      exact ⟨h1, h2, h3⟩

/-- TopN does not depend on the order of the stream (no weight ties inside the query) -/
theorem C17_source_topn_perm (s₁ s₂ : List Dist) (h : s₁.Perm s₂) (q : Nat)
    (hd : ∀ a ∈ cands maxD mv s₁, ∀ b ∈ cands maxD mv s₁, a.q = q → b.q = q → a.weight = b.weight → a = b) :
    mapGet (topn_winners id n maxD mv s₁) q = mapGet (topn_winners id n maxD mv s₂) q := by
  rw [tie_topn_winners_id, tie_topn_winners_id, C17_topn_perm n maxD mv s₁ s₂ h q hd]
  have hp := (cands_perm maxD mv h).filter (fun e => e.q == q)
  have hiff : ((cands maxD mv s₁).filter (fun e => e.q == q) = []) ↔ ((cands maxD mv s₂).filter (fun e => e.q == q) = []) := by
    constructor
    · intro h0; rw [h0] at hp; exact hp.symm.eq_nil
    · intro h0; rw [h0] at hp; exact hp.eq_nil
  by_cases h0 : (cands maxD mv s₁).filter (fun e => e.q == q) = []
  · simp [h0, hiff.mp h0]
  · have h0' : ¬ (cands maxD mv s₂).filter (fun e => e.q == q) = [] := fun hh => h0 (hiff.mpr hh)
    simp [h0, h0']

/-- the entry BestFit returns for a query is the model's `bestfit` of that query -/
theorem C17_source_bestfit (s : List Dist) (q : Nat) :
    mapGet (bestfit_winners id maxD mv s) q = (if bestfit maxD mv s q = [] then none else some (bestfit maxD mv s q)) :=
  tie_bestfit_winners_id maxD mv s q

end SimVerif.C17
