/-
Models of the generic voting engines (src/track/voting/topn.rs, src/track/voting/best.rs).

A stream element is `(query, track, feature_distance?)`. Both engines:
  * track the largest distance seen (`max_dist`, initially -1) over **all** `Some` distances,
  * keep the distances `≤ max_distance`, group them by `(query, track)`,
  * drop groups with fewer than `min_votes` entries,
  * weight = Σ (max_dist − d) over the group.
`into_group_map` is a `HashMap`: the order in which groups come out is arbitrary. The model uses
first-appearance order; the theorems in Props/C17 show the result does not depend on it when
weights are distinct.
-/
namespace SimVerif.Voting

structure Dist where
  q : Nat
  w : Nat
  d : Option Rat
deriving Repr, BEq

structure Elt where
  q : Nat
  w : Nat
  weight : Rat
deriving Repr, BEq, DecidableEq

/-- `max_dist` after the filter closure has seen the whole stream -/
def maxStep (m : Rat) (e : Dist) : Rat :=
  match e.d with
  | some x => if m < x then x else m
  | none => m

def maxSeen (s : List Dist) : Rat := s.foldl maxStep (-1)

/-- distances that pass `*e <= self.max_distance`, keyed by pair -/
def kept (maxD : Rat) (s : List Dist) : List ((Nat × Nat) × Rat) :=
  s.filterMap (fun e => match e.d with
    | some x => if x ≤ maxD then some ((e.q, e.w), x) else none
    | none => none)

/-- distinct elements in first-appearance order -/
def firsts {α : Type} [BEq α] : List α → List α
  | [] => []
  | a :: l => a :: (firsts l).filter (fun b => !(b == a))

def groupOf (k : Nat × Nat) (l : List ((Nat × Nat) × Rat)) : List Rat :=
  (l.filter (fun e => e.1 == k)).map (·.2)

def rsum (l : List Rat) : Rat := l.foldr (· + ·) 0

/-- the candidate list both engines build (one element per surviving `(query, track)` group) -/
def mkCand (ks : List ((Nat × Nat) × Rat)) (m : Rat) (minVotes : Nat) (k : Nat × Nat) : Option Elt :=
  if minVotes ≤ (groupOf k ks).length then
    some { q := k.1, w := k.2, weight := rsum ((groupOf k ks).map (fun d => m - d)) }
  else none

def cands (maxD : Rat) (minVotes : Nat) (s : List Dist) : List Elt :=
  (firsts ((kept maxD s).map (·.1))).filterMap (mkCand (kept maxD s) (maxSeen s) minVotes)

def wGE (a b : Elt) : Bool := decide (b.weight ≤ a.weight)

/-- TopN: per query, candidates sorted by decreasing weight (stable), truncated to `n` -/
def topn (n : Nat) (maxD : Rat) (minVotes : Nat) (s : List Dist) (q : Nat) : List Elt :=
  (((cands maxD minVotes s).filter (fun e => e.q == q)).mergeSort wGE).take n

/-- queries that get an entry in the result map -/
def topnKeys (maxD : Rat) (minVotes : Nat) (s : List Dist) : List Nat :=
  firsts ((cands maxD minVotes s).map (·.q))

/-- BestFit greedy pass over the weight-sorted candidates: a track already awarded makes the
claimant fall back to itself (`winner_track = query_track`). The Bool is ghost: `true` = real award. -/
def award : List Elt → List Nat → List (Elt × Bool)
  | [], _ => []
  | c :: rest, taken =>
    if taken.contains c.w then ({ c with w := c.q }, false) :: award rest taken
    else (c, true) :: award rest (c.w :: taken)

def bestfitAll (maxD : Rat) (minVotes : Nat) (s : List Dist) : List (Elt × Bool) :=
  award ((cands maxD minVotes s).mergeSort wGE) []

def bestfit (maxD : Rat) (minVotes : Nat) (s : List Dist) (q : Nat) : List Elt :=
  ((bestfitAll maxD minVotes s).filter (fun e => e.1.q == q)).map (·.1)

end SimVerif.Voting
