import SimVerif.Model.Track
/-
Model of `TrackStore` (src/track/store.rs) at the level of its public operations: `n` shards, a
track lives in shard `id % n`. The worker threads execute one command at a time under the shard
lock; here every operation is an atomic function of the store (the interleaving of the distance
queries is the subject of `Model/ShardedQuery.lean`, C10/C05).

Modelled with `FutureMergeResponse::get` returning the worker's `MergeResult` (F1 fixed) and `add`
on a missing id building the track through the builder (F8 fixed).
-/
namespace SimVerif.Store
open SimVerif.Track

variable {TA M OA U Q E : Type}

structure Store (TA M OA : Type) where
  n : Nat                                        -- number of shards (> 0)
  shards : List (List (Nat × Track TA M OA))     -- `n` association lists id ↦ track
  defAttrs : TA
  defMetric : M

def empty (n : Nat) (a : TA) (m : M) : Store TA M OA :=
  { n := n, shards := List.replicate n [], defAttrs := a, defMetric := m }

def shardOf (s : Store TA M OA) (id : Nat) : Nat := id % s.n

def getShard (s : Store TA M OA) (k : Nat) : List (Nat × Track TA M OA) := s.shards.getD k []

def find (s : Store TA M OA) (id : Nat) : Option (Track TA M OA) :=
  ((getShard s (shardOf s id)).find? (fun p => p.1 == id)).map (·.2)

def setShard (s : Store TA M OA) (k : Nat) (sh : List (Nat × Track TA M OA)) : Store TA M OA :=
  { s with shards := s.shards.set k sh }

/-- insert or overwrite `id` in its shard (a `HashMap` insert: order is immaterial) -/
def put (s : Store TA M OA) (id : Nat) (t : Track TA M OA) : Store TA M OA :=
  let k := shardOf s id
  setShard s k ((getShard s k).filter (fun p => !(p.1 == id)) ++ [(id, t)])

def remove (s : Store TA M OA) (id : Nat) : Store TA M OA :=
  let k := shardOf s id
  setShard s k ((getShard s k).filter (fun p => !(p.1 == id)))

/-- all stored tracks (shard by shard) -/
def all (s : Store TA M OA) : List (Track TA M OA) := s.shards.flatMap (fun sh => sh.map (·.2))

/-- `add_track` -/
def addTrack (s : Store TA M OA) (t : Track TA M OA) : Except (Err E) Nat × Store TA M OA :=
  match find s t.id with
  | some _ => (.error (.dup t.id), s)
  | none => (.ok t.id, put s t.id t)

/-- `fetch_tracks`: removes and returns the requested existing tracks, in request order -/
def fetchTracks : Store TA M OA → List Nat → List (Track TA M OA) × Store TA M OA
  | s, [] => ([], s)
  | s, id :: rest =>
    match find s id with
    | some t => let (ts, s') := fetchTracks (remove s id) rest; (t :: ts, s')
    | none => fetchTracks s rest

/-- `add(track_id, class, attr, feature, update)`; returns notifications emitted too -/
def add (cb : Cb TA M OA U Q E) (s : Store TA M OA) (id cls : Nat) (o : Option OA) (u : Option U) :
    Except (Err E) Unit × Store TA M OA × Nat :=
  match find s id with
  | some t =>
    let (r, t', k) := addObservation cb t cls o u
    match r with
    | .ok () => (.ok (), put s id t', k)
    | .error e => (.error e, s, k)
  | none =>
    -- as `new_track(id).observation(..).build()` followed by `add_track`
    match build cb id s.defMetric s.defAttrs [(cls, o, u)] with
    | (.ok t, k) => (.ok (), put s id t, k)
    | (.error e, k) => (.error e, s, k)

/-- classes merged by the `Merge` command: the requested ones, or all classes of the source when none are given -/
def mergeClasses (classes : Option (List Nat)) (src : Track TA M OA) : List Nat :=
  match classes with
  | some c => if c.isEmpty then src.obs.map (·.1) else c
  | none => src.obs.map (·.1)

/-- the `Merge` command executed by the destination's worker -/
def mergeExternal (cb : Cb TA M OA U Q E) (s : Store TA M OA) (dest : Nat) (src : Track TA M OA)
    (classes : Option (List Nat)) (flag : Bool) : Except (Err E) Unit × Store TA M OA × Nat :=
  match find s dest with
  | none => (.error (.notFound dest), s, 0)
  | some d =>
    if dest == src.id then (.error (.same dest), s, 0) else
    match merge cb d src (mergeClasses classes src) flag with
    | (.ok (), d', k) => (.ok (), put s dest d', k)
    | (.error e, _, k) => (.error e, s, k)

/-- `merge_owned`: returns the removed source when asked and successful -/
def mergeOwned (cb : Cb TA M OA U Q E) (s : Store TA M OA) (dest srcId : Nat)
    (classes : Option (List Nat)) (removeSrc flag : Bool) :
    Except (Err E) (Option (Track TA M OA)) × Store TA M OA × Nat :=
  match find s srcId with
  | none => (.error (.notFound srcId), s, 0)
  | some src =>
    match mergeExternal cb (remove s srcId) dest src classes flag with
    | (.ok (), s2, k) => if removeSrc then (.ok (some src), s2, k) else (.ok none, put s2 srcId src, k)
    | (.error e, _, k) => (.error e, s, k)

/-- `lookup(q)`: the tracks satisfying the query, with their status -/
def lookupQ (cb : Cb TA M OA U Q E) (s : Store TA M OA) (q : Q) : List (Nat × Except E Status) :=
  ((all s).filter (fun t => lookup cb t q)).map (fun t => (t.id, status cb t))

/-- `find_usable()`: every track whose status is not `Pending` -/
def findUsable (cb : Cb TA M OA U Q E) (s : Store TA M OA) : List (Nat × Except E Status) :=
  (all s).filterMap (fun t => match status cb t with
    | .ok .pending => none
    | r => some (t.id, r))

def clear (s : Store TA M OA) : Store TA M OA := { s with shards := List.replicate s.n [] }

def shardStats (s : Store TA M OA) : List Nat := s.shards.map (·.length)

/-- one candidate against one stored track, as the `Distances` command does it -/
def distPair (cb : Cb TA M OA U Q E) (cand other : Track TA M OA) (cls : Nat) (onlyBaked : Bool) :
    Option (Except (Err E) (List DistOk)) :=
  if cand.id == other.id then none else
  let go : Option (Except (Err E) (List DistOk)) :=
    match distances cb cand other cls with
    | .ok d => some (.ok (cb.postprocess cand.metric d))
    | .error .incompat => none
    | .error e => some (.error e)
  if !onlyBaked then go else
  match status cb other with
  | .ok .ready => go
  | _ => none

/-- specification of a distance query for one candidate over a list of stored tracks:
(ok results, number of error entries) -/
def queryOne (cb : Cb TA M OA U Q E) (tracks : List (Track TA M OA)) (cand : Track TA M OA) (cls : Nat)
    (onlyBaked : Bool) : List DistOk × Nat :=
  let rs := tracks.filterMap (fun o => distPair cb cand o cls onlyBaked)
  (rs.flatMap (fun r => match r with | .ok d => d | .error _ => []),
   (rs.filter (fun r => match r with | .ok _ => false | .error _ => true)).length)

/-- `foreign_track_distances` (result multiset; the order of arrival is schedule dependent) -/
def foreignDistances (cb : Cb TA M OA U Q E) (s : Store TA M OA) (cands : List (Track TA M OA)) (cls : Nat)
    (onlyBaked : Bool) : List DistOk × Nat :=
  cands.foldl (fun acc c => let (d, e) := queryOne cb (all s) c cls onlyBaked; (acc.1 ++ d, acc.2 + e)) ([], 0)

/-- `owned_track_distances`: the candidates are stored tracks; each is compared with every other
stored track (the other candidates included); the store is unchanged (F3 fixed) -/
def ownedDistances (cb : Cb TA M OA U Q E) (s : Store TA M OA) (ids : List Nat) (cls : Nat)
    (onlyBaked : Bool) : List DistOk × Nat :=
  foreignDistances cb s (ids.filterMap (find s)) cls onlyBaked

end SimVerif.Store
