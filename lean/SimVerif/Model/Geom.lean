/-
Layer G geometry model (src/utils/bbox.rs, src/utils/clipping.rs), generic in the scalar type:
the driver runs it on `Rat` (every float input is an exact dyadic rational), the theorems are over
ordered fields / `ℝ`. `cos`/`sin` of the box angle enter as a pair `(c, s)`; `sqrt` as a parameter.
-/
namespace SimVerif.Geom

variable {α : Type} [Zero α] [One α] [Add α] [Sub α] [Mul α] [Div α] [Neg α]
  [LT α] [LE α] [DecidableLT α] [DecidableLE α] [DecidableEq α]

abbrev Pt (α : Type) := α × α

/-- `BoundingBox` (left, top, width, height, confidence) -/
structure BBox (α : Type) where
  left : α
  top : α
  width : α
  height : α
  conf : α
deriving Repr, BEq

/-- `Universal2DBox` (xc, yc, angle?, aspect, height, confidence) -/
structure UBox (α : Type) where
  xc : α
  yc : α
  angle : Option α
  aspect : α
  height : α
  conf : α
deriving Repr, BEq

def two : α := 1 + 1

/-- `From<&BoundingBox> for Universal2DBox` -/
def toUniversal (b : BBox α) : UBox α :=
  { xc := b.left + b.width / two, yc := b.top + b.height / two, angle := none,
    aspect := b.width / b.height, height := b.height, conf := b.conf }

/-- `TryFrom<&Universal2DBox> for BoundingBox` (`none` = `GenericBBoxConversionError`) -/
def toLtwh (u : UBox α) : Option (BBox α) :=
  match u.angle with
  | some _ => none
  | none =>
    let width := u.height * u.aspect
    some { left := u.xc - width / two, top := u.yc - u.height / two, width := width,
           height := u.height, conf := u.conf }

def area (u : UBox α) : α := (u.height * u.aspect) * u.height

/-- square of `get_radius` -/
def radiusSq (u : UBox α) : α :=
  let hw := u.aspect * u.height / two
  let hh := u.height / two
  hw * hw + hh * hh

/-- `From<&Universal2DBox> for Polygon<f64>`; `(c, s)` = cos and sin of `angle.unwrap_or(0)` -/
def vertices (u : UBox α) (c s : α) : List (Pt α) :=
  let hw := u.height * u.aspect / two
  let hh := u.height / two
  let r1x := -hw * c - hh * s
  let r1y := -hw * s + hh * c
  let r2x := hw * c - hh * s
  let r2y := hw * s + hh * c
  [(u.xc + r1x, u.yc + r1y), (u.xc + r2x, u.yc + r2y), (u.xc - r1x, u.yc - r1y), (u.xc - r2x, u.yc - r2y)]

def absv (x : α) : α := if x < 0 then -x else x

/-- `PartialEq for Universal2DBox`: every coordinate within `EPS` in absolute value
(after the `fix:` commit for F6; before it `abs()` was applied to xc / yc only) -/
def ueq (eps : α) (a b : UBox α) : Bool :=
  decide (absv (a.xc - b.xc) < eps) && decide (absv (a.yc - b.yc) < eps) &&
  decide (absv ((a.angle.getD 0) - (b.angle.getD 0)) < eps) &&
  decide (absv (a.aspect - b.aspect) < eps) && decide (absv (a.height - b.height) < eps)

/-- `PartialEq for BoundingBox` -/
def beq (eps : α) (a b : BBox α) : Bool :=
  decide (absv (a.left - b.left) < eps) && decide (absv (a.top - b.top) < eps) &&
  decide (absv (a.width - b.width) < eps) && decide (absv (a.height - b.height) < eps) &&
  decide (absv (a.conf - b.conf) < eps)

/-- `normalize_angle`, with `floor` and `2π` as parameters -/
def normalizeAngle (floor : α → α) (pix2 : α) (a : α) : α :=
  let n := floor (a / pix2)
  let a' := a - n * pix2
  if a' < 0 then a' + pix2 else a'

/-! ### clipping -/

/-- `is_inside(q, p1, p2)` -/
def cross (q p1 p2 : Pt α) : α := (p2.1 - p1.1) * (q.2 - p1.2) - (p2.2 - p1.2) * (q.1 - p1.1)
def isInside (q p1 p2 : Pt α) : Bool := decide (cross q p1 p2 ≤ 0)

/-- `compute_intersection(cp1, cp2, s, e)` -/
def computeIntersection (cp1 cp2 s e : Pt α) : Pt α :=
  let dcx := cp1.1 - cp2.1
  let dcy := cp1.2 - cp2.2
  let dpx := s.1 - e.1
  let dpy := s.2 - e.2
  let n1 := cp1.1 * cp2.2 - cp1.2 * cp2.1
  let n2 := s.1 * e.2 - s.2 * e.1
  let n3 := 1 / (dcx * dpy - dcy * dpx)
  ((n1 * dpx - n2 * dcx) * n3, (n1 * dpy - n2 * dcy) * n3)

/-- inner loop: one pass of the subject polygon against the clip edge `(cs, ce)`;
`prev` is the predecessor of the first remaining vertex -/
def clipEdge (cs ce : Pt α) : Pt α → List (Pt α) → List (Pt α)
  | _, [] => []
  | prev, cur :: rest =>
    (if isInside cur cs ce then
      (if !isInside prev cs ce then [computeIntersection prev cur cs ce, cur] else [cur])
     else if isInside prev cs ce then [computeIntersection prev cur cs ce] else []) ++
    clipEdge cs ce cur rest

def clipPass (cs ce : Pt α) (poly : List (Pt α)) : List (Pt α) :=
  match poly.getLast? with
  | none => []
  | some last => clipEdge cs ce last poly

/-- outer loop over the clip edges `(clip[i-1], clip[i])`, `i = 0..` with wrap-around -/
def clipLoop : Pt α → List (Pt α) → List (Pt α) → List (Pt α)
  | _, [], poly => poly
  | cprev, ccur :: crest, poly => clipLoop ccur crest (clipPass cprev ccur poly)

/-- `sutherland_hodgman_clip(subject, clipping)` on open vertex lists -/
def shClip (subject clipping : List (Pt α)) : List (Pt α) :=
  match clipping.getLast? with
  | none => subject
  | some last => clipLoop last clipping subject

/-- twice the signed shoelace area of a closed ring given by its open vertex list -/
def shoelace2Aux (first : Pt α) : List (Pt α) → α
  | [] => 0
  | [p] => p.1 * first.2 - first.1 * p.2
  | p :: q :: rest => (p.1 * q.2 - q.1 * p.2) + shoelace2Aux first (q :: rest)

def shoelace2 (poly : List (Pt α)) : α :=
  match poly with
  | [] => 0
  | p :: _ => shoelace2Aux p poly

/-- `unsigned_area()` -/
def polyArea (poly : List (Pt α)) : α := absv (shoelace2 poly) / two

/-- `too_far` in the sqrt-free decidable form: `D > (r₁+r₂)²  ⇔  D−A−B > 0 ∧ (D−A−B)² > 4AB` -/
def tooFar (l r : UBox α) : Bool :=
  let a := radiusSq l
  let b := radiusSq r
  let x := l.xc - r.xc
  let y := l.yc - r.yc
  let d := x * x + y * y
  let e := d - a - b
  decide (0 < e) && decide ((two * two) * a * b < e * e)

/-- `Universal2DBox::intersection` (cos/sin pairs supplied) -/
def intersection (l r : UBox α) (cl sl cr sr : α) : α :=
  if tooFar l r then 0 else polyArea (shClip (vertices l cl sl) (vertices r cr sr))

/-- `calculate_metric_object` for `Universal2DBox`: IoU, absent when the intersection is 0 -/
def iou (l r : UBox α) (cl sl cr sr : α) : Option α :=
  let i := intersection l r cl sl cr sr
  if i = 0 then none
  else some (i / ((l.height * l.height * l.aspect + r.height * r.height * r.aspect) - i))

/-- `BoundingBox::intersection` closed form -/
def maxv (a b : α) : α := if a < b then b else a
def minv (a b : α) : α := if b < a then b else a

def aabbInter (l r : BBox α) : α :=
  let x1 := maxv l.left r.left
  let y1 := maxv l.top r.top
  let x2 := minv (l.left + l.width) (r.left + r.width)
  let y2 := minv (l.top + l.height) (r.top + r.height)
  let w := x2 - x1
  let h := y2 - y1
  if 0 < w ∧ 0 < h then w * h else 0

/-- `calculate_metric_object` for `BoundingBox` -/
def aabbIou (l r : BBox α) : α :=
  let i := aabbInter l r
  i / ((l.height * l.width + r.height * r.width) - i)

/-- `dist_in_2r` squared, given `sq = √(A·B)` for the radii squares: `D / ((r₁+r₂)² + EPS)` -/
def dist2rSq (eps : α) (sqrtAB : α) (l r : UBox α) : α :=
  let a := radiusSq l
  let b := radiusSq r
  let x := l.xc - r.xc
  let y := l.yc - r.yc
  (x * x + y * y) / (a + b + two * sqrtAB + eps)

end SimVerif.Geom
