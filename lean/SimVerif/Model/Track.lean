/-
Model of `Track` (src/track.rs) — attributes, observations per feature class, metric state, merge
history, change notifications — parametric in **all** user callbacks (`Cb`), which are arbitrary
functions returning `Except`. `&mut self` methods return the track afterwards and the number of
notifications emitted.

`Track::merge` is modelled with the merge history computed once and installed only on success
(the behaviour after the `fix:` commit for F2; see DESIGN.md section 8).
-/
namespace SimVerif.Track

inductive Status where
  | ready | pending | wasted
deriving Repr, BEq, DecidableEq

/-- errors: the library's own (`Errors::*`) and those raised by user callbacks -/
inductive Err (E : Type) where
  | cb (e : E)
  | dup (id : Nat)
  | notFound (id : Nat)
  | same (id : Nat)
  | incompat
  | noClass
deriving Repr, BEq, DecidableEq

/-- `ObservationMetricOk` -/
structure DistOk where
  frm : Nat
  to : Nat
  attr : Option Int
  feat : Option Rat
deriving Repr, BEq, DecidableEq

/-- the user callbacks: `TrackAttributesUpdate::apply`, `TrackAttributes::{merge, compatible, baked}`,
`ObservationMetric::{optimize, metric, postprocess_distances}`, `LookupRequest::lookup` -/
structure Cb (TA M OA U Q E : Type) where
  apply : U → TA → Except E TA
  mergeA : TA → TA → Except E TA
  optimize : M → Nat → List Nat → TA → List OA → Nat → Bool → Except E (M × TA × List OA)
  compatible : TA → TA → Bool
  baked : TA → List (Nat × List OA) → Except E Status
  metric : Nat → TA → OA → TA → OA → Option (Option Int × Option Rat)
  postprocess : M → List DistOk → List DistOk
  lookup : Q → TA → List (Nat × List OA) → List Nat → Bool

structure Track (TA M OA : Type) where
  id : Nat
  attrs : TA
  obs : List (Nat × List OA)     -- `ObservationsDb`: class ↦ observations (association list)
  metric : M
  hist : List Nat                -- merge history
deriving Repr, BEq

variable {TA M OA U Q E : Type}

def getObs (obs : List (Nat × List OA)) (c : Nat) : Option (List OA) :=
  (obs.find? (fun p => p.1 == c)).map (·.2)

def setObs (obs : List (Nat × List OA)) (c : Nat) (v : List OA) : List (Nat × List OA) :=
  if obs.any (fun p => p.1 == c) then obs.map (fun p => if p.1 == c then (c, v) else p)
  else obs ++ [(c, v)]

/-- `Track::new`: history `[id]`, one notification -/
def new (id : Nat) (m : M) (a : TA) : Track TA M OA × Nat :=
  ({ id := id, attrs := a, obs := [], metric := m, hist := [id] }, 1)

/-- `add_observation`; `o = none` is the "both `None`" case. Returns (result, track afterwards,
notifications emitted). -/
def addObservation (cb : Cb TA M OA U Q E) (t : Track TA M OA) (cls : Nat) (o : Option OA)
    (u : Option U) : Except (Err E) Unit × Track TA M OA × Nat :=
  let t1 : Except E (Track TA M OA) := match u with
    | none => .ok t
    | some u => match cb.apply u t.attrs with
      | .ok a => .ok { t with attrs := a }
      | .error e => .error e
  match t1 with
  | .error e => (.error (.cb e), t, 0)
  | .ok t1 =>
    match o with
    | none => (.ok (), t1, 1)
    | some o =>
      let cur := (getObs t1.obs cls).getD []
      match cb.optimize t1.metric cls t1.hist t1.attrs (cur ++ [o]) cur.length false with
      | .error e => (.error (.cb e), t, 0)
      | .ok (m, a, l) => (.ok (), { t1 with metric := m, attrs := a, obs := setObs t1.obs cls l }, 1)

/-- working state of the class loop of `merge` -/
structure MState (TA M OA : Type) where
  attrs : TA
  obs : List (Nat × List OA)
  metric : M
  any : Bool       -- some requested class was present in either track

/-- the `for cls in classes` loop; `newHist` is what `optimize` is shown -/
def mergeLoop (cb : Cb TA M OA U Q E) (src : Track TA M OA) (newHist : List Nat) :
    List Nat → MState TA M OA → Except E (MState TA M OA)
  | [], st => .ok st
  | cls :: rest, st =>
    let step : Option (List (Nat × List OA) × Nat) :=
      match getObs st.obs cls, getObs src.obs cls with
      | some d, some s => some (setObs st.obs cls (d ++ s), d.length)
      | none, some s => some (setObs st.obs cls s, 0)
      | some d, none => some (st.obs, d.length)
      | none, none => none
    match step with
    | none => mergeLoop cb src newHist rest st
    | some (obs', prev) =>
      match cb.optimize st.metric cls newHist st.attrs ((getObs obs' cls).getD []) prev true with
      | .error e => .error e
      | .ok (m, a, l) =>
        mergeLoop cb src newHist rest { attrs := a, obs := setObs obs' cls l, metric := m, any := true }

/-- `Track::merge(other, classes, merge_history)` -/
def merge (cb : Cb TA M OA U Q E) (dst src : Track TA M OA) (classes : List Nat) (flag : Bool) :
    Except (Err E) Unit × Track TA M OA × Nat :=
  match cb.mergeA dst.attrs src.attrs with
  | .error e => (.error (.cb e), dst, 0)
  | .ok a =>
    let newHist := if flag then dst.hist ++ src.hist else dst.hist
    match mergeLoop cb src newHist classes { attrs := a, obs := dst.obs, metric := dst.metric, any := false } with
    | .error e => (.error (.cb e), dst, 0)
    | .ok st =>
      let h := if st.any then newHist else dst.hist
      (.ok (), { id := dst.id, attrs := st.attrs, obs := st.obs, metric := st.metric, hist := h }, 1)

/-- `Track::distances(other, feature_class)`: the cartesian product of the observations of the
class, one result per pair for which the metric yields a value -/
def distances (cb : Cb TA M OA U Q E) (t other : Track TA M OA) (cls : Nat) :
    Except (Err E) (List DistOk) :=
  if !cb.compatible t.attrs other.attrs then .error .incompat else
  match getObs t.obs cls, getObs other.obs cls with
  | some l, some r =>
    .ok (l.flatMap (fun a => r.filterMap (fun b =>
      (cb.metric cls t.attrs a other.attrs b).map (fun mo =>
        { frm := t.id, to := other.id, attr := mo.1, feat := mo.2 }))))
  | _, _ => .error .noClass

def lookup (cb : Cb TA M OA U Q E) (t : Track TA M OA) (q : Q) : Bool :=
  cb.lookup q t.attrs t.obs t.hist

def status (cb : Cb TA M OA U Q E) (t : Track TA M OA) : Except E Status := cb.baked t.attrs t.obs

/-- the `for (cls, oa, feat, upd) in self.observations` loop of `TrackBuilder::build` -/
def buildLoop (cb : Cb TA M OA U Q E) : Track TA M OA → Nat → List (Nat × Option OA × Option U) →
    Except (Err E) (Track TA M OA) × Nat
  | t, n, [] => (.ok t, n)
  | t, n, ob :: rest =>
    match addObservation cb t ob.1 ob.2.1 ob.2.2 with
    | (.ok (), t', k) => buildLoop cb t' (n + k) rest
    | (.error e, _, k) => (.error e, n + k)

/-- `TrackBuilder::build`: `Track::new` then `add_observation` for every queued observation,
stopping at the first failure. Returns the notifications emitted as well. -/
def build (cb : Cb TA M OA U Q E) (id : Nat) (m : M) (a : TA)
    (obs : List (Nat × Option OA × Option U)) : Except (Err E) (Track TA M OA) × Nat :=
  buildLoop cb (new id m a).1 (new (OA := OA) id m a).2 obs

end SimVerif.Track
