import SimVerif.Model.Wire
import SimVerif.Gen.Consts
import SimVerif.Model.Voting
/-
Executable matrix-level model of `SortVoting::winners` (src/trackers/sort/voting.rs).

The code builds a `candidate_num × (candidate_num + track_num)` matrix of quantised weights
(`(w * 1e6) as i64`; row/column indices in first-appearance order; a later entry for the same pair
overwrites), sets the diagonal to the threshold, calls `kuhn_munkres` (a maximum-weight perfect
matching of rows to distinct columns) and decodes row `i ↦ column e` to `(id[i], id[e])`, dropping
pairs with id 0. The solver is a parameter: the model enumerates **all** one-to-one partial
assignments and their objective, so whatever optimal solution the solver picks can be validated.
-/
namespace SimVerif.AssignX
open SimVerif.Wire SimVerif.Voting

/-- `F32_U64_MULT`, regenerated from src/trackers/sort/voting.rs -/
def MULT : Rat := Gen.F32_U64_MULT

/-- `(x * F32_U64_MULT) as i64` for a finite f32 `x` -/
def quantise (x : Rat) : Int := truncInt (roundF32 (x * MULT))

structure Entry where
  q : Nat
  t : Nat
  w : Int
deriving Repr, BEq

/-- weight stored for a pair: the last entry for it (assignment overwrites), else 0 -/
def weightOf (s : List Entry) (q t : Nat) : Int :=
  match (s.reverse.find? (fun e => e.q == q && e.t == t)) with
  | some e => e.w
  | none => 0

def queries (s : List Entry) : List Nat := firsts (s.map (·.q))
def tracks (s : List Entry) : List Nat := firsts (s.map (·.t))

/-- all one-to-one partial assignments query ↦ track? (as lists aligned with `qs`) -/
def allAssign : List Nat → List Nat → List (List (Option Nat))
  | [], _ => [[]]
  | _ :: qs, ts =>
    ((allAssign qs ts).map (fun a => none :: a)) ++
    ts.flatMap (fun t => (allAssign qs (ts.filter (· != t))).map (fun a => some t :: a))

/-- objective of the property: matched weight, or the threshold for an unmatched detection -/
def objective (s : List Entry) (thr : Int) : List Nat → List (Option Nat) → Int
  | q :: qs, some t :: as => weightOf s q t + objective s thr qs as
  | _ :: qs, none :: as => thr + objective s thr qs as
  | _, _ => 0

def best (s : List Entry) (thr : Int) : Int :=
  ((allAssign (queries s) (tracks s)).map (objective s thr (queries s))).foldl max
    (objective s thr (queries s) ((queries s).map (fun _ => none)))

def optimal (s : List Entry) (thr : Int) : List (List (Option Nat)) :=
  let b := best s thr
  let qs := queries s
  (allAssign qs (tracks s)).filter (fun a => objective s thr qs a == b)


/-- Dynamic programme over subsets of tracks: the maximum objective over all one-to-one partial
assignments and the number of assignments attaining it. Used by the driver on large instances
(the enumeration `best` is exponential in the number of detections); on small instances the driver
cross-checks `bestDP = best` on every call. -/
def bestDP (s : List Entry) (thr : Int) : Int × Nat :=
  let qs := queries s
  let ts := tracks s
  let idx (t : Nat) : Nat := (ts.findIdx? (· == t)).getD 0
  let size := 2 ^ ts.length
  let init : Array (Option (Int × Nat)) := (Array.replicate size none).set! 0 (some (0, 1))
  let put (a : Array (Option (Int × Nat))) (m : Nat) (v : Int) (c : Nat) : Array (Option (Int × Nat)) :=
    match a.getD m none with
    | none => a.set! m (some (v, c))
    | some (v0, c0) => if v > v0 then a.set! m (some (v, c)) else if v == v0 then a.set! m (some (v0, c0 + c)) else a
  let final := qs.foldl (fun (cur : Array (Option (Int × Nat))) q =>
    let cands := (tracks (s.filter (fun e => e.q == q))).map (fun t => (idx t, weightOf s q t))
    (List.range size).foldl (fun (nxt : Array (Option (Int × Nat))) m =>
      match cur.getD m none with
      | none => nxt
      | some (v, c) =>
        let nxt := put nxt m (v + thr) c
        cands.foldl (fun nxt (j, w) => if (m >>> j) % 2 == 1 then nxt else put nxt (m ||| (1 <<< j)) (v + w) c) nxt)
      (Array.replicate size none)) init
  final.foldl (fun (acc : Int × Nat) o => match o with
    | none => acc
    | some (v, c) => if acc.2 == 0 || v > acc.1 then (v, c) else if v == acc.1 then (acc.1, acc.2 + c) else acc) (0, 0)

/-- the optimum used by the executable model: the exhaustive enumeration `best` on small instances,
the dynamic programme beyond (where the enumeration is infeasible) -/
def small (s : List Entry) : Bool := decide ((queries s).length ≤ 5) && decide ((tracks s).length ≤ 5)

def bestOf (s : List Entry) (thr : Int) : Int := if small s then best s thr else (bestDP s thr).1

/-- number of optimal assignments -/
def optCount (s : List Entry) (thr : Int) : Nat := if small s then (optimal s thr).length else (bestDP s thr).2
end SimVerif.AssignX
