import SimVerif.Model.Wire
import SimVerif.Gen.Consts
import SimVerif.Model.Voting
/-
Executable matrix-level model of `SortVoting::winners` (src/trackers/sort/voting.rs).

The code builds a `candidate_num × (candidate_num + track_num)` matrix of quantised weights
(`(w * 1e6) as i64`; row/column indices in first-appearance order; a later entry for the same pair
overwrites), sets the diagonal to the threshold, calls `kuhn_munkres` (a maximum-weight perfect
matching of rows to distinct columns) and decodes row `i ↦ column e` to `(id[i], id[e])`, dropping
pairs with id 0. The solver is a parameter: the model enumerates **all** one-to-one partial
assignments and their objective, so whatever optimal solution the solver picks can be validated.
-/
namespace SimVerif.AssignX
open SimVerif.Wire SimVerif.Voting

/-- `F32_U64_MULT`, regenerated from src/trackers/sort/voting.rs -/
def MULT : Rat := Gen.F32_U64_MULT

/-- `(x * F32_U64_MULT) as i64` for a finite f32 `x` -/
def quantise (x : Rat) : Int := truncInt (roundF32 (x * MULT))

structure Entry where
  q : Nat
  t : Nat
  w : Int
deriving Repr, BEq

/-- weight stored for a pair: the last entry for it (assignment overwrites), else 0 -/
def weightOf (s : List Entry) (q t : Nat) : Int :=
  match (s.reverse.find? (fun e => e.q == q && e.t == t)) with
  | some e => e.w
  | none => 0

def queries (s : List Entry) : List Nat := firsts (s.map (·.q))
def tracks (s : List Entry) : List Nat := firsts (s.map (·.t))

/-- all one-to-one partial assignments query ↦ track? (as lists aligned with `qs`) -/
def allAssign : List Nat → List Nat → List (List (Option Nat))
  | [], _ => [[]]
  | _ :: qs, ts =>
    ((allAssign qs ts).map (fun a => none :: a)) ++
    ts.flatMap (fun t => (allAssign qs (ts.filter (· != t))).map (fun a => some t :: a))

/-- objective of the property: matched weight, or the threshold for an unmatched detection -/
def objective (s : List Entry) (thr : Int) : List Nat → List (Option Nat) → Int
  | q :: qs, some t :: as => weightOf s q t + objective s thr qs as
  | _ :: qs, none :: as => thr + objective s thr qs as
  | _, _ => 0

def best (s : List Entry) (thr : Int) : Int :=
  ((allAssign (queries s) (tracks s)).map (objective s thr (queries s))).foldl max
    (objective s thr (queries s) ((queries s).map (fun _ => none)))

def optimal (s : List Entry) (thr : Int) : List (List (Option Nat)) :=
  let b := best s thr
  let qs := queries s
  (allAssign qs (tracks s)).filter (fun a => objective s thr qs a == b)


/-- Dynamic programme over subsets of tracks: the maximum objective over all one-to-one partial
assignments and the number of assignments attaining it. Used by the driver on large instances
(the enumeration `best` is exponential in the number of detections); on small instances the driver
cross-checks `bestDP = best` on every call. -/
def bestDP (s : List Entry) (thr : Int) : Int × Nat :=
  let qs := queries s
  let ts := tracks s
  let idx (t : Nat) : Nat := (ts.findIdx? (· == t)).getD 0
  let size := 2 ^ ts.length
  let init : Array (Option (Int × Nat)) := (Array.replicate size none).set! 0 (some (0, 1))
  let put (a : Array (Option (Int × Nat))) (m : Nat) (v : Int) (c : Nat) : Array (Option (Int × Nat)) :=
    match a.getD m none with
    | none => a.set! m (some (v, c))
    | some (v0, c0) => if v > v0 then a.set! m (some (v, c)) else if v == v0 then a.set! m (some (v0, c0 + c)) else a
  let final := qs.foldl (fun (cur : Array (Option (Int × Nat))) q =>
    let cands := (tracks (s.filter (fun e => e.q == q))).map (fun t => (idx t, weightOf s q t))
    (List.range size).foldl (fun (nxt : Array (Option (Int × Nat))) m =>
      match cur.getD m none with
      | none => nxt
      | some (v, c) =>
        let nxt := put nxt m (v + thr) c
        cands.foldl (fun nxt (j, w) => if (m >>> j) % 2 == 1 then nxt else put nxt (m ||| (1 <<< j)) (v + w) c) nxt)
      (Array.replicate size none)) init
  final.foldl (fun (acc : Int × Nat) o => match o with
    | none => acc
    | some (v, c) => if acc.2 == 0 || v > acc.1 then (v, c) else if v == acc.1 then (acc.1, acc.2 + c) else acc) (0, 0)

/-! ### a certified optimum for large instances

`hungarian` (the classical O(n²m) potential method, unverified) solves the assignment problem "every query
goes to a track or to its own dummy column worth the threshold" and returns dual potentials and a
matching. `certified` *checks* them: dual feasibility (`w(q,t) ≤ U q + V t`, `thr ≤ U q + Vd q`, `V, Vd ≥ 0`),
the matching is a one-to-one partial assignment over the table's tracks, and its objective equals the dual
bound. By weak duality (`Lemmas/AssignCert.lean`, `certified_eq_best`) the returned value is then exactly `best`:
nothing about `hungarian` itself has to be trusted. -/

def INF : Int := 1000000000000000000

/-- potentials `(u, v)` (index 0 unused) and `p[j]` = the row matched to column `j`, for the minimisation
problem `a i j`, rows `1..n`, columns `1..m`, `n ≤ m` -/
def hungarian (n m : Nat) (a : Nat → Nat → Int) : Array Int × Array Int × Array Nat := Id.run do
  let mut u : Array Int := Array.replicate (n + 1) 0
  let mut v : Array Int := Array.replicate (m + 1) 0
  let mut p : Array Nat := Array.replicate (m + 1) 0
  let mut way : Array Nat := Array.replicate (m + 1) 0
  for i in [1:n+1] do
    p := p.set! 0 i
    let mut j0 := 0
    let mut minv : Array Int := Array.replicate (m + 1) INF
    let mut used : Array Bool := Array.replicate (m + 1) false
    for _ in [0:m+2] do
      used := used.set! j0 true
      let i0 := p[j0]!
      let mut delta := INF
      let mut j1 := 0
      for j in [1:m+1] do
        if !used[j]! then
          let cur := a i0 j - u[i0]! - v[j]!
          if cur < minv[j]! then
            minv := minv.set! j cur
            way := way.set! j j0
          if minv[j]! < delta then
            delta := minv[j]!
            j1 := j
      for j in [0:m+1] do
        if used[j]! then
          u := u.set! p[j]! (u[p[j]!]! + delta)
          v := v.set! j (v[j]! - delta)
        else
          minv := minv.set! j (minv[j]! - delta)
      j0 := j1
      if p[j0]! == 0 then break
    for _ in [0:m+2] do
      let j1 := way[j0]!
      p := p.set! j0 p[j1]!
      j0 := j1
      if j0 == 0 then break
  return (u, v, p)

def lookupD (l : List (Nat × Int)) (k : Nat) : Int := ((l.find? (fun p => p.1 == k)).map (·.2)).getD 0

/-- structural duplicate-freeness test -/
def nodupN : List Nat → Bool
  | [] => true
  | a :: l => !l.contains a && nodupN l

def isum (l : List Int) : Int := l.foldr (· + ·) 0

/-- dual feasibility of `(U, V, Vd)` for the table, and `a` a one-to-one partial assignment over its tracks
whose objective equals the dual bound: then that bound is the optimum -/
def certOK (s : List Entry) (thr : Int) (U V Vd : Nat → Int) (a : List (Option Nat)) : Bool :=
  let qs := queries s
  let ts := tracks s
  qs.all (fun q => ts.all (fun t => decide (weightOf s q t ≤ U q + V t))) &&
  qs.all (fun q => decide (thr ≤ U q + Vd q) && decide (0 ≤ Vd q)) &&
  ts.all (fun t => decide (0 ≤ V t)) &&
  a.length == qs.length && (a.filterMap id).all (fun t => ts.contains t) &&
  nodupN (a.filterMap id) &&
  objective s thr qs a == isum (qs.map U) + isum (qs.map Vd) + isum (ts.map V)

/-- run the solver and check its certificate; `some B` only when `B` is certified -/
def certified (s : List Entry) (thr : Int) : Option Int :=
  let qs := queries s
  let ts := tracks s
  let n := qs.length
  let m := ts.length
  let qa := qs.toArray
  let ta := ts.toArray
  let cost (i j : Nat) : Int :=
    if j ≤ m then -(weightOf s (qa.getD (i - 1) 0) (ta.getD (j - 1) 0))
    else if j == m + i then -thr else INF / 4
  let (u, v, p) := hungarian n (m + n) cost
  let U : Nat → Int := lookupD (qs.zip ((List.range n).map (fun i => -(u.getD (i + 1) 0))))
  let V : Nat → Int := lookupD (ts.zip ((List.range m).map (fun j => -(v.getD (j + 1) 0))))
  let Vd : Nat → Int := lookupD (qs.zip ((List.range n).map (fun i => -(v.getD (m + i + 1) 0))))
  -- row i (1-based) is matched to the column j with p[j] = i
  let a : List (Option Nat) := (List.range n).map (fun i =>
    match (List.range (m + n + 1)).find? (fun j => decide (1 ≤ j) && p.getD j 0 == i + 1) with
    | some j => if j ≤ m then some (ta.getD (j - 1) 0) else none
    | none => none)
  if certOK s thr U V Vd a then some (isum (qs.map U) + isum (qs.map Vd) + isum (ts.map V)) else none

/-- the optimum used by the executable model: the exhaustive enumeration `best` on small instances; beyond
(where the enumeration is infeasible) the certified optimum of the potential method, which *is* `best`
(`bestOf_eq_best`). Should the solver ever fail to produce a certificate the definition falls back to the
enumeration, so `bestOf = best` holds unconditionally; the driver reports that case as a machinery error
instead of evaluating it. -/
def small (s : List Entry) : Bool := decide ((queries s).length ≤ 5) && decide ((tracks s).length ≤ 5)

def bestOf (s : List Entry) (thr : Int) : Int :=
  if small s then best s thr else
  match certified s thr with
  | some b => b
  | none => best s thr

/-- number of optimal assignments -/
def optCount (s : List Entry) (thr : Int) : Nat := if small s then (optimal s thr).length else (bestDP s thr).2
end SimVerif.AssignX
