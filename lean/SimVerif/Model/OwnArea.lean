import SimVerif.Gen.Consts
import SimVerif.Model.Geom
/-
Model of src/utils/clipping/bbox_own_areas.rs (`exclusively_owned_areas`,
`exclusively_owned_areas_normalized_shares`).

* Grid model (axis-aligned boxes, exact): the x- and y-coordinates of all box sides cut the plane
  into cells; every cell lies wholly inside or wholly outside every box of the set; the exclusively
  owned area of `b` is the total area of the cells inside `b` and inside no other box.
* Reference for arbitrary (rotated) boxes, executable only: inclusion–exclusion over the convex
  intersections computed by the Sutherland–Hodgman model of `Model/Geom.lean`.
-/
namespace SimVerif.OwnArea

structure ABox where
  x0 : Rat
  y0 : Rat
  x1 : Rat
  y1 : Rat
deriving Repr, BEq, DecidableEq

def ABox.area (b : ABox) : Rat := (b.x1 - b.x0) * (b.y1 - b.y0)

/-- a proper box: left ≤ right, bottom ≤ top -/
def ABox.wf (b : ABox) : Prop := b.x0 ≤ b.x1 ∧ b.y0 ≤ b.y1

/-- insertion sort (structural, so examples evaluate in the kernel) -/
def ins (a : Rat) : List Rat → List Rat
  | [] => [a]
  | b :: l => if a ≤ b then a :: b :: l else b :: ins a l

def isort : List Rat → List Rat
  | [] => []
  | a :: l => ins a (isort l)

/-- consecutive pairs of a list -/
def segs : List Rat → List (Rat × Rat)
  | a :: b :: l => (a, b) :: segs (b :: l)
  | _ => []

structure Cell where
  xa : Rat
  xb : Rat
  ya : Rat
  yb : Rat
deriving Repr, BEq, DecidableEq

def Cell.area (c : Cell) : Rat := (c.xb - c.xa) * (c.yb - c.ya)

/-- the cell lies inside the box -/
def inside (c : Cell) (b : ABox) : Bool :=
  decide (b.x0 ≤ c.xa) && decide (c.xb ≤ b.x1) && decide (b.y0 ≤ c.ya) && decide (c.yb ≤ b.y1)

def xcuts (all : List ABox) : List Rat := isort (all.flatMap (fun a => [a.x0, a.x1]))
def ycuts (all : List ABox) : List Rat := isort (all.flatMap (fun a => [a.y0, a.y1]))

/-- the cells of the grid spanned by the sides of all boxes -/
def cells (all : List ABox) : List Cell :=
  (segs (xcuts all)).flatMap (fun sx => (segs (ycuts all)).map (fun sy => ⟨sx.1, sx.2, sy.1, sy.2⟩))

def rsum (l : List Rat) : Rat := l.foldr (· + ·) 0

/-- exclusively owned area of `b` among `others` -/
def own (b : ABox) (others : List ABox) : Rat :=
  rsum ((cells (b :: others)).map (fun c => if inside c b && !others.any (inside c) then c.area else 0))

/-- `exclusively_owned_areas_normalized_shares`: own / (area + EPS), clamped at 1 -/
def shareOf (ownArea area : Rat) : Rat :=
  let e := ownArea / (area + Gen.EPS)
  if e ≥ 1 then 1 else e

def share (b : ABox) (others : List ABox) : Rat := shareOf (own b others) b.area

/-- the whole call: one share per box, every box against all the others -/
def shares (boxes : List ABox) : List Rat :=
  (List.range boxes.length).map (fun i => match boxes[i]? with
    | some b => share b (boxes.eraseIdx i)
    | none => 0)

/-! ### reference for arbitrary convex polygons (executable only) -/
open SimVerif.Geom in
/-- make a convex polygon clockwise (the orientation `shClip` expects of the clipping polygon) -/
def clockwise (p : List (Pt Rat)) : List (Pt Rat) := if shoelace2 p > 0 then p.reverse else p

open SimVerif.Geom in
/-- `Σ_{∅ ≠ S ⊆ rest} sign·(−1)^{|S|+1} · area(poly ∩ ⋂ S)`, pruning empty intersections -/
def inclExcl : Nat → List (Pt Rat) → List (List (Pt Rat)) → Rat
  | 0, _, _ => 0
  | _, _, [] => 0
  | fuel+1, poly, p :: rest =>
    let c := shClip poly p
    let a := polyArea c
    (if a == 0 then 0 else a - inclExcl fuel c rest) + inclExcl fuel poly rest

open SimVerif.Geom in
/-- area of `poly` covered by none of `others` -/
def ownRef (poly : List (Pt Rat)) (others : List (List (Pt Rat))) : Rat :=
  polyArea poly - inclExcl (others.length + 1) (clockwise poly) (others.map clockwise)

end SimVerif.OwnArea
