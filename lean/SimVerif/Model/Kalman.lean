import SimVerif.Gen.Consts
/-
Model of the Kalman filters (src/utils/kalman/kalman_2d_box.rs, kalman_2d_point.rs,
kalman_2d_point_vec.rs), generic in the scalar type.

All matrices of these filters are block matrices `[[A, B], [Bᵀ, D]]` whose `n×n` blocks are diagonal
(true after `initiate`, preserved by `predict` and `update`), so the filter is `n` independent
constant-velocity filters, one per coordinate: position/velocity mean `(p, v)` and covariance
`[[a, b], [b, d]]`. This file models one coordinate (`C1`) and the box / point filters as lists of
coordinates with the library's noise model (constants regenerated from the source, `Gen.Consts`).
The driver additionally runs the full 10×10 matrix recursion on the implementation's own states and
checks that it coincides with this per-coordinate form (off-pattern entries stay 0).
-/
namespace SimVerif.Kalman

variable {α : Type} [Zero α] [One α] [Add α] [Sub α] [Mul α] [Div α]

/-- one coordinate: means and the 2×2 covariance `[[a, b], [b, d]]` -/
structure C1 (α : Type) where
  p : α
  v : α
  a : α
  b : α
  d : α
deriving Repr, BEq

/-- `initiate` for one coordinate: measured position, zero velocity, diagonal covariance -/
def init1 (z stdP stdV : α) : C1 α := { p := z, v := 0, a := stdP * stdP, b := 0, d := stdV * stdV }

/-- `predict` (`F = [[1, dt], [0, 1]]`, `dt = 1`, process noise `diag(qp, qv)`) -/
def predict1 (c : C1 α) (qp qv : α) : C1 α :=
  { p := c.p + c.v, v := c.v, a := c.a + c.b + c.b + c.d + qp, b := c.b + c.d, d := c.d + qv }

/-- innovation variance `S = H P Hᵀ + R` with `H = [1 0]` -/
def s1 (c : C1 α) (r : α) : α := c.a + r

/-- `update` with measurement `z`, measurement noise `r`: `K = P Hᵀ S⁻¹`, `m + K (z − H m)`, `P − K S Kᵀ` -/
def update1 (c : C1 α) (r z : α) : C1 α :=
  let s := s1 c r
  let k1 := c.a / s
  let k2 := c.b / s
  let y := z - c.p
  { p := c.p + k1 * y, v := c.v + k2 * y,
    a := c.a - k1 * s * k1, b := c.b - k1 * s * k2, d := c.d - k2 * s * k2 }

/-- squared Mahalanobis distance of `z` from the projected state, one coordinate -/
def dist1 (c : C1 α) (r z : α) : α := (z - c.p) * (z - c.p) / s1 c r

def lsum (l : List α) : α := l.foldr (· + ·) 0

/-! ### the box filter (5 coordinates: xc, yc, angle, aspect, height) -/

/-- `std_position(k, cnst, h)` / `std_velocity(k, cnst, h)`: `k·w·h` for every coordinate except
the aspect (index `Gen.stdConstIndex`), which gets the constant -/
def stdVec (k w cnst h : α) (n : Nat) (constIdx : Nat) : List α :=
  (List.range n).map (fun i => if i = constIdx then cnst else k * w * h)

structure BoxCfg (α : Type) where
  wp : α        -- position weight
  wv : α        -- velocity weight
  initPosK : α
  initPosC : α
  initVelK : α
  initVelC : α
  predPosK : α
  predPosC : α
  predVelK : α
  predVelC : α
  projPosK : α
  projPosC : α
  constIdx : Nat

/-- measurement vector of a box: xc, yc, angle (0 when absent), aspect, height -/
abbrev Meas (α : Type) := List α

def heightOf (st : List (C1 α)) : α := ((st.map (·.p))[4]?).getD 0

def boxInitiate (cfg : BoxCfg α) (z : Meas α) : List (C1 α) :=
  let h := (z[4]?).getD 0
  let sp := stdVec cfg.initPosK cfg.wp cfg.initPosC h 5 cfg.constIdx
  let sv := stdVec cfg.initVelK cfg.wv cfg.initVelC h 5 cfg.constIdx
  (z.zip (sp.zip sv)).map (fun (zi, spi, svi) => init1 zi spi svi)

def boxPredict (cfg : BoxCfg α) (st : List (C1 α)) : List (C1 α) :=
  let h := heightOf st
  let sp := stdVec cfg.predPosK cfg.wp cfg.predPosC h 5 cfg.constIdx
  let sv := stdVec cfg.predVelK cfg.wv cfg.predVelC h 5 cfg.constIdx
  (st.zip (sp.zip sv)).map (fun (c, spi, svi) => predict1 c (spi * spi) (svi * svi))

/-- measurement noise variances of `project` -/
def boxR (cfg : BoxCfg α) (st : List (C1 α)) : List α :=
  (stdVec cfg.projPosK cfg.wp cfg.projPosC (heightOf st) 5 cfg.constIdx).map (fun s => s * s)

def boxUpdate (cfg : BoxCfg α) (st : List (C1 α)) (z : Meas α) : List (C1 α) :=
  (st.zip ((boxR cfg st).zip z)).map (fun (c, r, zi) => update1 c r zi)

def boxDistance (cfg : BoxCfg α) (st : List (C1 α)) (z : Meas α) : α :=
  lsum ((st.zip ((boxR cfg st).zip z)).map (fun (c, r, zi) => dist1 c r zi))

/-! ### the point filter (2 coordinates, constant noise) and the vector of point filters -/
structure PtCfg (α : Type) where
  wp : α
  wv : α
  initPosK : α
  initVelK : α
  predPosK : α
  predVelK : α
  projPosK : α

def ptInitiate (cfg : PtCfg α) (z : List α) : List (C1 α) :=
  z.map (fun zi => init1 zi (cfg.initPosK * cfg.wp) (cfg.initVelK * cfg.wv))

def ptPredict (cfg : PtCfg α) (st : List (C1 α)) : List (C1 α) :=
  st.map (fun c => predict1 c ((cfg.predPosK * cfg.wp) * (cfg.predPosK * cfg.wp)) ((cfg.predVelK * cfg.wv) * (cfg.predVelK * cfg.wv)))

def ptR (cfg : PtCfg α) : α := (cfg.projPosK * cfg.wp) * (cfg.projPosK * cfg.wp)

def ptUpdate (cfg : PtCfg α) (st : List (C1 α)) (z : List α) : List (C1 α) :=
  (st.zip z).map (fun (c, zi) => update1 c (ptR cfg) zi)

def ptDistance (cfg : PtCfg α) (st : List (C1 α)) (z : List α) : α :=
  lsum ((st.zip z).map (fun (c, zi) => dist1 c (ptR cfg) zi))

/-- `Vec2DKalmanFilter`: every point has its own point filter -/
def vecPredict (cfg : PtCfg α) (sts : List (List (C1 α))) : List (List (C1 α)) := sts.map (ptPredict cfg)
def vecUpdate (cfg : PtCfg α) (sts : List (List (C1 α))) (zs : List (List α)) : List (List (C1 α)) :=
  (sts.zip zs).map (fun (st, z) => ptUpdate cfg st z)
def vecDistance (cfg : PtCfg α) (sts : List (List (C1 α))) (zs : List (List α)) : List α :=
  (sts.zip zs).map (fun (st, z) => ptDistance cfg st z)

/-! ### cost conversions (`calculate_cost`), gates regenerated from the source -/
section Cost
variable [LT α] [DecidableLT α]

def costDirect (gate upper : α) (d : α) : α := if gate < d then upper else d
def costInverted (gate upper : α) (d : α) : α := if gate < d then 0 else upper - d
end Cost

end SimVerif.Kalman
