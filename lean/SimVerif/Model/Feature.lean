import SimVerif.Gen.Consts
/-
Model of feature packing (`FromVec` impls in src/track/utils.rs) and of the distance functions
(src/distance.rs), generic in the scalar type so that the driver runs it on `Rat` and the
theorems are stated over any ordered field / `ℝ`.

`Feature = Vec<f32x8>`: a list of blocks of `lanes = 8` values.
-/
namespace SimVerif.Feature

/-- `FEATURE_LANES_SIZE`, regenerated from src/track.rs -/
def lanes : Nat := Gen.FEATURE_LANES_SIZE

variable {α : Type} [Zero α] [Add α] [Sub α] [Mul α]

/-- loop state of `Feature::from_vec(&Vec<f32>)` -/
structure PState (α : Type) where
  feature : List (List α)
  acc : List α
  part : Nat

def zeros : List α := List.replicate lanes 0

/-- loop body for element `x` at position `counter` -/
def packStep (st : PState α) (counter : Nat) (x : α) : PState α :=
  let part := counter % lanes
  let acc := if part = 0 then zeros else st.acc
  let acc := acc.set part x
  if part = lanes - 1 then { feature := st.feature ++ [acc], acc := acc, part := lanes }
  else { feature := st.feature, acc := acc, part := part }

def packLoop : List α → Nat → PState α → PState α
  | [], _, st => st
  | x :: rest, counter, st => packLoop rest (counter + 1) (packStep st counter x)

/-- `Feature::from_vec` -/
def pack (v : List α) : List (List α) :=
  let st := packLoop v 0 { feature := [], acc := zeros, part := 0 }
  if st.part < lanes then st.feature ++ [st.acc] else st.feature

/-- `Vec::<f32>::from_vec(&Feature)` -/
def unpack (f : List (List α)) : List α := f.flatten

def lsum (l : List α) : α := l.foldr (· + ·) 0

/-- lane-wise block operations (`sub_assign`, `mul_assign` / `mul` on one SIMD block) -/
def blockSub (b1 b2 : List α) : List α := List.zipWith (· - ·) b1 b2
def blockMul (b1 b2 : List α) : List α := List.zipWith (· * ·) b1 b2

/-- `reduce_add` of `(b1 - b2) * (b1 - b2)` for one block -/
def blockSq (b1 b2 : List α) : α := lsum ((b1.zip b2).map (fun p => (p.1 - p.2) * (p.1 - p.2)))
def blockDot (b1 b2 : List α) : α := lsum ((b1.zip b2).map (fun p => p.1 * p.2))

/-- radicand of `euclidean`: block-wise accumulation over the first `min len` blocks -/
def sqEuclid (f1 f2 : List (List α)) : α := lsum ((f1.zip f2).map (fun p => blockSq p.1 p.2))

/-- numerator of `cosine` -/
def dot (f1 f2 : List (List α)) : α := lsum ((f1.zip f2).map (fun p => blockDot p.1 p.2))

/-- `f.iter().take(len).fold(0, |acc, a| acc + (a*a).reduce_add())` -/
def sqNorm (f : List (List α)) (len : Nat) : α := lsum ((f.take len).map (fun b => blockDot b b))

/-- flat (textbook) versions on plain vectors -/
def flatSq (a b : List α) : α := lsum ((a.zip b).map (fun p => (p.1 - p.2) * (p.1 - p.2)))
def flatDot (a b : List α) : α := lsum ((a.zip b).map (fun p => p.1 * p.2))

end SimVerif.Feature
