import SimVerif.Model.Assign
/-
Layer-L model of the four trackers' association / lifecycle logic (src/trackers/**: predict
prologues, `TrackerAPI`, `EpochDb`, `SortAttributes` / `VisualAttributes` bookkeeping).

The numeric kernel (IoU / Mahalanobis / feature distances) is NOT part of this model: a predict
step receives the table of distances the kernel produced for this call and a *choice* (which
detection continues which track / which new id it got). The step is defined only when the choice is
valid for the table (`validChoice`): theorems quantify over every table and every valid choice.
-/
namespace SimVerif.Tracker
open SimVerif.AssignX

structure Det where
  tok : Nat                 -- identifies the detection (its observed box) in the history
  custom : Option Int
deriving Repr, BEq, DecidableEq

structure Trk where
  id : Nat
  scene : Nat
  lastUpd : Nat
  len : Nat
  custom : Option Int
  obsH : List Nat           -- bounded history of observed boxes (tokens), oldest first
  visual : Bool             -- voting type of the last attachment (`true` = Visual)
deriving Repr, BEq, DecidableEq

structure Cfg where
  maxIdle : Nat
  histLen : Nat             -- > 0
  batchIds : Bool           -- batch trackers draw an id for every candidate
  thr : Int                 -- quantised positional threshold
deriving Repr

structure St where
  epochs : List (Nat × Nat) := []
  live : List Trk := []
  wasted : List Trk := []       -- the store of collected expired tracks
  nextId : Nat := 0
  awPeriod : Nat := Gen.DEFAULT_AUTO_WASTE_PERIODICITY
  awCounter : Nat := Gen.DEFAULT_AUTO_WASTE_PERIODICITY
  handed : List Nat := []       -- ghost: ids handed out by `wasted()`
  cleared : List Nat := []      -- ghost: ids dropped by `clear_wasted()`
deriving Repr

structure Rec where
  id : Nat
  epoch : Nat
  scene : Nat
  len : Nat
  custom : Option Int
  tok : Nat
  visual : Bool
deriving Repr, BEq, DecidableEq

/-- what the association decided for one detection -/
inductive Pick where
  | cont (tid : Nat) (visual : Bool)   -- continue an existing track
  | fresh (id : Nat)                   -- start a new track with this id
deriving Repr, BEq, DecidableEq

def epochOf (st : St) (s : Nat) : Nat := ((st.epochs.find? (fun p => p.1 == s)).map (·.2)).getD 0

def setEpoch (st : St) (s e : Nat) : St :=
  { st with epochs := st.epochs.filter (fun p => !(p.1 == s)) ++ [(s, e)] }

/-- `EpochDb::baked`: Wasted iff `last_updated + max_idle < current epoch of the scene` -/
def expired (cfg : Cfg) (st : St) (t : Trk) : Bool := decide (t.lastUpd + cfg.maxIdle < epochOf st t.scene)

/-- `auto_waste()`: move every expired live track to the wasted store -/
def collect (cfg : Cfg) (st : St) : St :=
  { st with live := st.live.filter (fun t => !expired cfg st t),
            wasted := st.wasted ++ st.live.filter (fun t => expired cfg st t) }

/-- the countdown at the head of every `predict` -/
def awStep (cfg : Cfg) (st : St) : St :=
  if st.awCounter == 0 then { collect cfg st with awCounter := st.awPeriod }
  else { st with awCounter := st.awCounter - 1 }

def pushBounded (h : List Nat) (x : Nat) (n : Nat) : List Nat :=
  let h' := h ++ [x]
  if n > 0 && h'.length > n then h'.drop 1 else h'

/-- one distance entry of the call: detection index, track id, quantised positional weight -/
structure Entry where
  det : Nat
  tid : Nat
  w : Int
deriving Repr, BEq

def findLive (st : St) (tid : Nat) : Option Trk := st.live.find? (fun t => t.id == tid)

/-- a table entry is admissible only for a live, same-scene, unexpired track -/
def entryOk (cfg : Cfg) (st : St) (scene e : Nat) (x : Entry) : Bool :=
  match findLive st x.tid with
  | some t => t.scene == scene && decide (e - t.lastUpd ≤ cfg.maxIdle)
  | none => false

/-- the effect of one pick: the state afterwards and the record returned for the detection -/
def applyPick (cfg : Cfg) (scene e : Nat) (st : St) (d : Det) (p : Pick) : Option (St × Rec) :=
  let st1 := if cfg.batchIds then { st with nextId := st.nextId + 1 } else st
  match p with
  | .cont tid vis =>
    match findLive st1 tid with
    | none => none
    | some t =>
      let t' : Trk := { t with lastUpd := e, len := t.len + 1, custom := d.custom,
                               obsH := pushBounded t.obsH d.tok cfg.histLen, visual := vis }
      some ({ st1 with live := st1.live.map (fun x => if x.id == tid then t' else x) },
            { id := tid, epoch := e, scene := t'.scene, len := t'.len, custom := t'.custom, tok := d.tok, visual := vis })
  | .fresh id =>
    let st2 := if cfg.batchIds then st1 else { st1 with nextId := st1.nextId + 1 }
    let t' : Trk := { id := id, scene := scene, lastUpd := e, len := 1, custom := d.custom, obsH := [d.tok], visual := false }
    some ({ st2 with live := st2.live ++ [t'] },
          { id := id, epoch := e, scene := scene, len := 1, custom := d.custom, tok := d.tok, visual := false })

/-- apply the picks in detection order -/
def applyPicks (cfg : Cfg) (scene e : Nat) : List Det → List Pick → St → Option (St × List Rec)
  | [], [], st => some (st, [])
  | d :: ds, p :: ps, st =>
    match applyPick cfg scene e st d p with
    | none => none
    | some (st1, r) =>
      match applyPicks cfg scene e ds ps st1 with
      | none => none
      | some (st2, rs) => some (st2, r :: rs)
  | _, _, _ => none

/-- structural duplicate-freeness test -/
def nodupB : List Nat → Bool
  | [] => true
  | a :: l => !l.contains a && nodupB l

/-- ids a `fresh` pick may carry: the simple trackers issue `nextId+1, nextId+2, …` in detection order;
the batch trackers issue, for the i-th candidate of the call, some id of the batch's range
(`lo < id ≤ hi`), increasing within the call and never issued before -/
def freshIdsOk (cfg : Cfg) (st : St) (lo hi : Nat) (picks : List Pick) : Bool :=
  let ids := picks.filterMap (fun p => match p with | .fresh id => some id | _ => none)
  if cfg.batchIds then
    ids.all (fun id => decide (lo < id) && decide (id ≤ hi) && !(st.live.any (fun t => t.id == id))) &&
    nodupB ids
  else ids == (List.range ids.length).map (fun i => st.nextId + 1 + i)

/-- positional part of the choice as a partial assignment aligned with the detections -/
def contOf (p : Pick) : Option Nat := match p with | .cont tid _ => some tid | .fresh _ => none

/-- validity of a choice for a distance table: admissible entries only, every continuation gated and
in the table, one-to-one, and of maximum total weight (unmatched = threshold) among all one-to-one
partial assignments over the table -/
def validChoice (cfg : Cfg) (st : St) (scene e : Nat) (n : Nat) (table : List Entry) (picks : List Pick) : Bool :=
  let conts := picks.map contOf
  let es : List AssignX.Entry := table.map (fun x => { q := x.det + 1, t := x.tid, w := x.w })
  picks.length == n &&
  table.all (entryOk cfg st scene e) &&
  ((List.range n).zip conts).all (fun (i, c) => match c with
    | some tid => table.any (fun x => x.det == i && x.tid == tid && decide (cfg.thr ≤ x.w))
    | none => true) &&
  nodupB (conts.filterMap id) &&
  -- optimality over the detections that have entries (others can only be unmatched)
  (let qs := queries es
   let asg := qs.map (fun q => (conts.getD (q - 1) none))
   objective es cfg.thr qs asg == bestOf es cfg.thr)

/-- the per-scene part of `predict`: advance the scene's epoch, validate the choice, apply it -/
def predictScene (cfg : Cfg) (st : St) (scene : Nat) (dets : List Det) (table : List Entry) (picks : List Pick)
    (lo hi : Nat) : Option (St × List Rec) :=
  let e := epochOf st scene + 1
  let st2 := setEpoch st scene e
  if validChoice cfg st2 scene e dets.length table picks && freshIdsOk cfg st2 lo hi picks then
    applyPicks cfg scene e dets picks st2
  else none

/-- `predict` of the simple trackers: countdown, then the scene step -/
def predict (cfg : Cfg) (st : St) (scene : Nat) (dets : List Det) (table : List Entry) (picks : List Pick) :
    Option (St × List Rec) :=
  predictScene cfg (awStep cfg st) scene dets table picks 0 0

/-- the scenes of one batch, one after the other -/
def batchScenes (cfg : Cfg) (lo hi : Nat) : List (Nat × List Det × List Entry × List Pick) → St →
    Option (St × List (Nat × List Rec))
  | [], st => some (st, [])
  | (scene, dets, table, picks) :: rest, st =>
    match predictScene cfg st scene dets table picks lo hi with
    | none => none
    | some (st', recs) =>
      match batchScenes cfg lo hi rest st' with
      | none => none
      | some (st'', out) => some (st'', (scene, recs) :: out)

/-- `predict` of the batch trackers: countdown once, then every scene of the batch (in the order
the voting results are taken here; `C06_commute`: the order does not matter) -/
def predictBatch (cfg : Cfg) (st : St) (scenes : List (Nat × List Det × List Entry × List Pick)) :
    Option (St × List (Nat × List Rec)) :=
  let st1 := awStep cfg st
  let lo := st1.nextId
  let hi := lo + (scenes.map (fun s => s.2.1.length)).foldl (· + ·) 0
  (batchScenes cfg lo hi scenes st1).map (fun r => ({ r.1 with nextId := hi }, r.2))

/-- `skip_epochs_for_scene`: advance the scene's epoch, then `auto_waste()` -/
def skip (cfg : Cfg) (st : St) (scene n : Nat) : St :=
  collect cfg (setEpoch st scene (epochOf st scene + n))

/-- `wasted()`: collect, then hand out everything in the wasted store -/
def wastedOp (cfg : Cfg) (st : St) : St × List Trk :=
  let st1 := collect cfg st
  ({ st1 with wasted := [], handed := st1.handed ++ st1.wasted.map (·.id) }, st1.wasted)

/-- `idle_tracks_with_scene`: unexpired tracks of the scene not updated in its current epoch -/
def idle (cfg : Cfg) (st : St) (scene : Nat) : List Trk :=
  st.live.filter (fun t => t.scene == scene && !expired cfg st t && !(t.lastUpd == epochOf st scene))

def clearWasted (st : St) : St := { st with wasted := [], cleared := st.cleared ++ st.wasted.map (·.id) }

def setAutoWaste (st : St) (p : Nat) : St := { st with awPeriod := p, awCounter := 0 }

def shardCounts (n : Nat) (l : List Trk) : List Nat := (List.range n).map (fun k => (l.filter (fun t => t.id % n == k)).length)

end SimVerif.Tracker
