import SimVerif.Model.Assign
import SimVerif.Model.Nms
/-
Layer-L model of the four trackers' association / lifecycle logic (src/trackers/**: predict
prologues, `TrackerAPI`, `EpochDb`, `SortAttributes` / `VisualAttributes` bookkeeping).

The numeric kernel (IoU / Mahalanobis / feature distances) is NOT part of this model: a predict
step receives the table of distances the kernel produced for this call and a *choice* (which
detection continues which track / which new id it got). The step is defined only when the choice is
valid for the table (`validChoice`): theorems quantify over every table and every valid choice.
-/
namespace SimVerif.Tracker
open SimVerif.AssignX

structure Det where
  tok : Nat                 -- identifies the detection (its observed box) in the history
  custom : Option Int
  quality : Rat := 1        -- VisualSORT: feature quality
  feat : Nat := 0           -- VisualSORT: token of the appearance feature, 0 = none
  collectOk : Bool := true  -- VisualSORT: the detection meets the *collect* thresholds (Layer G decision)
deriving Repr, BEq, DecidableEq

/-- one stored observation of a VisualSORT track: quality, feature token (0 = none), whether it
still carries its box (only the newest does) -/
structure GE where
  quality : Rat
  feat : Nat
  box : Bool
deriving Repr, BEq, DecidableEq

structure Trk where
  id : Nat
  scene : Nat
  lastUpd : Nat
  len : Nat
  custom : Option Int
  obsH : List Nat           -- bounded history of observed boxes (tokens), oldest first
  visual : Bool             -- voting type of the last attachment (`true` = Visual)
  vcount : Nat := 0         -- VisualSORT: `visual_features_collected_count`
  gallery : List GE := []   -- VisualSORT: observations of class 0, newest first
  featH : List Nat := []    -- VisualSORT: bounded history of observed features (raw, 0 = none)
  vt : Option Bool := none  -- VisualSORT: `voting_type` attribute (`none` until the first merge)
deriving Repr, BEq, DecidableEq

structure Cfg where
  maxIdle : Nat
  histLen : Nat             -- > 0
  batchIds : Bool           -- batch trackers draw an id for every candidate
  thr : Int                 -- quantised positional threshold
  visual : Bool := false    -- VisualSORT kinds
  maxObs : Nat := 1         -- `visual_max_observations` (≥ 1, asserted by the options builder)
  minVotes : Nat := 1       -- `visual_min_votes`
deriving Repr

/-- a SORT-kind track / detection (no appearance data) -/
def Trk.simple (id scene lastUpd len : Nat) (custom : Option Int) (obsH : List Nat) : Trk :=
  { id := id, scene := scene, lastUpd := lastUpd, len := len, custom := custom, obsH := obsH, visual := false }
def Det.simple (tok : Nat) (custom : Option Int) : Det := { tok := tok, custom := custom }

structure St where
  epochs : List (Nat × Nat) := []
  live : List Trk := []
  wasted : List Trk := []       -- the store of collected expired tracks
  nextId : Nat := 0
  awPeriod : Nat := Gen.DEFAULT_AUTO_WASTE_PERIODICITY
  awCounter : Nat := Gen.DEFAULT_AUTO_WASTE_PERIODICITY
  handed : List Nat := []       -- ghost: ids handed out by `wasted()`
  cleared : List Nat := []      -- ghost: ids dropped by `clear_wasted()`
deriving Repr

structure Rec where
  id : Nat
  epoch : Nat
  scene : Nat
  len : Nat
  custom : Option Int
  tok : Nat
  visual : Bool
deriving Repr, BEq, DecidableEq

/-- what the association decided for one detection -/
inductive Pick where
  | cont (tid : Nat) (visual : Bool)   -- continue an existing track
  | fresh (id : Nat)                   -- start a new track with this id
deriving Repr, BEq, DecidableEq

def epochOf (st : St) (s : Nat) : Nat := ((st.epochs.find? (fun p => p.1 == s)).map (·.2)).getD 0

def setEpoch (st : St) (s e : Nat) : St :=
  { st with epochs := st.epochs.filter (fun p => !(p.1 == s)) ++ [(s, e)] }

/-- `EpochDb::baked`: Wasted iff `last_updated + max_idle < current epoch of the scene` -/
def expired (cfg : Cfg) (st : St) (t : Trk) : Bool := decide (t.lastUpd + cfg.maxIdle < epochOf st t.scene)

/-- `auto_waste()`: move every expired live track to the wasted store -/
def collect (cfg : Cfg) (st : St) : St :=
  { st with live := st.live.filter (fun t => !expired cfg st t),
            wasted := st.wasted ++ st.live.filter (fun t => expired cfg st t) }

/-- the countdown at the head of every `predict` -/
def awStep (cfg : Cfg) (st : St) : St :=
  if st.awCounter == 0 then { collect cfg st with awCounter := st.awPeriod }
  else { st with awCounter := st.awCounter - 1 }

def pushBounded (h : List Nat) (x : Nat) (n : Nat) : List Nat :=
  let h' := h ++ [x]
  if n > 0 && h'.length > n then h'.drop 1 else h'

/-- `VisualMetric::optimize` on the observations of class 0: keep the old observations that carry a
feature, without their boxes, stably sorted by decreasing quality; if that already fills the
gallery drop the last (lowest quality); append the new observation and swap it to the front -/
def galleryUpdate (maxObs : Nat) (old : List GE) (new : GE) : List GE :=
  let kept := (old.filter (fun g => g.feat != 0)).map (fun g => { g with box := false })
  let sorted := kept.mergeSort (fun a b => decide (b.quality ≤ a.quality))
  let cut := if sorted.length ≥ maxObs then sorted.dropLast else sorted
  match cut with
  | [] => [new]
  | a0 :: rest => new :: rest ++ [a0]

def featCount (g : List GE) : Nat := (g.filter (fun e => e.feat != 0)).length

/-- one distance entry of the call: detection index, track id, quantised positional weight -/
structure Entry where
  det : Nat
  tid : Nat
  w : Int
deriving Repr, BEq, DecidableEq

def findLive (st : St) (tid : Nat) : Option Trk := st.live.find? (fun t => t.id == tid)

/-- a table entry is admissible only for a live, same-scene, unexpired track -/
def entryOk (cfg : Cfg) (st : St) (scene e : Nat) (x : Entry) : Bool :=
  match findLive st x.tid with
  | some t => t.scene == scene && decide (e - t.lastUpd ≤ cfg.maxIdle)
  | none => false

/-- the effect of one pick: the state afterwards and the record returned for the detection -/
def applyPick (cfg : Cfg) (scene e : Nat) (st : St) (d : Det) (p : Pick) : Option (St × Rec) :=
  let st1 := if cfg.batchIds then { st with nextId := st.nextId + 1 } else st
  match p with
  | .cont tid vis =>
    match findLive st1 tid with
    | none => none
    | some t =>
      let g' := if cfg.visual then
          galleryUpdate cfg.maxObs t.gallery { quality := d.quality, feat := if d.collectOk then d.feat else 0, box := true }
        else t.gallery
      let t' : Trk := { t with lastUpd := e, len := t.len + 1, custom := d.custom,
                               obsH := pushBounded t.obsH d.tok cfg.histLen, visual := vis,
                               gallery := g', vcount := if cfg.visual then featCount g' else t.vcount,
                               vt := if cfg.visual then some vis else t.vt,
                               featH := if cfg.visual then pushBounded t.featH d.feat cfg.histLen else t.featH }
      some ({ st1 with live := st1.live.map (fun x => if x.id == tid then t' else x) },
            { id := tid, epoch := e, scene := t'.scene, len := t'.len, custom := t'.custom, tok := d.tok, visual := vis })
  | .fresh id =>
    let st2 := if cfg.batchIds then st1 else { st1 with nextId := st1.nextId + 1 }
    let g' : List GE := if cfg.visual then [{ quality := d.quality, feat := d.feat, box := true }] else []
    let t' : Trk := { id := id, scene := scene, lastUpd := e, len := 1, custom := d.custom, obsH := [d.tok], visual := false,
                      gallery := g', vcount := featCount g', featH := if cfg.visual then [d.feat] else [] }
    some ({ st2 with live := st2.live ++ [t'] },
          { id := id, epoch := e, scene := scene, len := 1, custom := d.custom, tok := d.tok, visual := false })

/-- apply the picks in detection order -/
def applyPicks (cfg : Cfg) (scene e : Nat) : List Det → List Pick → St → Option (St × List Rec)
  | [], [], st => some (st, [])
  | d :: ds, p :: ps, st =>
    match applyPick cfg scene e st d p with
    | none => none
    | some (st1, r) =>
      match applyPicks cfg scene e ds ps st1 with
      | none => none
      | some (st2, rs) => some (st2, r :: rs)
  | _, _, _ => none

/-- structural duplicate-freeness test -/
def nodupB : List Nat → Bool
  | [] => true
  | a :: l => !l.contains a && nodupB l

/-- ids a `fresh` pick may carry: the simple trackers issue `nextId+1, nextId+2, …` in detection order;
the batch trackers issue, for the i-th candidate of the call, some id of the batch's range
(`lo < id ≤ hi`), increasing within the call and never issued before -/
def freshIdsOk (cfg : Cfg) (st : St) (lo hi : Nat) (picks : List Pick) : Bool :=
  let ids := picks.filterMap (fun p => match p with | .fresh id => some id | _ => none)
  if cfg.batchIds then
    ids.all (fun id => decide (lo < id) && decide (id ≤ hi) && !(st.live.any (fun t => t.id == id))) &&
    nodupB ids
  else ids == (List.range ids.length).map (fun i => st.nextId + 1 + i)

/-- positional part of the choice as a partial assignment aligned with the detections -/
def contOf (p : Pick) : Option Nat := match p with | .cont tid _ => some tid | .fresh _ => none

/-- validity of a choice for a distance table: admissible entries only, every continuation gated and
in the table, one-to-one, and of maximum total weight (unmatched = threshold) among all one-to-one
partial assignments over the table -/
def validChoice (cfg : Cfg) (st : St) (scene e : Nat) (n : Nat) (table : List Entry) (picks : List Pick) : Bool :=
  let conts := picks.map contOf
  let es : List AssignX.Entry := table.map (fun x => { q := x.det + 1, t := x.tid, w := x.w })
  picks.length == n &&
  table.all (entryOk cfg st scene e) &&
  ((List.range n).zip conts).all (fun (i, c) => match c with
    | some tid => table.any (fun x => x.det == i && x.tid == tid && decide (cfg.thr ≤ x.w))
    | none => true) &&
  nodupB (conts.filterMap id) &&
  -- optimality over the detections that have entries (others can only be unmatched)
  (let qs := queries es
   let asg := qs.map (fun q => (conts.getD (q - 1) none))
   objective es cfg.thr qs asg == bestOf es cfg.thr)

/-! ### VisualSORT: appearance stage first, positional fallback -/

/-- a distance entry of a VisualSORT call: positional weight and / or feature distance -/
structure VEntry where
  det : Nat
  tid : Nat
  w : Option Int
  f : Option Rat
deriving Repr, BEq

/-- query ids of the appearance stage are kept apart from track ids -/
def QBASE : Nat := 1000000000000

def featStream (table : List VEntry) : List Voting.Dist :=
  table.map (fun x => { q := QBASE + x.det, w := x.tid, d := x.f })

/-- `VisualVoting`: BestFit over the feature distances (`max_distance = f32::MAX`, `min_votes`);
each detection with at least one surviving claim is decided here — by its heaviest claim: the
track if it was awarded to this detection, otherwise (the claim lost) a new track -/
def decideOne (all : List (Voting.Elt × Bool)) (q : Nat) : Nat × Option Nat :=
  match all.find? (fun e => e.1.q == q) with
  | some (e, real) => (q - QBASE, if real then some e.w else none)
  | none => (q - QBASE, none)

def visualDecided (cfg : Cfg) (table : List VEntry) : List (Nat × Option Nat) :=
  let all := Voting.bestfitAll Nms.F32_MAX cfg.minVotes (featStream table)
  let qs := Voting.firsts (all.map (fun e => e.1.q))
  qs.map (decideOne all)

/-- no two surviving claims have the same weight (then the appearance stage has a unique outcome) -/
def visualUnique (cfg : Cfg) (table : List VEntry) : Bool :=
  let cs := Voting.cands Nms.F32_MAX cfg.minVotes (featStream table)
  (cs.map (·.weight)).eraseDups.length == cs.length

/-- the distances left for the positional stage: detections not decided by appearance, tracks not
taken (or contested) by appearance, entries that carry a positional weight -/
def positionalRest (decided : List (Nat × Option Nat)) (table : List VEntry) : List Entry :=
  let excluded := decided.filterMap (·.2)
  table.filterMap (fun x =>
    if decided.any (fun p => p.1 == x.det) || excluded.contains x.tid then none
    else x.w.map (fun w => { det := x.det, tid := x.tid, w := w }))

/-- validity of a VisualSORT choice: the appearance-decided detections carry exactly the decided
pick (with voting type Visual for an award), every other detection is resolved by a valid
positional choice over the remaining distances with voting type Positional -/
def validVisualChoice (cfg : Cfg) (st : St) (scene e n : Nat) (table : List VEntry) (picks : List Pick) : Bool :=
  let decided := visualDecided cfg table
  picks.length == n &&
  table.all (fun x => entryOk cfg st scene e { det := x.det, tid := x.tid, w := 0 }) &&
  ((List.range n).zip picks).all (fun (i, p) =>
    match decided.find? (fun d => d.1 == i) with
    | some (_, some tid) => p == .cont tid true
    | some (_, none) => (match p with | .fresh _ => true | _ => false)
    | none => (match p with | .cont _ vis => !vis | .fresh _ => true)) &&
  validChoice cfg st scene e n (positionalRest decided table)
    (((List.range n).zip picks).map (fun (i, p) => if decided.any (fun d => d.1 == i) then .fresh 0 else p))

/-- the per-scene part of a VisualSORT `predict` -/
def predictSceneV (cfg : Cfg) (st : St) (scene : Nat) (dets : List Det) (table : List VEntry) (picks : List Pick)
    (lo hi : Nat) : Option (St × List Rec) :=
  let e := epochOf st scene + 1
  let st2 := setEpoch st scene e
  if validVisualChoice cfg st2 scene e dets.length table picks && freshIdsOk cfg st2 lo hi picks then
    applyPicks cfg scene e dets picks st2
  else none

/-- the per-scene part of `predict`: advance the scene's epoch, validate the choice, apply it -/
def predictScene (cfg : Cfg) (st : St) (scene : Nat) (dets : List Det) (table : List Entry) (picks : List Pick)
    (lo hi : Nat) : Option (St × List Rec) :=
  let e := epochOf st scene + 1
  let st2 := setEpoch st scene e
  if validChoice cfg st2 scene e dets.length table picks && freshIdsOk cfg st2 lo hi picks then
    applyPicks cfg scene e dets picks st2
  else none

/-- `predict` of the simple trackers: countdown, then the scene step -/
def predict (cfg : Cfg) (st : St) (scene : Nat) (dets : List Det) (table : List Entry) (picks : List Pick) :
    Option (St × List Rec) :=
  predictScene cfg (awStep cfg st) scene dets table picks 0 0

/-- the scenes of one batch, one after the other -/
def batchScenes (cfg : Cfg) (lo hi : Nat) : List (Nat × List Det × List Entry × List Pick) → St →
    Option (St × List (Nat × List Rec))
  | [], st => some (st, [])
  | (scene, dets, table, picks) :: rest, st =>
    match predictScene cfg st scene dets table picks lo hi with
    | none => none
    | some (st', recs) =>
      match batchScenes cfg lo hi rest st' with
      | none => none
      | some (st'', out) => some (st'', (scene, recs) :: out)

/-- `predict` of the batch trackers: countdown once, then every scene of the batch (in the order
the voting results are taken here; `C06_commute`: the order does not matter) -/
def predictBatch (cfg : Cfg) (st : St) (scenes : List (Nat × List Det × List Entry × List Pick)) :
    Option (St × List (Nat × List Rec)) :=
  let st1 := awStep cfg st
  let lo := st1.nextId
  let hi := lo + (scenes.map (fun s => s.2.1.length)).foldl (· + ·) 0
  (batchScenes cfg lo hi scenes st1).map (fun r => ({ r.1 with nextId := hi }, r.2))

/-- VisualSORT simple tracker -/
def predictV (cfg : Cfg) (st : St) (scene : Nat) (dets : List Det) (table : List VEntry) (picks : List Pick) :
    Option (St × List Rec) :=
  predictSceneV cfg (awStep cfg st) scene dets table picks 0 0

def batchScenesV (cfg : Cfg) (lo hi : Nat) : List (Nat × List Det × List VEntry × List Pick) → St →
    Option (St × List (Nat × List Rec))
  | [], st => some (st, [])
  | (scene, dets, table, picks) :: rest, st =>
    match predictSceneV cfg st scene dets table picks lo hi with
    | none => none
    | some (st', recs) =>
      match batchScenesV cfg lo hi rest st' with
      | none => none
      | some (st'', out) => some (st'', (scene, recs) :: out)

/-- VisualSORT batch tracker -/
def predictBatchV (cfg : Cfg) (st : St) (scenes : List (Nat × List Det × List VEntry × List Pick)) :
    Option (St × List (Nat × List Rec)) :=
  let st1 := awStep cfg st
  let lo := st1.nextId
  let hi := lo + (scenes.map (fun s => s.2.1.length)).foldl (· + ·) 0
  (batchScenesV cfg lo hi scenes st1).map (fun r => ({ r.1 with nextId := hi }, r.2))

/-- `skip_epochs_for_scene`: advance the scene's epoch, then `auto_waste()` -/
def skip (cfg : Cfg) (st : St) (scene n : Nat) : St :=
  collect cfg (setEpoch st scene (epochOf st scene + n))

/-- `wasted()`: collect, then hand out everything in the wasted store -/
def wastedOp (cfg : Cfg) (st : St) : St × List Trk :=
  let st1 := collect cfg st
  ({ st1 with wasted := [], handed := st1.handed ++ st1.wasted.map (·.id) }, st1.wasted)

/-- `idle_tracks_with_scene`: unexpired tracks of the scene not updated in its current epoch -/
def idle (cfg : Cfg) (st : St) (scene : Nat) : List Trk :=
  st.live.filter (fun t => t.scene == scene && !expired cfg st t && !(t.lastUpd == epochOf st scene))

def clearWasted (st : St) : St := { st with wasted := [], cleared := st.cleared ++ st.wasted.map (·.id) }

def setAutoWaste (st : St) (p : Nat) : St := { st with awPeriod := p, awCounter := 0 }

def shardCounts (n : Nat) (l : List Trk) : List Nat := (List.range n).map (fun k => (l.filter (fun t => t.id % n == k)).length)

end SimVerif.Tracker
