/-
Wire format shared by the implementation executor (`vh`) and the model driver (`simdrv`).

Tokens are separated by single spaces.
* naturals / integers: decimal
* `-`                : absent option
* `f<8 hex digits>`  : an IEEE-754 binary32 bit pattern (exact)
* `d<16 hex digits>` : an IEEE-754 binary64 bit pattern (exact)
* `q<num>/<den>`     : an exact rational (model-side answers)
Every finite float is a dyadic rational; it is decoded *exactly* to `Rat`, so the model computes on
precisely the value the implementation received.
-/
namespace SimVerif.Wire

def hexDigit? (c : Char) : Option Nat :=
  if '0' ≤ c ∧ c ≤ '9' then some (c.toNat - '0'.toNat)
  else if 'a' ≤ c ∧ c ≤ 'f' then some (c.toNat - 'a'.toNat + 10)
  else if 'A' ≤ c ∧ c ≤ 'F' then some (c.toNat - 'A'.toNat + 10)
  else none

def hexNat? (cs : List Char) : Option Nat :=
  if cs.isEmpty then none else
  cs.foldl (fun acc c => match acc, hexDigit? c with
    | some a, some d => some (a * 16 + d)
    | _, _ => none) (some 0)

def pow2 (e : Int) : Rat :=
  if e ≥ 0 then ((2 ^ e.toNat : Nat) : Rat) else 1 / ((2 ^ (-e).toNat : Nat) : Rat)

/-- Float classes on the wire. -/
inductive Fl where
  | fin (r : Rat)
  | pinf | ninf | nan
deriving Repr, BEq

/-- decode an IEEE bit pattern with `eb` exponent bits and `mb` mantissa bits -/
def decodeBits (bits : Nat) (eb mb : Nat) : Fl :=
  let mant := bits % (2 ^ mb)
  let ex := (bits / 2 ^ mb) % (2 ^ eb)
  let neg := (bits / 2 ^ (mb + eb)) % 2 == 1
  let bias : Int := (2 ^ (eb - 1) : Nat) - 1
  if ex == 2 ^ eb - 1 then
    (if mant == 0 then (if neg then .ninf else .pinf) else .nan)
  else
    let mag : Rat :=
      if ex == 0 then (mant : Rat) * pow2 (1 - bias - mb)
      else ((2 ^ mb + mant : Nat) : Rat) * pow2 ((ex : Int) - bias - mb)
    .fin (if neg then -mag else mag)

def fl? (tok : String) : Option Fl :=
  match tok.toList with
  | 'f' :: cs => if cs.length == 8 then (hexNat? cs).map (decodeBits · 8 23) else none
  | 'd' :: cs => if cs.length == 16 then (hexNat? cs).map (decodeBits · 11 52) else none
  | _ => none

/-- finite float token → exact rational -/
def rat? (tok : String) : Option Rat :=
  match fl? tok with
  | some (.fin r) => some r
  | _ => none

def nat? (tok : String) : Option Nat := tok.toNat?
def int? (tok : String) : Option Int := tok.toInt?

def optTok (f : String → Option α) (tok : String) : Option (Option α) :=
  if tok == "-" then some none else (f tok).map some

def showRat (r : Rat) : String := s!"q{r.num}/{r.den}"

/-- `|x|` -/
def rabs (x : Rat) : Rat := if x < 0 then -x else x

/-- mixed tolerance comparison used for Layer-G answers: `|a-b| ≤ abs + rel*max(|a|,|b|)` -/
def close (a b : Rat) (rel abs : Rat) : Bool :=
  let m := if rabs a < rabs b then rabs b else rabs a
  decide (rabs (a - b) ≤ abs + rel * m)

/-- split a token list at the first occurrence of `sep` -/
def splitAt (sep : String) : List String → List String × List String
  | [] => ([], [])
  | t :: ts => if t == sep then ([], ts) else
      let (a, b) := splitAt sep ts; (t :: a, b)

/-- take a length-prefixed list of `k`-token records -/
def takeN (n : Nat) (ts : List String) : Option (List String × List String) :=
  if ts.length < n then none else some (ts.take n, ts.drop n)

def parseList (k : Nat) (f : List String → Option α) : List String → Option (List α × List String)
  | [] => none
  | nTok :: rest => do
    let n ← nTok.toNat?
    let rec go : Nat → List String → List α → Option (List α × List String)
      | 0, ts, acc => some (acc.reverse, ts)
      | m+1, ts, acc => do
        let (rec, ts') ← takeN k ts
        let a ← f rec
        go m ts' (a :: acc)
    go n rest []

def natList (ts : List String) : Option (List Nat × List String) :=
  parseList 1 (fun r => match r with | [t] => t.toNat? | _ => none) ts

def joinSp (l : List String) : String := " ".intercalate l

def showNats (l : List Nat) : String := joinSp ((toString l.length) :: l.map toString)

end SimVerif.Wire

namespace SimVerif.Wire
/-- largest `e` with `2^e ≤ x` for `x > 0` (search from a fuel bound) -/
def log2Floor (x : Rat) : Int :=
  if x ≤ 0 then 0 else
  -- x = num/den: start from the bit lengths
  let e0 : Int := (Nat.log2 x.num.natAbs : Int) - (Nat.log2 x.den : Int)
  -- e0 is within 1 of the answer
  if pow2 (e0 + 1) ≤ x then e0 + 1 else if pow2 e0 ≤ x then e0 else e0 - 1

/-- round half to even on rationals -/
def roundHalfEven (x : Rat) : Int :=
  let f := x.floor
  let r := x - f
  if r < 1/2 then f else if r > 1/2 then f + 1 else (if f % 2 == 0 then f else f + 1)

/-- IEEE-754 round-to-nearest-even of an exact rational to binary32 (normal range only; enough for the
products modelled here). This is what an `f32` multiplication / addition returns for the exact result `x`. -/
def roundF32 (x : Rat) : Rat :=
  if x == 0 then 0 else
  let a := rabs x
  let e := log2Floor a
  let q := pow2 (e - 23)
  let m := roundHalfEven (a / q)
  let r := (m : Rat) * q
  if x < 0 then -r else r

/-- `as i64` on a finite value: truncation toward zero -/
def truncInt (x : Rat) : Int := if x ≥ 0 then x.floor else -((-x).floor)
end SimVerif.Wire

namespace SimVerif.Wire
/-- rational approximation of `√x` (x ≥ 0) with absolute error < 2^-k·(1/den) — used only inside
tolerance comparisons of Layer-G answers, never in a theorem -/
def ratSqrt (x : Rat) (k : Nat := 40) : Rat :=
  if x ≤ 0 then 0 else
  let n := x.num.natAbs * x.den * 4 ^ k
  ((Nat.sqrt n : Nat) : Rat) / ((x.den * 2 ^ k : Nat) : Rat)
end SimVerif.Wire
