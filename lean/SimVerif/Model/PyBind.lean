/-
Model of the Python binding layer (C18): the wrapper calculus the translator classifies every
`#[pymethods]` / `#[pyfunction]` body into, the specification format, and the wiring rule.

Names are lists of character codes (string literals do not reduce in the kernel; `decide +kernel`
over the generated table needs closed terms).
-/
namespace SimVerif.PyBind

abbrev Name := List Nat

inductive Kind where
  | new | getter | setter | static | method | func
deriving DecidableEq, Repr

/-- an argument of the delegated call: one of the method's parameters (possibly converted /
unwrapped), a literal, or any other expression (kept as text) -/
inductive Arg where
  | param (n : Name)
  | lit (v : Name)
  | expr (e : Name)
deriving DecidableEq, Repr

inductive Shape where
  | field (path : List Name)                    -- returns `self.<path>` of the wrapped value
  | setField (path : List Name) (arg : Name)    -- assigns a parameter to `self.<path>`
  | delegate (callee : Name) (args : List Arg)  -- one call of `callee` with these arguments
  | other (hash : Nat)                          -- anything else: hash of the normalised body
deriving DecidableEq, Repr

structure Entry where
  cls : Name                         -- Python class name ([] for module-level functions)
  py : Name                          -- name visible from Python (`__new__` for constructors)
  kind : Kind
  params : List Name
  defaults : List (Name × Name)      -- (parameter, default literal) of the signature
  shape : Shape
deriving DecidableEq, Repr

structure Spec where
  aliases : List (Name × Name × Name)            -- (class, python name, callee or dotted field path)
  extraArgs : List (Name × Name × Name)          -- (class, python name, non-parameter argument)
  reviewed : List (Name × Name × Nat)            -- (class, python name, body hash)
  defaults : List (Name × Name × Name × Name)    -- (class, python name, parameter, default)
  exposed : List (Name × Name)                   -- (class, python name)

def S_SET : Name := [115, 101, 116, 95]        -- "set_"
def S_PY : Name := [95, 112, 121]              -- "_py"
def S_NEW : Name := [110, 101, 119]            -- "new"
def S_DOT : Name := [46]                       -- "."

def joinPath : List Name → Name
  | [] => []
  | [a] => a
  | a :: rest => a ++ S_DOT ++ joinPath rest

def paramOf : Arg → Option Name
  | .param n => some n
  | _ => none

def extraOf : Arg → Option Name
  | .param _ => none
  | .lit v => some v
  | .expr e => some e

/-- the callee is the method of the same name (`x_py` may wrap `x`, a constructor wraps `new`), or a reviewed alias -/
def calleeOk (sp : Spec) (e : Entry) (callee : Name) : Bool :=
  callee == e.py || callee ++ S_PY == e.py || (e.kind == .new && callee == S_NEW) ||
  sp.aliases.contains (e.cls, e.py, callee)

/-- every parameter is passed exactly once and in signature order; anything else passed is reviewed -/
def argsOk (sp : Spec) (e : Entry) (args : List Arg) : Bool :=
  args.filterMap paramOf == e.params &&
  (args.filterMap extraOf).all (fun x => sp.extraArgs.contains (e.cls, e.py, x))

/-- the signature's defaults are exactly the documented ones -/
def defaultsOk (sp : Spec) (e : Entry) : Bool :=
  e.defaults == (sp.defaults.filter (fun d => d.1 == e.cls && d.2.1 == e.py)).map (fun d => (d.2.2.1, d.2.2.2))

/-- **the wiring rule** -/
def wellWired (sp : Spec) (e : Entry) : Bool :=
  defaultsOk sp e &&
  match e.shape with
  | .other h => sp.reviewed.contains (e.cls, e.py, h)
  | .field path =>
    (match e.kind with
     | .getter => path == [e.py]                                   -- a getter returns the field it names
     | .method => sp.aliases.contains (e.cls, e.py, joinPath path)
     | _ => false)
  | .setField path a =>
    (match e.kind with
     | .setter => path == [e.py] && e.params == [a]                -- a setter writes the field it names
     | .method => path == [e.py] && e.params == [a]                -- builder-style setter
     | _ => false)
  | .delegate callee args =>
    (match e.kind with
     | .getter => false
     | .setter => callee == S_SET ++ e.py && args == e.params.map Arg.param && e.params.length == 1
     | _ => calleeOk sp e callee && argsOk sp e args)

/-! ### denotation: what a Python call returns, relative to an abstract wrapped object and API -/

/-- the Python-visible result of a getter entry on an object given as a field map -/
def fieldOf (e : Entry) : Option Name :=
  match e.shape with
  | .field [p] => some p
  | _ => none

/-- the getters of class `cls`, as (python name, rust field) pairs -/
def getterMap (tbl : List Entry) (cls : Name) : List (Name × Name) :=
  tbl.filterMap (fun e => if e.cls == cls && e.kind == .getter then (fieldOf e).map (fun f => (e.py, f)) else none)

/-- the Python view of a wrapped object: every getter applied to it -/
def pyView {V : Type} (tbl : List Entry) (cls : Name) (obj : Name → V) : List (Name × V) :=
  (getterMap tbl cls).map (fun p => (p.1, obj p.2))

/-- evaluation of the arguments of a delegated call -/
def evalArgs {V : Type} (env : Name → V) (konst : Name → V) : List Arg → List V
  | [] => []
  | .param n :: rest => env n :: evalArgs env konst rest
  | .lit v :: rest => konst v :: evalArgs env konst rest
  | .expr x :: rest => konst x :: evalArgs env konst rest

/-- the value a delegating entry computes: the wrapped API's `callee` on the evaluated arguments -/
def denote {V : Type} (api : Name → List V → V) (env : Name → V) (konst : Name → V) (e : Entry) : Option V :=
  match e.shape with
  | .delegate callee args => some (api callee (evalArgs env konst args))
  | _ => none

end SimVerif.PyBind
