import SimVerif.Model.Geom
import SimVerif.Model.Kalman
/-
Model of `SortMetric::metric` (src/trackers/sort/metric.rs): what one (candidate observation, track
observation) pair contributes to the distance table.
  `none`          — the metric yields nothing (`too_far`): the pair does not appear at all
  `some none`     — an entry without attribute metric (IoU below the threshold / no overlap);
                    `postprocess_distances` removes it
  `some (some w)` — an entry with positional weight `w`
-/
namespace SimVerif.SortMetric
open SimVerif.Geom SimVerif.Kalman

variable {α : Type} [Zero α] [One α] [Add α] [Sub α] [Mul α] [Div α] [Neg α]
  [LT α] [LE α] [DecidableLT α] [DecidableLE α] [DecidableEq α]

/-- the confidence used: raised to the configured minimum -/
def confOf (minconf conf : α) : α := if conf < minconf then minconf else conf

/-- IoU mode; `(cc, sc)`, `(ct, st)` = cos/sin of the two box angles -/
def metricIoU (thr minconf : α) (cb tb : UBox α) (cc sc ct st : α) : Option (Option α) :=
  if tooFar cb tb then none else
  some ((iou cb tb cc sc ct st).bind (fun e =>
    let w := e * confOf minconf cb.conf
    if thr ≤ w then some w else none))

/-- Mahalanobis mode; `d` = squared Mahalanobis distance of the candidate box from the track's filter state -/
def metricMaha (gate upper minconf : α) (cb tb : UBox α) (d : α) : Option (Option α) :=
  if tooFar cb tb then none else some (some (costInverted gate upper d / confOf minconf cb.conf))

end SimVerif.SortMetric
