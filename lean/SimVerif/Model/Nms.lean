/-
Model of `similari::utils::nms::nms` (src/utils/nms.rs).

The geometric predicate `inter(a,b) / area(b) > nms_threshold` is a parameter `covers` (Layer G is
the business of C08); everything else is modelled as the code does it: score filter, validity
filter, `enumerate` *after* filtering, rank = score or height, stable sort by rank descending, the
excluded-set double loop keyed by the enumerate index, output in rank order.
-/
namespace SimVerif.Nms

/-- `f32::MAX`, `f32::MIN` as exact rationals -/
def F32_MAX : Rat := ((2 ^ 24 - 1 : Nat) : Rat) * ((2 ^ 104 : Nat) : Rat)
def F32_MIN : Rat := -F32_MAX

structure Box (α : Type) where
  item : α
  score : Option Rat
  height : Rat
  aspect : Rat
deriving Repr

variable {α : Type}

/-- the `.filter(..)` closure of `nms` -/
def passes (scoreThr : Option Rat) (b : Box α) : Bool :=
  decide (b.score.getD F32_MAX > scoreThr.getD F32_MIN) && decide (b.height > 0) && decide (b.aspect > 0)

/-- `Candidate::new`: rank is the score, or the height when there is no score -/
def rank (b : Box α) : Rat := b.score.getD b.height

/-- comparator of `.sorted_by(|a, b| b.rank.partial_cmp(&a.rank))`: descending, stable -/
def rankGE (a b : Box α) : Bool := decide (rank b ≤ rank a)

/-- inner loop: walk `obs` (the candidates after `cb`), extend the excluded set -/
def inner (cov : Box α → Box α → Bool) (cb : Box α × Nat) :
    List (Box α × Nat) → List Nat → List Nat
  | [], ex => ex
  | ob :: rest, ex =>
    if ex.contains ob.2 then inner cov cb rest ex
    else if cov cb.1 ob.1 then inner cov cb rest (ob.2 :: ex)
    else inner cov cb rest ex

/-- outer loop over the rank-sorted candidates -/
def outer (cov : Box α → Box α → Bool) : List (Box α × Nat) → List Nat → List Nat
  | [], ex => ex
  | cb :: rest, ex =>
    if ex.contains cb.2 then outer cov rest ex
    else outer cov rest (inner cov cb rest ex)

/-- candidates: filtered, enumerated (index after filtering), sorted by rank descending -/
def sortedCands (scoreThr : Option Rat) (l : List (Box α)) : List (Box α × Nat) :=
  ((l.filter (passes scoreThr)).zipIdx).mergeSort (fun a b => rankGE a.1 b.1)

/-- `nms` exactly as the code: the double loop, then the final filter in rank order -/
def nms (cov : Box α → Box α → Bool) (scoreThr : Option Rat) (l : List (Box α)) : List (Box α) :=
  let cs := sortedCands scoreThr l
  let ex := outer cov cs []
  (cs.filter (fun c => !ex.contains c.2)).map (·.1)

/-- structural specification: walk the rank-sorted list, keep `b` iff no kept predecessor covers it -/
def walk (cov : Box α → Box α → Bool) : List (Box α) → List (Box α) → List (Box α)
  | _, [] => []
  | kept, b :: rest =>
    if kept.any (fun a => cov a b) then walk cov kept rest else b :: walk cov (b :: kept) rest

end SimVerif.Nms
