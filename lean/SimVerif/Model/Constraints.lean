/-
Model of `SpatioTemporalConstraints` (src/trackers/spatio_temporal_constraints.rs):
`add_constraints` = push all, stable sort by gap, `dedup_by` equal gaps (keeps the first of a run);
`validate` = first entry with `gap ≥ epoch_delta`, admitted iff `dist ≤ limit` (no entry: admitted).
-/
namespace SimVerif.Constraints

abbrev Entry := Nat × Rat

/-- `Vec::dedup_by(|a, b| a.0 == b.0)`: drop an element whose key equals the last retained one -/
def dedupAux (prev : Entry) : List Entry → List Entry
  | [] => []
  | b :: rest => if b.1 = prev.1 then dedupAux prev rest else b :: dedupAux b rest

def dedupFirst : List Entry → List Entry
  | [] => []
  | a :: rest => a :: dedupAux a rest

def keyLE (a b : Entry) : Bool := decide (a.1 ≤ b.1)

/-- `add_constraints`; `none` = the code panics (`assert!(max_distance > 0.0)`) -/
def addConstraints (cs new : List Entry) : Option (List Entry) :=
  if new.all (fun e => decide (e.2 > 0)) then some (dedupFirst ((cs ++ new).mergeSort keyLE)) else none

/-- the entry `validate` uses for an epoch gap -/
def limitFor (cs : List Entry) (gap : Nat) : Option Entry := cs.find? (fun e => decide (e.1 ≥ gap))

/-- `validate`; `none` = the code panics (`assert!(dist >= 0.0)`) -/
def validate (cs : List Entry) (gap : Nat) (dist : Rat) : Option Bool :=
  if dist < 0 then none else
  match limitFor cs gap with
  | none => some true
  | some e => some (decide (dist ≤ e.2))

/-- the table after a sequence of successful `add_constraints` calls -/
def build : List (List Entry) → Option (List Entry)
  | [] => some []
  | c :: rest => match build rest with   -- `rest` are the EARLIER calls (most recent call first)
    | none => none
    | some t => addConstraints t c

end SimVerif.Constraints
