/-
Model of the decision kernels of `VisualMetric` (src/trackers/visual_sort/metric.rs), generic in the scalar type:
`VisualSortMetricType::{is_ok, distance_to_weight}`, `feature_can_be_used`, `visual_metric`.
The driver's appearance gate (`Driver/Trk.lean`, `visGate`) uses `featureCanBeUsed`; the generated kernels
(`Gen/KVMetric.lean`) are proved equal to these definitions in `Tie/VMetric.lean`.
-/
namespace SimVerif.VisualMetric

variable {α : Type} [One α] [Sub α] [LE α] [DecidableLE α]

/-- `VisualSortMetricType` with its threshold -/
inductive Kind (α : Type) where
  | euclid (t : α)
  | cosine (t : α)
deriving Repr

/-- `is_ok`: Euclidean distances at most the threshold, cosine similarities at least the threshold -/
def isOk : Kind α → α → Bool
  | .euclid t, d => decide (d ≤ t)
  | .cosine t, d => decide (t ≤ d)

/-- `distance_to_weight`: the Euclidean distance itself, `1 − similarity` for the cosine -/
def distToWeight : Kind α → α → α
  | .euclid _, d => d
  | .cosine _, d => 1 - d

/-- `feature_can_be_used`: box area, feature quality and (when known) own-area share at or above the thresholds -/
def featureCanBeUsed (minArea area quality minQuality : α) (share : Option α) (minShare : α) : Bool :=
  decide (minArea ≤ area) && decide (minQuality ≤ quality) &&
  (match share with | some p => decide (minShare ≤ p) | none => true)

/-- `visual_metric` given the feature distance `d`: a vote only from tracks that collected at least
`minLen` features, and only for distances passing `is_ok` -/
def visualMetric (kind : Kind α) (minLen vcount : Nat) (d : α) : Option α :=
  if minLen ≤ vcount then (if isOk kind d then some (distToWeight kind d) else none) else none

end SimVerif.VisualMetric
