/-
Model of the batch trackers' hand-off protocol for ONE submitted batch
(src/trackers/sort/batch_api.rs, src/trackers/visual_sort/batch_api.rs, src/trackers/batch.rs):

* the submitting thread sets the monitor to the number of scenes and dispatches scene `i` to voting
  worker `i % V` (an unbounded FIFO per worker);
* a voting worker takes its next job, votes and writes the store, sends `(scene, records)` on the
  batch's `bounded(1)` result channel, then decrements the monitor;
* the consumer may receive whenever the channel holds a result.

A transition is an event; `step` is defined (returns `some`) exactly when the event is enabled.
The driver replays the event traces logged by the real trackers (similari_verif hooks) through `step`.
-/
namespace SimVerif.BatchProtocol

inductive Phase where
  | queued | voting | sent | done
deriving DecidableEq, Repr

structure Job where
  scene : Nat
  worker : Nat
  phase : Phase
deriving DecidableEq, Repr

structure PS where
  todo : List Nat          -- scenes the submitting thread has not dispatched yet
  next : Nat               -- index of the next dispatch
  jobs : List Job          -- dispatched jobs, in dispatch order
  chan : Option Nat        -- the batch's bounded(1) result channel
  monitor : Nat
  delivered : List Nat     -- received by the consumer, in order
deriving DecidableEq, Repr

inductive Ev where
  | dispatch (sc : Nat)
  | take (sc : Nat)
  | send (sc : Nat)
  | decr (sc : Nat)
  | recv (sc : Nat)
deriving DecidableEq, Repr

def init (scenes : List Nat) : PS :=
  { todo := scenes, next := 0, jobs := [], chan := none, monitor := scenes.length, delivered := [] }

def setPhase (jobs : List Job) (sc : Nat) (p : Phase) : List Job :=
  jobs.map (fun j => if j.scene = sc then { j with phase := p } else j)

def findJob (s : PS) (sc : Nat) : Option Job := s.jobs.find? (fun j => j.scene = sc)

/-- a worker is busy while one of its jobs is being voted or waits for its monitor decrement -/
def busy (s : PS) (w : Nat) : Bool :=
  s.jobs.any (fun j => j.worker = w ∧ (j.phase = .voting ∨ j.phase = .sent))

/-- the first queued job of worker `w` in dispatch order (its FIFO head) -/
def headOf (s : PS) (w : Nat) : Option Job := s.jobs.find? (fun j => j.worker = w ∧ j.phase = .queued)

def step (V : Nat) (s : PS) : Ev → Option PS
  | .dispatch sc =>
    match s.todo with
    | sc' :: rest =>
      if sc' = sc then
        some { s with todo := rest, next := s.next + 1, jobs := s.jobs ++ [⟨sc, s.next % V, .queued⟩] }
      else none
    | [] => none
  | .take sc =>
    match findJob s sc with
    | some j =>
      if j.phase = .queued ∧ busy s j.worker = false ∧ headOf s j.worker = some j then
        some { s with jobs := setPhase s.jobs sc .voting }
      else none
    | none => none
  | .send sc =>
    match findJob s sc with
    | some j =>
      if j.phase = .voting ∧ s.chan = none then
        some { s with jobs := setPhase s.jobs sc .sent, chan := some sc }
      else none
    | none => none
  | .decr sc =>
    match findJob s sc with
    | some j =>
      if j.phase = .sent then some { s with jobs := setPhase s.jobs sc .done, monitor := s.monitor - 1 }
      else none
    | none => none
  | .recv sc =>
    if s.chan = some sc then some { s with chan := none, delivered := s.delivered ++ [sc] } else none

/-- run a whole trace -/
def run (V : Nat) : PS → List Ev → Option PS
  | s, [] => some s
  | s, e :: es => match step V s e with
    | some s' => run V s' es
    | none => none

/-- nothing left to do -/
def final (s : PS) : Prop := s.todo = [] ∧ (∀ j ∈ s.jobs, j.phase = .done) ∧ s.chan = none

def phaseWeight : Phase → Nat
  | .queued => 8 | .voting => 6 | .sent => 1 | .done => 0

/-- outstanding work; every transition decreases it -/
def measure (s : PS) : Nat :=
  10 * s.todo.length + (s.jobs.map (fun j => phaseWeight j.phase)).foldl (· + ·) 0 + (if s.chan.isSome then 2 else 0)

/-- scenes whose result has not been sent yet -/
def pending (s : PS) : List Nat :=
  s.todo ++ (s.jobs.filter (fun j => j.phase = .queued ∨ j.phase = .voting)).map (·.scene)

/-- jobs whose monitor decrement is still to come -/
def undecremented (s : PS) : Nat := s.todo.length + (s.jobs.filter (fun j => j.phase ≠ .done)).length

end SimVerif.BatchProtocol
