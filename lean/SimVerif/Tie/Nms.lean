import SimVerif.Gen.LNms
import SimVerif.Model.Nms
import Mathlib.Order.Defs.LinearOrder
import Mathlib.Algebra.Order.Ring.Rat
import Mathlib.Tactic.NormNum
/-!
# Tie (DESIGN.md 14.8): `nms` as the Rust source has it now (`SimVerif.Gen.L.nms`, regenerated on every run:
the iterator pipeline `filter / enumerate / map(Candidate::new) / sorted_by`, the excluded-set double loop with its
`continue`s over `&nms_boxes[index + 1..]`, the final `filter / map`) = `Nms.nms` of `SimVerif/Model/Nms.lean`,
the function the theorems of C14 are about, with `covers a b := intersection(a, b) / area(b) > nms_threshold`.
-/
namespace SimVerif.Tie
open SimVerif.Gen.L SimVerif.Nms

variable {α : Type}

/-- what the source reads of a model box -/
def toN (b : Box α) : NBox α := { item := b.item, height := b.height, aspect := b.aspect }
/-- the `Candidate` the source builds for a model candidate -/
def toC (c : Box α × Nat) : Candidate α := { bbox := toN c.1, rank := rank c.1, index := c.2 }
/-- the coverage predicate of the source -/
def covOf (inter : NBox α → NBox α → Rat) (area : NBox α → Rat) (thr : Rat) (a b : Box α) : Bool :=
  decide (inter (toN a) (toN b) / area (toN b) > thr)

theorem cmpQ_ne_gt' (a b : Rat) : (Gen.L.cmpQ a b != Ordering.gt) = decide (a ≤ b) := by
  unfold Gen.L.cmpQ
  by_cases h1 : a < b
  · simp [h1, le_of_lt h1]
  · by_cases h2 : b < a
    · simp [h1, h2, not_le.mpr h2]
    · simp [h1, h2, not_lt.mp h2]

/-- the candidate list of the source is the model's, candidate by candidate -/
theorem tie_nms_candidates (sthr : Option Rat) (l : List (Box α)) :
    List.mergeSort
      (List.map (fun (x : Nat × NBox α × Option Rat) => match x with | (index, (b, score)) => candidate_new b score index)
        (enumerateL (List.filter (fun (x : NBox α × Option Rat) => match x with
            | (e, score) => (decide (score.getD Gen.L.F32_MAX > sthr.getD Gen.L.F32_MIN) && decide (e.height > (0 : Rat))) && decide (e.aspect > (0 : Rat)))
          (l.map (fun b => (toN b, b.score))))))
      (fun a b => ((fun (a b : Candidate α) => Gen.L.cmpQ b.rank a.rank) a b) != Ordering.gt)
    = (sortedCands sthr l).map toC := by
  unfold sortedCands
  rw [List.filter_map]
  have hp : ((fun (x : NBox α × Option Rat) => match x with
            | (e, score) => (decide (score.getD Gen.L.F32_MAX > sthr.getD Gen.L.F32_MIN) && decide (e.height > (0 : Rat))) && decide (e.aspect > (0 : Rat)))
          ∘ (fun (b : Box α) => (toN b, b.score))) = passes sthr := by
    funext b; rfl
  rw [hp]
  unfold enumerateL
  rw [List.zipIdx_map, List.map_map, List.map_map]
  have hm : (((fun (x : Nat × NBox α × Option Rat) => match x with | (index, (b, score)) => candidate_new b score index)
      ∘ (fun (p : (NBox α × Option Rat) × Nat) => (p.2, p.1))) ∘ (Prod.map (fun (b : Box α) => (toN b, b.score)) id)) = toC := by
    funext c; rfl
  rw [hm]
  symm
  apply List.map_mergeSort
  intro a _ b _
  simp only [cmpQ_ne_gt', rankGE, toC]

/-- the inner loop (`for ob in &nms_boxes[index + 1..]` with its `continue`) is the model's `inner` -/
theorem inner_fold (cov : Box α → Box α → Bool) (cb : Box α × Nat) (f : List Nat → Candidate α → List Nat)
    (hf : ∀ ex ob, f ex (toC ob) = if ex.contains ob.2 then ex else if cov cb.1 ob.1 then ob.2 :: ex else ex)
    (obs : List (Box α × Nat)) (ex : List Nat) :
    List.foldl f ex (obs.map toC) = inner cov cb obs ex := by
  induction obs generalizing ex with
  | nil => rfl
  | cons ob rest ih =>
    simp only [List.map_cons, List.foldl_cons, inner, hf]
    by_cases h1 : ex.contains ob.2 = true
    · simp only [h1, if_true]; exact ih ex
    · simp only [h1]
      by_cases h2 : cov cb.1 ob.1 = true
      · simp only [h2, if_true]; exact ih _
      · simp only [h2]; exact ih ex

/-- the outer loop (`for (index, cb) in nms_boxes.iter().enumerate()`, reading the candidates after position `index`)
is the model's structural `outer` -/
theorem outer_fold (cov : Box α → Box α → Bool) (full : List (Box α × Nat)) (g : List Nat → Candidate α × Nat → List Nat)
    (hg : ∀ ex c k, g ex (toC c, k) = if ex.contains c.2 then ex else inner cov c (full.drop (k + 1)) ex)
    (pre suf : List (Box α × Nat)) (h : full = pre ++ suf) (ex : List Nat) :
    List.foldl g ex ((suf.map toC).zipIdx pre.length) = outer cov suf ex := by
  induction suf generalizing pre ex with
  | nil => rfl
  | cons cb rest ih =>
    simp only [List.map_cons, List.zipIdx_cons, List.foldl_cons, outer, hg]
    have hd : full.drop (pre.length + 1) = rest := by
      rw [h]; simp [List.drop_append]
    rw [hd]
    have h' : full = (pre ++ [cb]) ++ rest := by rw [h]; simp
    have ih' := ih (pre ++ [cb]) h'
    simp only [List.length_append, List.length_singleton] at ih'
    by_cases h1 : ex.contains cb.2 = true
    · simp only [h1, if_true]; exact ih' ex
    · simp only [h1]; exact ih' _

/-- **`nms` of the source is the model's `nms`** for the coverage predicate `intersection(a, b) / area(b) > nms_threshold`:
the boxes returned are the model's, in the same order -/
theorem tie_nms (inter : NBox α → NBox α → Rat) (area : NBox α → Rat) (thr : Rat) (sthr : Option Rat) (l : List (Box α)) :
    Gen.L.nms inter area (l.map (fun b => (toN b, b.score))) thr sthr
      = (Nms.nms (covOf inter area thr) sthr l).map toN := by
  unfold Gen.L.nms Nms.nms
  simp only []
  rw [tie_nms_candidates]
  generalize hcs : sortedCands sthr l = cs
  have hout := outer_fold (covOf inter area thr) cs
    (fun (excluded : List Nat) (x : Candidate α × Nat) => match x with
      | (cb, index) => if List.contains excluded cb.index then excluded else
          List.foldl (fun (excluded : List Nat) (ob : Candidate α) => if List.contains excluded ob.index then excluded else
            if decide (inter cb.bbox ob.bbox / area ob.bbox > thr) then ob.index :: excluded else excluded) excluded
            (List.drop (index + 1) (cs.map toC)))
    (by
      intro ex c k
      show (if ex.contains c.2 = true then ex else
          List.foldl (fun (excluded : List Nat) (ob : Candidate α) => if List.contains excluded ob.index then excluded else
            if decide (inter (toN c.1) ob.bbox / area ob.bbox > thr) then ob.index :: excluded else excluded) ex
            (List.drop (k + 1) (cs.map toC))) = _
      by_cases h1 : ex.contains c.2 = true
      · rw [if_pos h1, if_pos h1]
      · rw [if_neg h1, if_neg h1]
        rw [← List.map_drop]
        exact inner_fold (covOf inter area thr) c _ (by intro ex ob; simp [toC, covOf]) _ _)
    [] cs rfl []
  simp only [List.length_nil] at hout
  rw [hout]
  rw [List.filter_map, List.map_map, List.map_map]
  congr 1

/-- non-vacuity of the coverage reading: with `inter = area` (a box lying inside the other) and threshold 1/2 the pair is covering -/
example : covOf (α := Nat) (fun _ _ => 4) (fun _ => 4) (1 / 2) ⟨0, none, 2, 1⟩ ⟨1, none, 1, 1⟩ = true := by
  simp [covOf]; norm_num

end SimVerif.Tie
