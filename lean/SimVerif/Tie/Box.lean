import SimVerif.Gen.KBox
import SimVerif.Tie.Radius
import SimVerif.Model.Geom
import Mathlib.Tactic.Ring
import Mathlib.Tactic.Linarith
import Mathlib.Algebra.Order.Field.Basic
/-!
# Tie (DESIGN.md 14.8): box conversions, polygon vertices, equality and angle normalisation of
`/repo/src/utils/bbox.rs` as they are now (`SimVerif.Gen.K.*`, regenerated on every run) = the model of
`SimVerif/Model/Geom.lean` that the C19 theorems are about. `cos`, `sin`, `floor` are arbitrary functions.
-/
set_option linter.unusedSectionVars false
set_option linter.unusedVariables false
namespace SimVerif.Tie
open SimVerif.Geom
variable {α : Type} [Field α] [LinearOrder α]

/-- `From<&BoundingBox> for Universal2DBox` -/
theorem tie_to_universal (b : BBox α) : Gen.K.to_universal b = toUniversal b := by
  unfold Gen.K.to_universal toUniversal
  simp only [two_eq]

/-- `TryFrom<&Universal2DBox> for BoundingBox` -/
theorem tie_to_ltwh (u : UBox α) : Gen.K.to_ltwh u = toLtwh u := by
  unfold Gen.K.to_ltwh toLtwh
  cases h : u.angle <;> simp [two_eq]

/-- `From<&Universal2DBox> for Polygon<f64>`: the model's vertex list at `(cos θ, sin θ)`, `θ = angle.unwrap_or(0)` -/
theorem tie_vertices (cos sin : α → α) (u : UBox α) :
    Gen.K.vertices cos sin u = vertices u (cos (u.angle.getD 0)) (sin (u.angle.getD 0)) := by
  unfold Gen.K.vertices vertices
  simp only [two_eq]

/-- `PartialEq for BoundingBox` -/
theorem tie_bb_eq (eps : α) (a b : BBox α) : Gen.K.bb_eq eps a b = beq eps a b := rfl

/-- `PartialEq for Universal2DBox` -/
theorem tie_u_eq (eps : α) (a b : UBox α) : Gen.K.u_eq eps a b = ueq eps a b := rfl

/-- `normalize_angle` with `pix2 = 2·π` -/
theorem tie_normalize_angle (floor : α → α) (pi a : α) :
    Gen.K.normalize_angle floor pi a = normalizeAngle floor (2 * pi) a := by
  unfold Gen.K.normalize_angle normalizeAngle
  simp only [decide_eq_true_eq]

end SimVerif.Tie
