import SimVerif.Gen.LStoreMap
import SimVerif.Model.Store
/-!
# Tie (DESIGN.md 14.11): the map operations of `TrackStore` as the Rust source has them now
(`add_track`, `fetch_tracks`, `shard_stats`, `get_executor`; regenerated on every run — the guard returned by `get_store(id)` is a
borrow of shard `id % num_shards`, written through) = `addTrack`, `fetchTracks`, `shardStats`, `shardOf` of
`SimVerif/Model/Store.lean`, the functions the refinement theorems of C09 (the store is a faithful id → track map) are about.
-/
set_option linter.unusedVariables false
namespace SimVerif.Tie
open SimVerif.Gen.L SimVerif.Track SimVerif.Store

variable {TA M OA E : Type}

theorem shGet_eq_find (s : Store TA M OA) (id : Nat) : shGet (lstGetD s.shards (id % s.n)) id = find s id := rfl

/-- **`add_track`**: a duplicate id is rejected and nothing changes; otherwise the track is put into shard `id % n` -/
theorem tie_store_add_track (s : Store TA M OA) (t : Track TA M OA) :
    store_add_track (E := E) (fun (t : Track TA M OA) => t.id) s.n s.shards t =
      ((addTrack (E := E) s t).1, (addTrack (E := E) s t).2.shards) := by
  unfold store_add_track addTrack
  have hfind : find s t.id = shGet (lstGetD s.shards (t.id % s.n)) t.id := rfl
  rw [hfind]
  simp only []
  cases h : shGet (lstGetD s.shards (t.id % s.n)) t.id with
  | none => simp only [Option.isNone_none, if_true]; rfl
  | some t0 => simp only [Option.isNone_some, Bool.false_eq_true, if_false]

theorem set_getD_self {β : Type} (l : List (List β)) (k : Nat) : l.set k (l.getD k []) = l := by
  induction l generalizing k with
  | nil => rfl
  | cons a rest ih =>
    cases k with
    | zero => rfl
    | succ k => simp only [List.set_cons_succ, List.getD_cons_succ, ih]

theorem shRemove_absent {β : Type} (sh : List (Nat × β)) (id : Nat) (h : shGet sh id = none) : shRemove sh id = sh := by
  unfold shRemove
  rw [List.filter_eq_self]
  intro p hp
  unfold shGet at h
  simp only [Option.map_eq_none_iff, List.find?_eq_none] at h
  have := h p hp
  simpa using this

/-- the loop of `fetch_tracks` -/
theorem fetch_fold (f : List (List (Nat × Track TA M OA)) × List (Track TA M OA) → Nat → List (List (Nat × Track TA M OA)) × List (Track TA M OA))
    (n : Nat)
    (hf : ∀ st id, f st id =
      (match shGet (lstGetD st.1 (id % n)) id with
       | some t => (lstSet st.1 (id % n) (shRemove (lstGetD st.1 (id % n)) id), st.2 ++ [t])
       | none => (lstSet st.1 (id % n) (shRemove (lstGetD st.1 (id % n)) id), st.2)))
    (ids : List Nat) (s : Store TA M OA) (hn : s.n = n) (res : List (Track TA M OA)) :
    List.foldl f (s.shards, res) ids = ((fetchTracks s ids).2.shards, res ++ (fetchTracks s ids).1) := by
  induction ids generalizing s res with
  | nil => simp [fetchTracks]
  | cons id rest ih =>
    rw [List.foldl_cons, hf]
    subst hn
    simp only [shGet_eq_find, fetchTracks]
    cases h : find s id with
    | none =>
      have hs : shGet (lstGetD s.shards (id % s.n)) id = none := h
      rw [shRemove_absent _ _ hs]
      have : lstSet s.shards (id % s.n) (lstGetD s.shards (id % s.n)) = s.shards := set_getD_self _ _
      rw [this]
      exact ih s rfl res
    | some t =>
      have := ih (remove s id) rfl (res ++ [t])
      simp only [remove, setShard, getShard, shardOf] at this
      simp only [lstSet, lstGetD, shRemove]
      rw [this]
      simp [remove, setShard, getShard, shardOf]

/-- **`fetch_tracks`** removes and returns exactly the requested tracks that exist, in request order -/
theorem tie_store_fetch_tracks (s : Store TA M OA) (ids : List Nat) :
    store_fetch_tracks s.n s.shards ids = ((fetchTracks s ids).1, (fetchTracks s ids).2.shards) := by
  unfold store_fetch_tracks
  simp only []
  rw [fetch_fold _ s.n (by intro st id; cases shGet (lstGetD st.1 (id % s.n)) id <;> rfl) ids s rfl []]
  simp

/-- `shard_stats`: the number of tracks in every shard -/
theorem tie_store_shard_stats (s : Store TA M OA) : store_shard_stats s.shards = shardStats s := by
  unfold store_shard_stats shardStats
  simp only []
  have : ∀ (l : List (List (Nat × Track TA M OA))) (acc : List Nat),
      List.foldl (fun result s => result ++ [List.length s]) acc l = acc ++ l.map (·.length) := by
    intro l
    induction l with
    | nil => simp
    | cons a rest ih => intro acc; simp [ih]
  rw [this]; simp

/-- placement: a track id is served by shard `id % n` -/
theorem tie_store_get_executor (s : Store TA M OA) (id : Nat) : store_get_executor s.n id = shardOf s id := rfl

end SimVerif.Tie
