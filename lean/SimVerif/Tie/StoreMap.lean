import SimVerif.Gen.LStoreMap
import SimVerif.Model.Store
import SimVerif.Props.C11
/-!
# Tie (DESIGN.md 14.11): the map operations of `TrackStore` as the Rust source has them now
(`add_track`, `fetch_tracks`, `shard_stats`, `get_executor`; regenerated on every run — the guard returned by `get_store(id)` is a
borrow of shard `id % num_shards`, written through) = `addTrack`, `fetchTracks`, `shardStats`, `shardOf` of
`SimVerif/Model/Store.lean`, the functions the refinement theorems of C09 (the store is a faithful id → track map) are about.
-/
set_option linter.unusedVariables false
namespace SimVerif.Tie
open SimVerif.Gen.L SimVerif.Track SimVerif.Store

variable {TA M OA E : Type}

theorem shGet_eq_find (s : Store TA M OA) (id : Nat) : shGet (lstGetD s.shards (id % s.n)) id = find s id := rfl

/-- **`add_track`**: a duplicate id is rejected and nothing changes; otherwise the track is put into shard `id % n` -/
theorem tie_store_add_track (s : Store TA M OA) (t : Track TA M OA) :
    store_add_track (E := E) (fun (t : Track TA M OA) => t.id) s.n s.shards t =
      ((addTrack (E := E) s t).1, (addTrack (E := E) s t).2.shards) := by
  unfold store_add_track addTrack
  have hfind : find s t.id = shGet (lstGetD s.shards (t.id % s.n)) t.id := rfl
  rw [hfind]
  simp only []
  cases h : shGet (lstGetD s.shards (t.id % s.n)) t.id with
  | none => simp only [Option.isNone_none, if_true]; rfl
  | some t0 => simp only [Option.isNone_some, Bool.false_eq_true, if_false]

theorem set_getD_self {β : Type} (l : List (List β)) (k : Nat) : l.set k (l.getD k []) = l := by
  induction l generalizing k with
  | nil => rfl
  | cons a rest ih =>
    cases k with
    | zero => rfl
    | succ k => simp only [List.set_cons_succ, List.getD_cons_succ, ih]

theorem shRemove_absent {β : Type} (sh : List (Nat × β)) (id : Nat) (h : shGet sh id = none) : shRemove sh id = sh := by
  unfold shRemove
  rw [List.filter_eq_self]
  intro p hp
  unfold shGet at h
  simp only [Option.map_eq_none_iff, List.find?_eq_none] at h
  have := h p hp
  simpa using this

/-- the loop of `fetch_tracks` -/
theorem fetch_fold (f : List (List (Nat × Track TA M OA)) × List (Track TA M OA) → Nat → List (List (Nat × Track TA M OA)) × List (Track TA M OA))
    (n : Nat)
    (hf : ∀ st id, f st id =
      (match shGet (lstGetD st.1 (id % n)) id with
       | some t => (lstSet st.1 (id % n) (shRemove (lstGetD st.1 (id % n)) id), st.2 ++ [t])
       | none => (lstSet st.1 (id % n) (shRemove (lstGetD st.1 (id % n)) id), st.2)))
    (ids : List Nat) (s : Store TA M OA) (hn : s.n = n) (res : List (Track TA M OA)) :
    List.foldl f (s.shards, res) ids = ((fetchTracks s ids).2.shards, res ++ (fetchTracks s ids).1) := by
  induction ids generalizing s res with
  | nil => simp [fetchTracks]
  | cons id rest ih =>
    rw [List.foldl_cons, hf]
    subst hn
    simp only [shGet_eq_find, fetchTracks]
    cases h : find s id with
    | none =>
      have hs : shGet (lstGetD s.shards (id % s.n)) id = none := h
      rw [shRemove_absent _ _ hs]
      have : lstSet s.shards (id % s.n) (lstGetD s.shards (id % s.n)) = s.shards := set_getD_self _ _
      rw [this]
      exact ih s rfl res
    | some t =>
      have := ih (remove s id) rfl (res ++ [t])
      simp only [remove, setShard, getShard, shardOf] at this
      simp only [lstSet, lstGetD, shRemove]
      rw [this]
      simp [remove, setShard, getShard, shardOf]

/-- **`fetch_tracks`** removes and returns exactly the requested tracks that exist, in request order -/
theorem tie_store_fetch_tracks (s : Store TA M OA) (ids : List Nat) :
    store_fetch_tracks s.n s.shards ids = ((fetchTracks s ids).1, (fetchTracks s ids).2.shards) := by
  unfold store_fetch_tracks
  simp only []
  rw [fetch_fold _ s.n (by intro st id; cases shGet (lstGetD st.1 (id % s.n)) id <;> rfl) ids s rfl []]
  simp

/-- `shard_stats`: the number of tracks in every shard -/
theorem tie_store_shard_stats (s : Store TA M OA) : store_shard_stats s.shards = shardStats s := by
  unfold store_shard_stats shardStats
  simp only []
  have : ∀ (l : List (List (Nat × Track TA M OA))) (acc : List Nat),
      List.foldl (fun result s => result ++ [List.length s]) acc l = acc ++ l.map (·.length) := by
    intro l
    induction l with
    | nil => simp
    | cons a rest ih => intro acc; simp [ih]
  rw [this]; simp

/-- placement: a track id is served by shard `id % n` -/
theorem tie_store_get_executor (s : Store TA M OA) (id : Nat) : store_get_executor s.n id = shardOf s id := rfl

/-! ### `TrackStore::add` (an observation by track id) -/

theorem shGet_shPut {β : Type} (sh : List (Nat × β)) (id id' : Nat) (v : β) :
    shGet (shPut sh id v) id' = if id' = id then some v else shGet sh id' := by
  induction sh with
  | nil =>
    by_cases h : id' = id
    · subst h; simp [shPut, shGet]
    · have : ¬ id = id' := fun hh => h hh.symm
      simp [shPut, shGet, h, this]
  | cons p rest ih =>
    unfold shPut
    by_cases hp : (p.1 == id) = true
    · have hpid : p.1 = id := by simpa using hp
      simp only [hp, if_true]
      by_cases h : id' = id
      · subst h; simp [shGet]
      · have h1 : ¬ id = id' := fun hh => h hh.symm
        have h2 : ¬ p.1 = id' := fun hh => h (hh.symm.trans hpid)
        simp [shGet, h, h1, h2]
    · have hp' : (p.1 == id) = false := Bool.eq_false_iff.mpr hp
      simp only [hp', Bool.false_eq_true, if_false]
      by_cases hq : (p.1 == id') = true
      · have : ¬ id' = id := fun hh => hp (by simpa [hh] using hq)
        simp [shGet, List.find?_cons, hq, this]
      · have hq' : (p.1 == id') = false := Bool.eq_false_iff.mpr hq
        have := ih
        unfold shGet at this ⊢
        simp only [List.find?_cons, hq']
        exact this

theorem shGet_shInsert {β : Type} (sh : List (Nat × β)) (id id' : Nat) (v : β) :
    shGet (shInsert sh id v) id' = if id' = id then some v else shGet sh id' := by
  unfold shInsert shGet
  rw [List.find?_append]
  by_cases h : id' = id
  · subst h
    have : (sh.filter (fun p => !(p.1 == id'))).find? (fun p => p.1 == id') = none := by
      rw [List.find?_eq_none]; intro p hp; simp only [List.mem_filter] at hp; simpa using hp.2
    simp [this]
  · have h1 : ¬ id = id' := fun hh => h hh.symm
    have hf : (sh.filter (fun p => !(p.1 == id))).find? (fun p => p.1 == id') = sh.find? (fun p => p.1 == id') := by
      induction sh with
      | nil => rfl
      | cons p rest ih =>
        by_cases hp : (p.1 == id) = true
        · have hpi : p.1 = id := by simpa using hp
          have hq : (p.1 == id') = false := by
            rw [hpi]; simpa using h1
          simp only [List.filter_cons, hp, Bool.not_true, Bool.false_eq_true, if_false, List.find?_cons, hq]
          exact ih
        · have hp' : (p.1 == id) = false := Bool.eq_false_iff.mpr hp
          simp only [List.filter_cons, hp', Bool.not_false, if_true, List.find?_cons]
          cases (p.1 == id') <;> simp [ih]
    simp [hf, h, h1]

/-- lookup in the shards after one shard was replaced -/
theorem getD_set {β : Type} (l : List (List β)) (k k' : Nat) (x : List β) :
    (l.set k x).getD k' [] = if k' = k ∧ k < l.length then x else l.getD k' [] := by
  simp only [List.getD_eq_getElem?_getD, List.getElem?_set]
  by_cases h : k = k'
  · subst h
    by_cases hl : k < l.length
    · simp [hl]
    · simp [hl]
  · have : ¬ k' = k := fun hh => h hh.symm
    simp [h, this]

/-- **`TrackStore::add`**: the answer is the model's, and afterwards every id is looked up to the same track as in the model
(the source updates an existing track in place, the model re-inserts it: as maps they are the same). A missing id is created
through the builder — exactly as building the track externally and inserting it; an existing track gets the observation through
`Track::add_observation`, and since that is atomic (`C11_add_atomic`) a refused observation leaves the store as it was -/
theorem tie_store_add {U Q : Type} (cb : Cb TA M OA U Q E) {A F : Type} (obsOf : Option A → Option F → Option OA)
    (s : Store TA M OA) (id cls : Nat) (fa : Option A) (f : Option F) (u : Option U) :
    let g := store_add
      (fun (x : Nat × Nat × Option A × Option F × Option U) => (build cb x.1 s.defMetric s.defAttrs [(x.2.1, obsOf x.2.2.1 x.2.2.2.1, x.2.2.2.2)]).1)
      (fun t c fa f u => ((addObservation cb t c (obsOf fa f) u).1, (addObservation cb t c (obsOf fa f) u).2.1))
      s.n s.shards id cls fa f u
    let m := add cb s id cls (obsOf fa f) u
    g.1 = m.1 ∧ ∀ id', shGet (lstGetD g.2 (id' % s.n)) id' = find m.2.1 id' := by
  intro g m
  simp only [g, m, store_add, add]
  have hfind : shGet (lstGetD s.shards (id % s.n)) id = find s id := rfl
  rw [hfind]
  cases hf : find s id with
  | none =>
    simp only []
    cases hb : build cb id s.defMetric s.defAttrs [(cls, obsOf fa f, u)] with
    | mk r k =>
      cases r with
      | error e => exact ⟨rfl, fun id' => rfl⟩
      | ok t => exact ⟨rfl, fun id' => rfl⟩
  | some t =>
    simp only []
    cases ha : addObservation cb t cls (obsOf fa f) u with
    | mk r rest =>
      obtain ⟨t', k⟩ := rest
      cases r with
      | error e =>
        have hat := ((C11.C11_add_atomic cb t cls (obsOf fa f) u).1 e (by rw [ha])).1
        rw [ha] at hat
        simp only at hat
        subst hat
        refine ⟨rfl, fun id' => ?_⟩
        simp only [lstGetD, lstSet, getD_set]
        by_cases hk : id' % s.n = id % s.n ∧ id % s.n < s.shards.length
        · simp only [hk, and_self, if_true, shGet_shPut]
          by_cases hid : id' = id
          · subst hid; simp [hf, ← hfind, lstGetD]
          · simp only [hid, if_false, find, getShard, shardOf, hk.1]; rfl
        · simp only [hk, if_false]; rfl
      | ok v =>
        refine ⟨rfl, fun id' => ?_⟩
        simp only [lstGetD, lstSet, getD_set, put, setShard, find, getShard, shardOf]
        by_cases hk : id' % s.n = id % s.n ∧ id % s.n < s.shards.length
        · simp only [hk, and_self, if_true, shGet_shPut]
          have := shGet_shInsert (s.shards.getD (id % s.n) []) id id' t'
          unfold shGet shInsert at this
          rw [this]
          by_cases hid : id' = id <;> simp [hid, shGet]
        · simp only [hk, if_false]; rfl

end SimVerif.Tie
