import SimVerif.Gen.LBatchReq
import SimVerif.Tie.Epoch
import Mathlib.Data.List.Induction
import Mathlib.Data.List.Nodup
/-!
# Tie (DESIGN.md 14.15): `PredictionBatchRequest::add` groups the detections of a batch per scene

`Gen/LBatchReq.lean` is regenerated on every run from `trackers/batch.rs`. C06 says a batch delivers *one result per scene it
contains, each with one record per detection in order*: what a batch "contains" is built by `add`. For every sequence of
`add(scene, elt)` calls on a new request (`addAll`):

* `tie_batch_get`: the entry of a scene is exactly the elements added for that scene, **in the order they were added**; a scene
  nothing was added for has no entry;
* `tie_batch_size`: `batch_size` is the number of entries, and the entries' scene ids are pairwise distinct — one entry, hence one
  result, per scene.
-/
set_option linter.unusedSectionVars false
set_option linter.unusedVariables false
namespace SimVerif.Tie
open SimVerif.Gen.L

variable {T : Type}

/-- one `add` on the pair (batch, batch_size) -/
def addStep (st : List (Nat × List T) × Nat) (x : Nat × T) : List (Nat × List T) × Nat :=
  ((batch_request_add st.1 st.2 x.1 x.2).2.1, (batch_request_add st.1 st.2 x.1 x.2).2.2)

/-- a new request, then the `add`s in order -/
def addAll (l : List (Nat × T)) : List (Nat × List T) × Nat := l.foldl addStep ([], 0)

theorem addStep_batch (st : List (Nat × List T) × Nat) (x : Nat × T) :
    (addStep st x).1 = mapSet st.1 x.1 ((mapGet st.1 x.1).getD [] ++ [x.2]) := by
  unfold addStep batch_request_add
  cases h : mapGet st.1 x.1 <;> simp [h]

theorem addStep_size (st : List (Nat × List T) × Nat) (x : Nat × T) :
    (addStep st x).2 = (addStep st x).1.length := by
  unfold addStep batch_request_add
  cases h : mapGet st.1 x.1 <;> simp [h]

/-- **the entry of a scene: what was added for it, in order** -/
theorem tie_batch_get (l : List (Nat × T)) (s : Nat) :
    mapGet (addAll l).1 s =
      (if (l.filter (fun x => x.1 == s)) = [] then none else some ((l.filter (fun x => x.1 == s)).map (·.2))) := by
  unfold addAll
  induction l using List.reverseRecOn with
  | nil => simp [mapGet]
  | append_singleton l x ih =>
    rw [List.foldl_append, List.foldl_cons, List.foldl_nil, addStep_batch, mapGet_mapSet]
    by_cases hs : s = x.1
    · subst hs
      simp only [↓reduceIte, ih, List.filter_append, List.filter_cons, beq_self_eq_true, List.filter_nil, List.map_append,
        List.map_cons, List.map_nil]
      by_cases he : l.filter (fun y => y.1 == x.1) = []
      · simp [he]
      · simp [he]
    · have hx : (x.1 == s) = false := by simpa using fun h => hs h.symm
      simp only [hs, ↓reduceIte, ih, List.filter_append, List.filter_cons, hx, Bool.false_eq_true, List.filter_nil, List.append_nil]

theorem mapSet_keys {β : Type} (m : List (Nat × β)) (k : Nat) (v : β) :
    (mapSet m k v).map (·.1) = if k ∈ m.map (·.1) then m.map (·.1) else m.map (·.1) ++ [k] := by
  induction m with
  | nil => simp [mapSet]
  | cons p rest ih =>
    by_cases hp : (p.1 == k) = true
    · have : p.1 = k := by simpa using hp
      simp [mapSet, hp, this]
    · have hne : p.1 ≠ k := by simpa using hp
      simp only [mapSet, hp, Bool.false_eq_true, ↓reduceIte, List.map_cons, ih, List.mem_cons]
      by_cases hk : k ∈ rest.map (·.1)
      · simp [hk]
      · have hne' : ¬ k = p.1 := fun h => hne h.symm
        simp [hk, hne']

/-- **one entry per scene; `batch_size` counts them** -/
theorem tie_batch_size (l : List (Nat × T)) :
    (addAll l).2 = (addAll l).1.length ∧ ((addAll l).1.map (·.1)).Nodup ∧ (l = [] → (addAll l).2 = 0) := by
  unfold addAll
  induction l using List.reverseRecOn with
  | nil => simp
  | append_singleton l x ih =>
    rw [List.foldl_append, List.foldl_cons, List.foldl_nil]
    refine ⟨addStep_size _ _, ?_, by simp⟩
    rw [addStep_batch, mapSet_keys]
    split
    · exact ih.2.1
    · rename_i hk
      exact List.Nodup.append ih.2.1 (List.nodup_singleton _) (by
        intro a ha hb; simp only [List.mem_singleton] at hb; subst hb; exact hk ha)

/-- non-vacuity: scenes 7, 3, 7 — two entries, scene 7 holds its two elements in order -/
example : addAll [(7, "a"), (3, "b"), (7, "c")] = ([(7, ["a", "c"]), (3, ["b"])], 2) := by decide

end SimVerif.Tie
