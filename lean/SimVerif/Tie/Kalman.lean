import SimVerif.Gen.KKalman
import SimVerif.Gen.Consts
import SimVerif.Model.Kalman
import Mathlib.Algebra.Order.Field.Basic
/-!
# Tie: generated Kalman kernels = hand-written model (DESIGN.md 14.8)

`calculate_cost` of the box and the point filter and the `std_position` / `std_velocity` vectors, as
the Rust source has them now (`SimVerif.Gen.K.*`, regenerated on every run), coincide with
`costDirect` / `costInverted` / `stdVec` of `SimVerif/Model/Kalman.lean` at the gate indices and the
constant-coordinate index that `translator/translate.py` reads into `Gen/Consts.lean`.
-/
set_option linter.unusedSectionVars false
namespace SimVerif.Tie
open SimVerif.Kalman
variable {α : Type} [Field α] [LinearOrder α]

/-- `Universal2DBoxKalmanFilter::calculate_cost(d, false)` -/
theorem tie_box_cost_direct (chi : Nat → α) (upper d : α) :
    Gen.K.box_cost chi upper d false = costDirect (chi Gen.boxCostGateDirect) upper d := by
  unfold Gen.K.box_cost costDirect Gen.boxCostGateDirect
  simp only [Bool.not_false, if_true, gt_iff_lt, decide_eq_true_eq]

/-- `Universal2DBoxKalmanFilter::calculate_cost(d, true)` -/
theorem tie_box_cost_inverted (chi : Nat → α) (upper d : α) :
    Gen.K.box_cost chi upper d true = costInverted (chi Gen.boxCostGateInverted) upper d := by
  unfold Gen.K.box_cost costInverted Gen.boxCostGateInverted
  simp only [Bool.not_true, Bool.false_eq_true, if_false, gt_iff_lt, decide_eq_true_eq]

/-- `Point2DKalmanFilter::calculate_cost(d, false)` -/
theorem tie_point_cost_direct (chi : Nat → α) (upper d : α) :
    Gen.K.point_cost chi upper d false = costDirect (chi Gen.pointCostGateDirect) upper d := by
  unfold Gen.K.point_cost costDirect Gen.pointCostGateDirect
  simp only [Bool.not_false, if_true, gt_iff_lt, decide_eq_true_eq]

/-- `Point2DKalmanFilter::calculate_cost(d, true)` -/
theorem tie_point_cost_inverted (chi : Nat → α) (upper d : α) :
    Gen.K.point_cost chi upper d true = costInverted (chi Gen.pointCostGateInverted) upper d := by
  unfold Gen.K.point_cost costInverted Gen.pointCostGateInverted
  simp only [Bool.not_true, Bool.false_eq_true, if_false, gt_iff_lt, decide_eq_true_eq]

/-- box filter `std_position(k, cnst, h)`: `k·w·h` everywhere except the constant coordinate -/
theorem tie_box_std_position (w k cnst h : α) :
    Gen.K.box_std_position w k cnst h = stdVec k w cnst h 5 Gen.stdConstIndex := by
  unfold Gen.K.box_std_position stdVec Gen.stdConstIndex
  simp [List.range, List.range.loop]

/-- box filter `std_velocity(k, cnst, h)` -/
theorem tie_box_std_velocity (w k cnst h : α) :
    Gen.K.box_std_velocity w k cnst h = stdVec k w cnst h 5 Gen.stdConstIndex := by
  unfold Gen.K.box_std_velocity stdVec Gen.stdConstIndex
  simp [List.range, List.range.loop]

/-- point filter `std_position(k, _)`: the constant `k·w` for both coordinates (no height scaling) -/
theorem tie_point_std_position (w k p : α) : Gen.K.point_std_position w k p = [k * w, k * w] := rfl

/-- point filter `std_velocity(k, _)` -/
theorem tie_point_std_velocity (w k p : α) : Gen.K.point_std_velocity w k p = [k * w, k * w] := rfl

end SimVerif.Tie
