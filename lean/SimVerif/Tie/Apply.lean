import SimVerif.Gen.LApply
import Mathlib.Data.List.Nodup
/-!
# Tie (DESIGN.md 14.13): the per-detection loop of `Sort::predict_with_scene` and `VisualSort::predict_with_scene`, as the Rust source has them now

`Gen/LApply.lean` is regenerated on every run from `trackers/sort/simple_api.rs` and `trackers/visual_sort/simple_api.rs`:
`gen_track_id` and the statements of `predict_with_scene` from `let mut res = Vec::default();` on — the loop that, for
every candidate track built from a detection, reads its winner, either merges the candidate into the winning track
(VisualSORT: after writing the voting type into it) or issues a new id and adds it, then reads the stored track back and
pushes its record. The store operations (`add_track`, `merge_external`, `get_store`), `get_track_id` / `set_track_id` /
`clone` / `add_observation` and `SortTrack::from` are parameters; every `unwrap` that can fail is the value `none`
(indexing `dest[0]` reads a default on an empty list: the voting engines return non-empty lists, `Tie/SortVoting.lean`,
`Tie/VisVoting.lean`).

The same loop runs in the voting threads of the batch trackers (`trackers/sort/batch_api.rs`, `trackers/visual_sort/batch_api.rs`,
`fn voting_thread`; a statement snippet, with the shared id counter — an `Arc<RwLock<u64>>` whose name a later local shadows —
renamed `ctr` and the shared store renamed `db` by patterns stated in the configuration). There an id is drawn for **every**
candidate, used or not: `stepB` / `stepBV`, `tie_batch_sort_apply_winners`, `tie_batch_visual_apply_winners`,
`batch_sort_apply_C01`, `batch_visual_apply_C01`.

Proved here, for **every** list of detections, winners table and store behaviour:

* `tie_sort_apply_winners`, `tie_visual_apply_winners`: the loop is the left-to-right monadic fold of `stepI` / `stepV`
  (a candidate whose winner is another track continues that track; a candidate that won itself, or has no winner, starts
  a track under the next counter value);
* `sort_apply_C01`, `visual_apply_C01` (from `run_one_record_per_detection`, `run_fresh_ids_increasing`,
  `run_fresh_ids_never_issued`, `run_fresh_ids_nodup`, proved once for any step of that shape): when the call does not
  panic it returns exactly one record per detection, in submission order; the ids given to newly started tracks are
  values the counter takes during the call — strictly increasing, pairwise distinct, above the counter at entry (the largest
  id issued so far), so never issued before by this tracker instance; the counter only grows.
-/
set_option linter.unusedSectionVars false
set_option linter.unusedVariables false
namespace SimVerif.Tie
open SimVerif.Gen.L

variable {T DB R : Type}

/-- what the winners table says for the candidate with (random) id `src`: continue track `dest`, or start a new track -/
def pickOf (winners : List (Nat × List Nat)) (src : Nat) : Option Nat :=
  match mapGet winners src with
  | some l => if l[0]! = src then none else some l[0]!
  | none => none

/-- one iteration, with the chosen ids recorded: `(id, fresh)` -/
def stepI (trackId : T → Nat) (setTrackId : T → Nat → T) (addTrack : DB → T → Option DB) (mergeExternal : DB → Nat → T → Option DB)
    (shardOf : DB → Nat → List (Nat × T)) (recOf : T → R) (winners : List (Nat × List Nat))
    (st : (Nat × DB × List R) × List (Nat × Bool)) (t : T) : Option ((Nat × DB × List R) × List (Nat × Bool)) :=
  match pickOf winners (trackId t) with
  | some dest =>
    (mergeExternal st.1.2.1 dest t).bind fun db' =>
      (mapGet (shardOf db' dest) dest).map fun tr => ((st.1.1, db', st.1.2.2 ++ [recOf tr]), st.2 ++ [(dest, false)])
  | none =>
    (addTrack st.1.2.1 (setTrackId t (st.1.1 + 1))).bind fun db' =>
      (mapGet (shardOf db' (st.1.1 + 1)) (st.1.1 + 1)).map fun tr =>
        ((st.1.1 + 1, db', st.1.2.2 ++ [recOf tr]), st.2 ++ [(st.1.1 + 1, true)])

/-- the state of a run: `(counter, store, records)` and the chosen `(id, fresh)` so far -/
abbrev RunSt (DB R : Type) := (Nat × DB × List R) × List (Nat × Bool)

/-- the fold over the detections, in submission order; `none` as soon as one step fails -/
def runG (step : RunSt DB R → T → Option (RunSt DB R)) : List T → RunSt DB R → Option (RunSt DB R)
  | [], st => some st
  | t :: ts, st => (step st t).bind (runG step ts)

abbrev runI (trackId : T → Nat) (setTrackId : T → Nat → T) (addTrack : DB → T → Option DB) (mergeExternal : DB → Nat → T → Option DB)
    (shardOf : DB → Nat → List (Nat × T)) (recOf : T → R) (winners : List (Nat × List Nat)) :
    List T → RunSt DB R → Option (RunSt DB R) :=
  runG (stepI trackId setTrackId addTrack mergeExternal shardOf recOf winners)

/-- the body of the generated fold (restated; checked against the generated definition by `unfold; rfl` below) -/
def genStep (trackId : T → Nat) (setTrackId : T → Nat → T) (addTrack : DB → T → Option DB) (mergeExternal : DB → Nat → T → Option DB)
    (shardOf : DB → Nat → List (Nat × T)) (recOf : T → R) (winners : List (Nat × List Nat))
    (acc : Option (Nat × DB × List R)) (t : T) : Option (Nat × DB × List R) :=
  match acc with
  | none => none
  | some st => (stepI trackId setTrackId addTrack mergeExternal shardOf recOf winners (st, []) t).map (·.1)

theorem foldl_ext_fn' {α β : Type} (f g : β → α → β) (h : ∀ s x, f s x = g s x) (l : List α) (s : β) :
    List.foldl f s l = List.foldl g s l := by
  induction l generalizing s with
  | nil => rfl
  | cons x rest ih => rw [List.foldl_cons, List.foldl_cons, h, ih]

theorem foldl_none {α β : Type} (f : Option β → α → Option β) (hf : ∀ a, f none a = none) (l : List α) :
    List.foldl f none l = none := by
  induction l with
  | nil => rfl
  | cons a l ih => simp [List.foldl, hf, ih]

/-- the recorded ids do not influence the rest of the state -/
theorem stepI_ids (trackId : T → Nat) (setTrackId : T → Nat → T) (addTrack : DB → T → Option DB) (mergeExternal : DB → Nat → T → Option DB)
    (shardOf : DB → Nat → List (Nat × T)) (recOf : T → R) (winners : List (Nat × List Nat)) (s : Nat × DB × List R) (ids : List (Nat × Bool)) (t : T) :
    (stepI trackId setTrackId addTrack mergeExternal shardOf recOf winners (s, ids) t).map (·.1) =
    (stepI trackId setTrackId addTrack mergeExternal shardOf recOf winners (s, []) t).map (·.1) := by
  unfold stepI
  cases pickOf winners (trackId t) with
  | some dest =>
    simp only []
    cases mergeExternal s.2.1 dest t with
    | none => rfl
    | some db' => simp only [Option.bind_some]; cases mapGet (shardOf db' dest) dest <;> rfl
  | none =>
    simp only []
    cases addTrack s.2.1 (setTrackId t (s.1 + 1)) with
    | none => rfl
    | some db' => simp only [Option.bind_some]; cases mapGet (shardOf db' (s.1 + 1)) (s.1 + 1) <;> rfl

theorem runI_fold (trackId : T → Nat) (setTrackId : T → Nat → T) (addTrack : DB → T → Option DB) (mergeExternal : DB → Nat → T → Option DB)
    (shardOf : DB → Nat → List (Nat × T)) (recOf : T → R) (winners : List (Nat × List Nat)) (tracks : List T) :
    ∀ (s : Nat × DB × List R) (ids : List (Nat × Bool)),
    List.foldl (genStep trackId setTrackId addTrack mergeExternal shardOf recOf winners) (some s) tracks =
      (runI trackId setTrackId addTrack mergeExternal shardOf recOf winners tracks (s, ids)).map (·.1) := by
  induction tracks with
  | nil => intro s ids; rfl
  | cons t ts ih =>
    intro s ids
    simp only [List.foldl, runI, runG]
    have h := stepI_ids trackId setTrackId addTrack mergeExternal shardOf recOf winners s ids t
    cases hs : stepI trackId setTrackId addTrack mergeExternal shardOf recOf winners (s, ids) t with
    | none =>
      rw [hs] at h
      have : genStep trackId setTrackId addTrack mergeExternal shardOf recOf winners (some s) t = none := by
        simp only [genStep]; rw [← h]; rfl
      rw [this, foldl_none _ (fun _ => rfl)]; rfl
    | some r =>
      rw [hs] at h
      have : genStep trackId setTrackId addTrack mergeExternal shardOf recOf winners (some s) t = some r.1 := by
        simp only [genStep]; rw [← h]; rfl
      rw [this, Option.bind_some, ih r.1 r.2]

/-- the generated loop is `foldl genStep` -/
theorem gen_apply (trackId : T → Nat) (setTrackId : T → Nat → T) (addTrack : DB → T → Option DB) (mergeExternal : DB → Nat → T → Option DB)
    (shardOf : DB → Nat → List (Nat × T)) (recOf : T → R) (winners : List (Nat × List Nat)) (tracks : List T) (ctr : Nat) (db : DB) :
    sort_apply_winners trackId setTrackId addTrack mergeExternal shardOf recOf winners tracks ctr db =
      List.foldl (genStep trackId setTrackId addTrack mergeExternal shardOf recOf winners) (some (ctr, db, [])) tracks := by
  unfold sort_apply_winners
  simp only []
  rw [foldl_ext_fn' _ (genStep trackId setTrackId addTrack mergeExternal shardOf recOf winners) (by
    intro acc t
    cases acc with
    | none => rfl
    | some st =>
      obtain ⟨c, d, r⟩ := st
      simp only [genStep, stepI, pickOf, sort_gen_track_id]
      cases hw : mapGet winners (trackId t) with
      | none =>
        simp only []
        cases addTrack d (setTrackId t (c + 1)) with
        | none => rfl
        | some db' => simp only [Option.bind_some]; cases mapGet (shardOf db' (c + 1)) (c + 1) <;> rfl
      | some l =>
        simp only []
        by_cases hd : l[0]! = trackId t
        · simp only [hd, decide_true, ↓reduceIte]
          cases addTrack d (setTrackId t (c + 1)) with
          | none => rfl
          | some db' => simp only [Option.bind_some]; cases mapGet (shardOf db' (c + 1)) (c + 1) <;> rfl
        · simp only [hd, decide_false, Bool.false_eq_true, ↓reduceIte]
          cases mergeExternal d l[0]! t with
          | none => rfl
          | some db' => simp only [Option.bind_some]; cases mapGet (shardOf db' l[0]!) l[0]! <;> rfl)]
  generalize List.foldl (genStep trackId setTrackId addTrack mergeExternal shardOf recOf winners) (some (ctr, db, [])) tracks = s
  cases s with
  | none => rfl
  | some r => rfl

/-- **`predict_with_scene`, the apply loop, is the fold of `stepI` over the detections in submission order** -/
theorem tie_sort_apply_winners (trackId : T → Nat) (setTrackId : T → Nat → T) (addTrack : DB → T → Option DB) (mergeExternal : DB → Nat → T → Option DB)
    (shardOf : DB → Nat → List (Nat × T)) (recOf : T → R) (winners : List (Nat × List Nat)) (tracks : List T) (ctr : Nat) (db : DB) :
    sort_apply_winners trackId setTrackId addTrack mergeExternal shardOf recOf winners tracks ctr db =
      (runI trackId setTrackId addTrack mergeExternal shardOf recOf winners tracks ((ctr, db, []), [])).map (·.1) := by
  rw [gen_apply, runI_fold _ _ _ _ _ _ _ _ _ []]

/-! ### what the fold guarantees (for any step of the shape both trackers have) -/

/-- a step adds one record and one chosen id: an existing track's, or — for a new track — the value the counter has after
the step, which is larger than before; the counter never decreases (the batch trackers draw an id for every candidate) -/
def StepOK (step : RunSt DB R → T → Option (RunSt DB R)) : Prop :=
  ∀ st t st', step st t = some st' →
    st'.1.2.2.length = st.1.2.2.length + 1 ∧ st.1.1 ≤ st'.1.1 ∧
    ((∃ d, st'.2 = st.2 ++ [(d, false)]) ∨ (st'.2 = st.2 ++ [(st'.1.1, true)] ∧ st.1.1 < st'.1.1))

/-- invariant of the run: one record and one chosen id per processed detection; the fresh ids are strictly increasing,
above the counter at entry and at most the current counter -/
structure RunInv (c0 : Nat) (k : Nat) (st : RunSt DB R) : Prop where
  recs : st.1.2.2.length = k
  ids : st.2.length = k
  mono : c0 ≤ st.1.1
  fresh : ((st.2.filter (·.2)).map (·.1)).Pairwise (· < ·)
  bound : ∀ x ∈ (st.2.filter (·.2)).map (·.1), c0 < x ∧ x ≤ st.1.1

theorem step_inv (step : RunSt DB R → T → Option (RunSt DB R)) (hok : StepOK step) (c0 k : Nat)
    (st st' : RunSt DB R) (t : T) (h : RunInv c0 k st) (hs : step st t = some st') : RunInv c0 (k + 1) st' := by
  obtain ⟨hl, hmono, hc⟩ := hok st t st' hs
  rcases hc with ⟨d, hids⟩ | ⟨hids, hlt⟩
  · refine ⟨by rw [hl, h.recs], by rw [hids]; simp [h.ids], Nat.le_trans h.mono hmono, ?_, ?_⟩
    · rw [hids]; simpa [List.filter_append] using h.fresh
    · rw [hids]; intro x hx
      have hx' : x ∈ (st.2.filter (·.2)).map (·.1) := by simpa [List.filter_append] using hx
      exact ⟨(h.bound x hx').1, Nat.le_trans (h.bound x hx').2 hmono⟩
  · refine ⟨by rw [hl, h.recs], by rw [hids]; simp [h.ids], Nat.le_trans h.mono hmono, ?_, ?_⟩
    · rw [hids]
      simp only [List.filter_append, List.filter_cons, List.filter_nil, ↓reduceIte, List.map_append, List.map_cons, List.map_nil]
      rw [List.pairwise_append]
      refine ⟨h.fresh, List.pairwise_singleton _ _, ?_⟩
      intro x hx y hy
      simp only [List.mem_singleton] at hy
      subst hy
      exact Nat.lt_of_le_of_lt (h.bound x hx).2 hlt
    · rw [hids]
      simp only [List.filter_append, List.filter_cons, List.filter_nil, ↓reduceIte, List.map_append, List.map_cons, List.map_nil,
        List.mem_append, List.mem_singleton]
      rintro x (hx | rfl)
      · exact ⟨(h.bound x hx).1, Nat.le_trans (h.bound x hx).2 hmono⟩
      · exact ⟨Nat.lt_of_le_of_lt h.mono hlt, Nat.le_refl _⟩

theorem runG_inv (step : RunSt DB R → T → Option (RunSt DB R)) (hok : StepOK step) (c0 : Nat) (tracks : List T) :
    ∀ (k : Nat) (st st' : RunSt DB R), RunInv c0 k st → runG step tracks st = some st' → RunInv c0 (k + tracks.length) st' := by
  induction tracks with
  | nil => intro k st st' h hs; simp only [runG, Option.some.injEq] at hs; subst hs; simpa using h
  | cons t ts ih =>
    intro k st st' h hs
    simp only [runG] at hs
    cases h1 : step st t with
    | none => rw [h1] at hs; simp at hs
    | some s1 =>
      rw [h1, Option.bind_some] at hs
      have := ih (k + 1) s1 st' (step_inv step hok c0 k st s1 t h h1) hs
      simpa [Nat.add_assoc, Nat.add_comm 1] using this

theorem runInv_init (ctr : Nat) (db : DB) : RunInv (R := R) ctr 0 ((ctr, db, []), []) :=
  ⟨rfl, rfl, Nat.le_refl _, List.Pairwise.nil, fun x hx => by cases hx⟩

/-- **one record per detection, in submission order** (C01): when the call returns, it returns as many records as
detections, one chosen id each; the counter has not decreased -/
theorem run_one_record_per_detection (step : RunSt DB R → T → Option (RunSt DB R)) (hok : StepOK step) (tracks : List T) (ctr : Nat) (db : DB)
    (st' : RunSt DB R) (h : runG step tracks ((ctr, db, []), []) = some st') :
    st'.1.2.2.length = tracks.length ∧ st'.2.length = tracks.length ∧ ctr ≤ st'.1.1 := by
  have := runG_inv step hok ctr tracks 0 ((ctr, db, []), []) st' (runInv_init ctr db) h
  exact ⟨by simpa using this.recs, by simpa using this.ids, this.mono⟩

/-- **the ids of newly started tracks are strictly increasing** in submission order … -/
theorem run_fresh_ids_increasing (step : RunSt DB R → T → Option (RunSt DB R)) (hok : StepOK step) (tracks : List T) (ctr : Nat) (db : DB)
    (st' : RunSt DB R) (h : runG step tracks ((ctr, db, []), []) = some st') :
    ((st'.2.filter (·.2)).map (·.1)).Pairwise (· < ·) :=
  (runG_inv step hok ctr tracks 0 ((ctr, db, []), []) st' (runInv_init ctr db) h).fresh

/-- … **and never issued before**: every one of them is above the counter the call started with (the counter is the
largest id this tracker instance has issued: it is written only where an id is drawn, and the id drawn is the value
stored) and at most the counter the call ends with -/
theorem run_fresh_ids_never_issued (step : RunSt DB R → T → Option (RunSt DB R)) (hok : StepOK step) (tracks : List T) (ctr : Nat) (db : DB)
    (st' : RunSt DB R) (h : runG step tracks ((ctr, db, []), []) = some st') :
    ∀ p ∈ st'.2, p.2 = true → ctr < p.1 ∧ p.1 ≤ st'.1.1 := by
  intro p hp hf
  exact (runG_inv step hok ctr tracks 0 ((ctr, db, []), []) st' (runInv_init ctr db) h).bound p.1
    (List.mem_map.mpr ⟨p, List.mem_filter.mpr ⟨hp, hf⟩, rfl⟩)

/-- the fresh ids of one call are pairwise distinct -/
theorem run_fresh_ids_nodup (step : RunSt DB R → T → Option (RunSt DB R)) (hok : StepOK step) (tracks : List T) (ctr : Nat) (db : DB)
    (st' : RunSt DB R) (h : runG step tracks ((ctr, db, []), []) = some st') :
    ((st'.2.filter (·.2)).map (·.1)).Nodup :=
  (run_fresh_ids_increasing step hok tracks ctr db st' h).imp (fun hab => Nat.ne_of_lt hab)

/-- the SORT step has that shape -/
theorem stepI_ok (trackId : T → Nat) (setTrackId : T → Nat → T) (addTrack : DB → T → Option DB) (mergeExternal : DB → Nat → T → Option DB)
    (shardOf : DB → Nat → List (Nat × T)) (recOf : T → R) (winners : List (Nat × List Nat)) :
    StepOK (stepI trackId setTrackId addTrack mergeExternal shardOf recOf winners) := by
  intro st t st' hs
  unfold stepI at hs
  cases hp : pickOf winners (trackId t) with
  | some dest =>
    rw [hp] at hs
    simp only [] at hs
    cases hm : mergeExternal st.1.2.1 dest t with
    | none => rw [hm] at hs; simp at hs
    | some db' =>
      rw [hm] at hs; simp only [Option.bind_some] at hs
      cases hg : mapGet (shardOf db' dest) dest with
      | none => rw [hg] at hs; simp at hs
      | some tr =>
        rw [hg] at hs; simp only [Option.map_some, Option.some.injEq] at hs
        subst hs
        exact ⟨by simp, Nat.le_refl _, Or.inl ⟨dest, rfl⟩⟩
  | none =>
    rw [hp] at hs
    simp only [] at hs
    cases hm : addTrack st.1.2.1 (setTrackId t (st.1.1 + 1)) with
    | none => rw [hm] at hs; simp at hs
    | some db' =>
      rw [hm] at hs; simp only [Option.bind_some] at hs
      cases hg : mapGet (shardOf db' (st.1.1 + 1)) (st.1.1 + 1) with
      | none => rw [hg] at hs; simp at hs
      | some tr =>
        rw [hg] at hs; simp only [Option.map_some, Option.some.injEq] at hs
        subst hs
        exact ⟨by simp, Nat.le_succ _, Or.inr ⟨rfl, Nat.lt_succ_self _⟩⟩

/-- **C01 for the SORT loop as the source has it**: one record per detection in submission order; fresh ids are the next
counter values — increasing, pairwise distinct, never issued before -/
theorem sort_apply_C01 (trackId : T → Nat) (setTrackId : T → Nat → T) (addTrack : DB → T → Option DB) (mergeExternal : DB → Nat → T → Option DB)
    (shardOf : DB → Nat → List (Nat × T)) (recOf : T → R) (winners : List (Nat × List Nat)) (tracks : List T) (ctr : Nat) (db : DB)
    (st' : RunSt DB R)
    (h : runI trackId setTrackId addTrack mergeExternal shardOf recOf winners tracks ((ctr, db, []), []) = some st') :
    sort_apply_winners trackId setTrackId addTrack mergeExternal shardOf recOf winners tracks ctr db = some st'.1 ∧
    st'.1.2.2.length = tracks.length ∧ st'.2.length = tracks.length ∧
    ((st'.2.filter (·.2)).map (·.1)).Nodup ∧ (∀ p ∈ st'.2, p.2 = true → ctr < p.1 ∧ p.1 ≤ st'.1.1) := by
  have hok := stepI_ok trackId setTrackId addTrack mergeExternal shardOf recOf winners
  refine ⟨by rw [tie_sort_apply_winners, h]; rfl, ?_, ?_, ?_, ?_⟩
  · exact (run_one_record_per_detection _ hok tracks ctr db st' h).1
  · exact (run_one_record_per_detection _ hok tracks ctr db st' h).2.1
  · exact run_fresh_ids_nodup _ hok tracks ctr db st' h
  · exact run_fresh_ids_never_issued _ hok tracks ctr db st' h

/-! ### VisualSORT: the same loop, with the voting type written into a continued track first -/

/-- the winner of a VisualSORT candidate carries the voting type (visual / positional) that decided it -/
def pickOfV {V : Type} [Inhabited V] (winners : List (Nat × List (Nat × V))) (src : Nat) : Option (Nat × V) :=
  match mapGet winners src with
  | some l => if l[0]!.1 = src then none else some l[0]!
  | none => none

def stepV {V : Type} [Inhabited V] (trackId : T → Nat) (setTrackId : T → Nat → T) (cloneT : T → T) (addVotingObs : T → Option V → Option T)
    (addTrack : DB → T → Option DB) (mergeExternal : DB → Nat → T → Option DB)
    (shardOf : DB → Nat → List (Nat × T)) (recOf : T → R) (winners : List (Nat × List (Nat × V)))
    (st : RunSt DB R) (t : T) : Option (RunSt DB R) :=
  match pickOfV winners (trackId t) with
  | some (dest, vt) =>
    (addVotingObs t (some vt)).bind fun t' =>
      (mergeExternal st.1.2.1 dest t').bind fun db' =>
        (mapGet (shardOf db' dest) dest).map fun tr => ((st.1.1, db', st.1.2.2 ++ [recOf tr]), st.2 ++ [(dest, false)])
  | none =>
    (addTrack st.1.2.1 (setTrackId (cloneT t) (st.1.1 + 1))).bind fun db' =>
      (mapGet (shardOf db' (st.1.1 + 1)) (st.1.1 + 1)).map fun tr =>
        ((st.1.1 + 1, db', st.1.2.2 ++ [recOf tr]), st.2 ++ [(st.1.1 + 1, true)])

theorem stepV_ok {V : Type} [Inhabited V] (trackId : T → Nat) (setTrackId : T → Nat → T) (cloneT : T → T) (addVotingObs : T → Option V → Option T)
    (addTrack : DB → T → Option DB) (mergeExternal : DB → Nat → T → Option DB)
    (shardOf : DB → Nat → List (Nat × T)) (recOf : T → R) (winners : List (Nat × List (Nat × V))) :
    StepOK (stepV trackId setTrackId cloneT addVotingObs addTrack mergeExternal shardOf recOf winners) := by
  intro st t st' hs
  unfold stepV at hs
  cases hp : pickOfV winners (trackId t) with
  | some dv =>
    obtain ⟨dest, vt⟩ := dv
    rw [hp] at hs
    simp only [] at hs
    cases ha : addVotingObs t (some vt) with
    | none => rw [ha] at hs; simp at hs
    | some t' =>
      rw [ha] at hs; simp only [Option.bind_some] at hs
      cases hm : mergeExternal st.1.2.1 dest t' with
      | none => rw [hm] at hs; simp at hs
      | some db' =>
        rw [hm] at hs; simp only [Option.bind_some] at hs
        cases hg : mapGet (shardOf db' dest) dest with
        | none => rw [hg] at hs; simp at hs
        | some tr =>
          rw [hg] at hs; simp only [Option.map_some, Option.some.injEq] at hs
          subst hs
          exact ⟨by simp, Nat.le_refl _, Or.inl ⟨dest, rfl⟩⟩
  | none =>
    rw [hp] at hs
    simp only [] at hs
    cases hm : addTrack st.1.2.1 (setTrackId (cloneT t) (st.1.1 + 1)) with
    | none => rw [hm] at hs; simp at hs
    | some db' =>
      rw [hm] at hs; simp only [Option.bind_some] at hs
      cases hg : mapGet (shardOf db' (st.1.1 + 1)) (st.1.1 + 1) with
      | none => rw [hg] at hs; simp at hs
      | some tr =>
        rw [hg] at hs; simp only [Option.map_some, Option.some.injEq] at hs
        subst hs
        exact ⟨by simp, Nat.le_succ _, Or.inr ⟨rfl, Nat.lt_succ_self _⟩⟩

def genStepV {V : Type} [Inhabited V] (trackId : T → Nat) (setTrackId : T → Nat → T) (cloneT : T → T) (addVotingObs : T → Option V → Option T)
    (addTrack : DB → T → Option DB) (mergeExternal : DB → Nat → T → Option DB)
    (shardOf : DB → Nat → List (Nat × T)) (recOf : T → R) (winners : List (Nat × List (Nat × V)))
    (acc : Option (Nat × DB × List R)) (t : T) : Option (Nat × DB × List R) :=
  match acc with
  | none => none
  | some st => (stepV trackId setTrackId cloneT addVotingObs addTrack mergeExternal shardOf recOf winners (st, []) t).map (·.1)

theorem stepV_ids {V : Type} [Inhabited V] (trackId : T → Nat) (setTrackId : T → Nat → T) (cloneT : T → T) (addVotingObs : T → Option V → Option T)
    (addTrack : DB → T → Option DB) (mergeExternal : DB → Nat → T → Option DB)
    (shardOf : DB → Nat → List (Nat × T)) (recOf : T → R) (winners : List (Nat × List (Nat × V))) (s : Nat × DB × List R) (ids : List (Nat × Bool)) (t : T) :
    (stepV trackId setTrackId cloneT addVotingObs addTrack mergeExternal shardOf recOf winners (s, ids) t).map (·.1) =
    (stepV trackId setTrackId cloneT addVotingObs addTrack mergeExternal shardOf recOf winners (s, []) t).map (·.1) := by
  unfold stepV
  cases pickOfV winners (trackId t) with
  | some dv =>
    obtain ⟨dest, vt⟩ := dv
    simp only []
    cases addVotingObs t (some vt) with
    | none => rfl
    | some t' =>
      simp only [Option.bind_some]
      cases mergeExternal s.2.1 dest t' with
      | none => rfl
      | some db' => simp only [Option.bind_some]; cases mapGet (shardOf db' dest) dest <;> rfl
  | none =>
    simp only []
    cases addTrack s.2.1 (setTrackId (cloneT t) (s.1 + 1)) with
    | none => rfl
    | some db' => simp only [Option.bind_some]; cases mapGet (shardOf db' (s.1 + 1)) (s.1 + 1) <;> rfl

/-- a fold of "drop the ids" steps is the run with the ids dropped at the end (any step whose ids do not feed back) -/
theorem runG_fold (step : RunSt DB R → T → Option (RunSt DB R)) (g : Option (Nat × DB × List R) → T → Option (Nat × DB × List R))
    (hg0 : ∀ t, g none t = none) (hg : ∀ s t, g (some s) t = (step (s, []) t).map (·.1))
    (hids : ∀ s ids t, (step (s, ids) t).map (·.1) = (step (s, []) t).map (·.1)) (tracks : List T) :
    ∀ (s : Nat × DB × List R) (ids : List (Nat × Bool)),
    List.foldl g (some s) tracks = (runG step tracks (s, ids)).map (·.1) := by
  induction tracks with
  | nil => intro s ids; rfl
  | cons t ts ih =>
    intro s ids
    simp only [List.foldl, runG]
    have h := hids s ids t
    cases hs : step (s, ids) t with
    | none =>
      rw [hs] at h
      have : g (some s) t = none := by rw [hg, ← h]; rfl
      rw [this, foldl_none _ hg0]; rfl
    | some r =>
      rw [hs] at h
      have : g (some s) t = some r.1 := by rw [hg, ← h]; rfl
      rw [this, Option.bind_some, ih r.1 r.2]

theorem gen_apply_v {V : Type} [Inhabited V] (trackId : T → Nat) (setTrackId : T → Nat → T) (cloneT : T → T) (addVotingObs : T → Option V → Option T)
    (addTrack : DB → T → Option DB) (mergeExternal : DB → Nat → T → Option DB)
    (shardOf : DB → Nat → List (Nat × T)) (recOf : T → R) (winners : List (Nat × List (Nat × V))) (tracks : List T) (ctr : Nat) (db : DB) :
    visual_apply_winners trackId setTrackId cloneT addVotingObs addTrack mergeExternal shardOf recOf winners tracks ctr db =
      List.foldl (genStepV trackId setTrackId cloneT addVotingObs addTrack mergeExternal shardOf recOf winners) (some (ctr, db, [])) tracks := by
  unfold visual_apply_winners
  simp only []
  rw [foldl_ext_fn' _ (genStepV trackId setTrackId cloneT addVotingObs addTrack mergeExternal shardOf recOf winners) (by
    intro acc t
    cases acc with
    | none => rfl
    | some st =>
      obtain ⟨c, d, r⟩ := st
      simp only [genStepV, stepV, pickOfV, visual_gen_track_id]
      cases hw : mapGet winners (trackId t) with
      | none =>
        simp only []
        cases addTrack d (setTrackId (cloneT t) (c + 1)) with
        | none => rfl
        | some db' => simp only [Option.bind_some]; cases mapGet (shardOf db' (c + 1)) (c + 1) <;> rfl
      | some l =>
        simp only []
        by_cases hd : l[0]!.1 = trackId t
        · simp only [hd, decide_true, ↓reduceIte]
          cases addTrack d (setTrackId (cloneT t) (c + 1)) with
          | none => rfl
          | some db' => simp only [Option.bind_some]; cases mapGet (shardOf db' (c + 1)) (c + 1) <;> rfl
        · simp only [hd, decide_false, Bool.false_eq_true, ↓reduceIte]
          cases addVotingObs t (some l[0]!.2) with
          | none => rfl
          | some t' =>
            simp only [Option.bind_some]
            cases mergeExternal d l[0]!.1 t' with
            | none => rfl
            | some db' => simp only [Option.bind_some]; cases mapGet (shardOf db' l[0]!.1) l[0]!.1 <;> rfl)]
  generalize List.foldl (genStepV trackId setTrackId cloneT addVotingObs addTrack mergeExternal shardOf recOf winners) (some (ctr, db, [])) tracks = s
  cases s with
  | none => rfl
  | some r => rfl

/-- **the apply loop of `VisualSort::predict_with_scene` is the fold of `stepV`** -/
theorem tie_visual_apply_winners {V : Type} [Inhabited V] (trackId : T → Nat) (setTrackId : T → Nat → T) (cloneT : T → T) (addVotingObs : T → Option V → Option T)
    (addTrack : DB → T → Option DB) (mergeExternal : DB → Nat → T → Option DB)
    (shardOf : DB → Nat → List (Nat × T)) (recOf : T → R) (winners : List (Nat × List (Nat × V))) (tracks : List T) (ctr : Nat) (db : DB) :
    visual_apply_winners trackId setTrackId cloneT addVotingObs addTrack mergeExternal shardOf recOf winners tracks ctr db =
      (runG (stepV trackId setTrackId cloneT addVotingObs addTrack mergeExternal shardOf recOf winners) tracks ((ctr, db, []), [])).map (·.1) := by
  rw [gen_apply_v]
  exact runG_fold _ _ (fun _ => rfl) (fun _ _ => rfl)
    (stepV_ids trackId setTrackId cloneT addVotingObs addTrack mergeExternal shardOf recOf winners) tracks (ctr, db, []) []

/-- **C01 for the VisualSORT loop as the source has it** -/
theorem visual_apply_C01 {V : Type} [Inhabited V] (trackId : T → Nat) (setTrackId : T → Nat → T) (cloneT : T → T) (addVotingObs : T → Option V → Option T)
    (addTrack : DB → T → Option DB) (mergeExternal : DB → Nat → T → Option DB)
    (shardOf : DB → Nat → List (Nat × T)) (recOf : T → R) (winners : List (Nat × List (Nat × V))) (tracks : List T) (ctr : Nat) (db : DB)
    (st' : RunSt DB R)
    (h : runG (stepV trackId setTrackId cloneT addVotingObs addTrack mergeExternal shardOf recOf winners) tracks ((ctr, db, []), []) = some st') :
    visual_apply_winners trackId setTrackId cloneT addVotingObs addTrack mergeExternal shardOf recOf winners tracks ctr db = some st'.1 ∧
    st'.1.2.2.length = tracks.length ∧ st'.2.length = tracks.length ∧
    ((st'.2.filter (·.2)).map (·.1)).Nodup ∧ (∀ p ∈ st'.2, p.2 = true → ctr < p.1 ∧ p.1 ≤ st'.1.1) := by
  have hok := stepV_ok trackId setTrackId cloneT addVotingObs addTrack mergeExternal shardOf recOf winners
  refine ⟨by rw [tie_visual_apply_winners, h]; rfl, ?_, ?_, ?_, ?_⟩
  · exact (run_one_record_per_detection _ hok tracks ctr db st' h).1
  · exact (run_one_record_per_detection _ hok tracks ctr db st' h).2.1
  · exact run_fresh_ids_nodup _ hok tracks ctr db st' h
  · exact run_fresh_ids_never_issued _ hok tracks ctr db st' h

theorem tie_visual_gen_track_id (c : Nat) : visual_gen_track_id c = (c + 1, c + 1) := rfl

/-! ### the batch trackers: the same loop in the voting threads, an id drawn from the shared counter for **every** candidate -/

def stepB (trackId : T → Nat) (setTrackId : T → Nat → T) (addTrack : DB → T → Option DB) (mergeExternal : DB → Nat → T → Option DB)
    (shardOf : DB → Nat → List (Nat × T)) (recOf : T → R) (winners : List (Nat × List Nat))
    (st : RunSt DB R) (t : T) : Option (RunSt DB R) :=
  match pickOf winners (trackId t) with
  | some dest =>
    (mergeExternal st.1.2.1 dest t).bind fun db' =>
      (mapGet (shardOf db' dest) dest).map fun tr => ((st.1.1 + 1, db', st.1.2.2 ++ [recOf tr]), st.2 ++ [(dest, false)])
  | none =>
    (addTrack st.1.2.1 (setTrackId t (st.1.1 + 1))).bind fun db' =>
      (mapGet (shardOf db' (st.1.1 + 1)) (st.1.1 + 1)).map fun tr =>
        ((st.1.1 + 1, db', st.1.2.2 ++ [recOf tr]), st.2 ++ [(st.1.1 + 1, true)])

theorem stepB_ok (trackId : T → Nat) (setTrackId : T → Nat → T) (addTrack : DB → T → Option DB) (mergeExternal : DB → Nat → T → Option DB)
    (shardOf : DB → Nat → List (Nat × T)) (recOf : T → R) (winners : List (Nat × List Nat)) :
    StepOK (stepB trackId setTrackId addTrack mergeExternal shardOf recOf winners) := by
  intro st t st' hs
  unfold stepB at hs
  cases hp : pickOf winners (trackId t) with
  | some dest =>
    rw [hp] at hs
    simp only [] at hs
    cases hm : mergeExternal st.1.2.1 dest t with
    | none => rw [hm] at hs; simp at hs
    | some db' =>
      rw [hm] at hs; simp only [Option.bind_some] at hs
      cases hg : mapGet (shardOf db' dest) dest with
      | none => rw [hg] at hs; simp at hs
      | some tr =>
        rw [hg] at hs; simp only [Option.map_some, Option.some.injEq] at hs
        subst hs
        exact ⟨by simp, Nat.le_succ _, Or.inl ⟨dest, rfl⟩⟩
  | none =>
    rw [hp] at hs
    simp only [] at hs
    cases hm : addTrack st.1.2.1 (setTrackId t (st.1.1 + 1)) with
    | none => rw [hm] at hs; simp at hs
    | some db' =>
      rw [hm] at hs; simp only [Option.bind_some] at hs
      cases hg : mapGet (shardOf db' (st.1.1 + 1)) (st.1.1 + 1) with
      | none => rw [hg] at hs; simp at hs
      | some tr =>
        rw [hg] at hs; simp only [Option.map_some, Option.some.injEq] at hs
        subst hs
        exact ⟨by simp, Nat.le_succ _, Or.inr ⟨rfl, Nat.lt_succ_self _⟩⟩

theorem stepB_ids (trackId : T → Nat) (setTrackId : T → Nat → T) (addTrack : DB → T → Option DB) (mergeExternal : DB → Nat → T → Option DB)
    (shardOf : DB → Nat → List (Nat × T)) (recOf : T → R) (winners : List (Nat × List Nat)) (s : Nat × DB × List R) (ids : List (Nat × Bool)) (t : T) :
    (stepB trackId setTrackId addTrack mergeExternal shardOf recOf winners (s, ids) t).map (·.1) =
    (stepB trackId setTrackId addTrack mergeExternal shardOf recOf winners (s, []) t).map (·.1) := by
  unfold stepB
  cases pickOf winners (trackId t) with
  | some dest =>
    simp only []
    cases mergeExternal s.2.1 dest t with
    | none => rfl
    | some db' => simp only [Option.bind_some]; cases mapGet (shardOf db' dest) dest <;> rfl
  | none =>
    simp only []
    cases addTrack s.2.1 (setTrackId t (s.1 + 1)) with
    | none => rfl
    | some db' => simp only [Option.bind_some]; cases mapGet (shardOf db' (s.1 + 1)) (s.1 + 1) <;> rfl

def genStepB (trackId : T → Nat) (setTrackId : T → Nat → T) (addTrack : DB → T → Option DB) (mergeExternal : DB → Nat → T → Option DB)
    (shardOf : DB → Nat → List (Nat × T)) (recOf : T → R) (winners : List (Nat × List Nat))
    (acc : Option (Nat × DB × List R)) (t : T) : Option (Nat × DB × List R) :=
  match acc with
  | none => none
  | some st => (stepB trackId setTrackId addTrack mergeExternal shardOf recOf winners (st, []) t).map (·.1)

theorem gen_apply_b (trackId : T → Nat) (setTrackId : T → Nat → T) (addTrack : DB → T → Option DB) (mergeExternal : DB → Nat → T → Option DB)
    (shardOf : DB → Nat → List (Nat × T)) (recOf : T → R) (winners : List (Nat × List Nat)) (tracks : List T) (ctr : Nat) (db : DB) :
    batch_sort_apply_winners trackId setTrackId addTrack mergeExternal shardOf recOf winners tracks ctr db =
      List.foldl (genStepB trackId setTrackId addTrack mergeExternal shardOf recOf winners) (some (ctr, db, [])) tracks := by
  unfold batch_sort_apply_winners
  simp only []
  rw [foldl_ext_fn' _ (genStepB trackId setTrackId addTrack mergeExternal shardOf recOf winners) (by
    intro acc t
    cases acc with
    | none => rfl
    | some st =>
      obtain ⟨c, d, r⟩ := st
      simp only [genStepB, stepB, pickOf]
      cases hw : mapGet winners (trackId t) with
      | none =>
        simp only []
        cases addTrack d (setTrackId t (c + 1)) with
        | none => rfl
        | some db' => simp only [Option.bind_some]; cases mapGet (shardOf db' (c + 1)) (c + 1) <;> rfl
      | some l =>
        simp only []
        by_cases hd : l[0]! = trackId t
        · simp only [hd, decide_true, ↓reduceIte]
          cases addTrack d (setTrackId t (c + 1)) with
          | none => rfl
          | some db' => simp only [Option.bind_some]; cases mapGet (shardOf db' (c + 1)) (c + 1) <;> rfl
        · simp only [hd, decide_false, Bool.false_eq_true, ↓reduceIte]
          cases mergeExternal d l[0]! t with
          | none => rfl
          | some db' => simp only [Option.bind_some]; cases mapGet (shardOf db' l[0]!) l[0]! <;> rfl)]
  generalize List.foldl (genStepB trackId setTrackId addTrack mergeExternal shardOf recOf winners) (some (ctr, db, [])) tracks = s
  cases s with
  | none => rfl
  | some r => rfl

/-- **the apply loop of BatchSort's voting thread is the fold of `stepB`** -/
theorem tie_batch_sort_apply_winners (trackId : T → Nat) (setTrackId : T → Nat → T) (addTrack : DB → T → Option DB) (mergeExternal : DB → Nat → T → Option DB)
    (shardOf : DB → Nat → List (Nat × T)) (recOf : T → R) (winners : List (Nat × List Nat)) (tracks : List T) (ctr : Nat) (db : DB) :
    batch_sort_apply_winners trackId setTrackId addTrack mergeExternal shardOf recOf winners tracks ctr db =
      (runG (stepB trackId setTrackId addTrack mergeExternal shardOf recOf winners) tracks ((ctr, db, []), [])).map (·.1) := by
  rw [gen_apply_b]
  exact runG_fold _ _ (fun _ => rfl) (fun _ _ => rfl)
    (stepB_ids trackId setTrackId addTrack mergeExternal shardOf recOf winners) tracks (ctr, db, []) []

/-- **C01 for the BatchSort loop as the source has it** -/
theorem batch_sort_apply_C01 (trackId : T → Nat) (setTrackId : T → Nat → T) (addTrack : DB → T → Option DB) (mergeExternal : DB → Nat → T → Option DB)
    (shardOf : DB → Nat → List (Nat × T)) (recOf : T → R) (winners : List (Nat × List Nat)) (tracks : List T) (ctr : Nat) (db : DB)
    (st' : RunSt DB R)
    (h : runG (stepB trackId setTrackId addTrack mergeExternal shardOf recOf winners) tracks ((ctr, db, []), []) = some st') :
    batch_sort_apply_winners trackId setTrackId addTrack mergeExternal shardOf recOf winners tracks ctr db = some st'.1 ∧
    st'.1.2.2.length = tracks.length ∧ st'.2.length = tracks.length ∧
    ((st'.2.filter (·.2)).map (·.1)).Nodup ∧ (∀ p ∈ st'.2, p.2 = true → ctr < p.1 ∧ p.1 ≤ st'.1.1) := by
  have hok := stepB_ok trackId setTrackId addTrack mergeExternal shardOf recOf winners
  refine ⟨by rw [tie_batch_sort_apply_winners, h]; rfl, ?_, ?_, ?_, ?_⟩
  · exact (run_one_record_per_detection _ hok tracks ctr db st' h).1
  · exact (run_one_record_per_detection _ hok tracks ctr db st' h).2.1
  · exact run_fresh_ids_nodup _ hok tracks ctr db st' h
  · exact run_fresh_ids_never_issued _ hok tracks ctr db st' h

def stepBV {V : Type} [Inhabited V] (trackId : T → Nat) (setTrackId : T → Nat → T) (addVotingObs : T → Option V → Option T)
    (addTrack : DB → T → Option DB) (mergeExternal : DB → Nat → T → Option DB)
    (shardOf : DB → Nat → List (Nat × T)) (recOf : T → R) (winners : List (Nat × List (Nat × V)))
    (st : RunSt DB R) (t : T) : Option (RunSt DB R) :=
  match pickOfV winners (trackId t) with
  | some (dest, vt) =>
    (addVotingObs t (some vt)).bind fun t' =>
      (mergeExternal st.1.2.1 dest t').bind fun db' =>
        (mapGet (shardOf db' dest) dest).map fun tr => ((st.1.1 + 1, db', st.1.2.2 ++ [recOf tr]), st.2 ++ [(dest, false)])
  | none =>
    (addTrack st.1.2.1 (setTrackId t (st.1.1 + 1))).bind fun db' =>
      (mapGet (shardOf db' (st.1.1 + 1)) (st.1.1 + 1)).map fun tr =>
        ((st.1.1 + 1, db', st.1.2.2 ++ [recOf tr]), st.2 ++ [(st.1.1 + 1, true)])

theorem stepBV_ok {V : Type} [Inhabited V] (trackId : T → Nat) (setTrackId : T → Nat → T) (addVotingObs : T → Option V → Option T)
    (addTrack : DB → T → Option DB) (mergeExternal : DB → Nat → T → Option DB)
    (shardOf : DB → Nat → List (Nat × T)) (recOf : T → R) (winners : List (Nat × List (Nat × V))) :
    StepOK (stepBV trackId setTrackId addVotingObs addTrack mergeExternal shardOf recOf winners) := by
  intro st t st' hs
  unfold stepBV at hs
  cases hp : pickOfV winners (trackId t) with
  | some dv =>
    obtain ⟨dest, vt⟩ := dv
    rw [hp] at hs
    simp only [] at hs
    cases ha : addVotingObs t (some vt) with
    | none => rw [ha] at hs; simp at hs
    | some t' =>
      rw [ha] at hs; simp only [Option.bind_some] at hs
      cases hm : mergeExternal st.1.2.1 dest t' with
      | none => rw [hm] at hs; simp at hs
      | some db' =>
        rw [hm] at hs; simp only [Option.bind_some] at hs
        cases hg : mapGet (shardOf db' dest) dest with
        | none => rw [hg] at hs; simp at hs
        | some tr =>
          rw [hg] at hs; simp only [Option.map_some, Option.some.injEq] at hs
          subst hs
          exact ⟨by simp, Nat.le_succ _, Or.inl ⟨dest, rfl⟩⟩
  | none =>
    rw [hp] at hs
    simp only [] at hs
    cases hm : addTrack st.1.2.1 (setTrackId t (st.1.1 + 1)) with
    | none => rw [hm] at hs; simp at hs
    | some db' =>
      rw [hm] at hs; simp only [Option.bind_some] at hs
      cases hg : mapGet (shardOf db' (st.1.1 + 1)) (st.1.1 + 1) with
      | none => rw [hg] at hs; simp at hs
      | some tr =>
        rw [hg] at hs; simp only [Option.map_some, Option.some.injEq] at hs
        subst hs
        exact ⟨by simp, Nat.le_succ _, Or.inr ⟨rfl, Nat.lt_succ_self _⟩⟩

theorem stepBV_ids {V : Type} [Inhabited V] (trackId : T → Nat) (setTrackId : T → Nat → T) (addVotingObs : T → Option V → Option T)
    (addTrack : DB → T → Option DB) (mergeExternal : DB → Nat → T → Option DB)
    (shardOf : DB → Nat → List (Nat × T)) (recOf : T → R) (winners : List (Nat × List (Nat × V))) (s : Nat × DB × List R) (ids : List (Nat × Bool)) (t : T) :
    (stepBV trackId setTrackId addVotingObs addTrack mergeExternal shardOf recOf winners (s, ids) t).map (·.1) =
    (stepBV trackId setTrackId addVotingObs addTrack mergeExternal shardOf recOf winners (s, []) t).map (·.1) := by
  unfold stepBV
  cases pickOfV winners (trackId t) with
  | some dv =>
    obtain ⟨dest, vt⟩ := dv
    simp only []
    cases addVotingObs t (some vt) with
    | none => rfl
    | some t' =>
      simp only [Option.bind_some]
      cases mergeExternal s.2.1 dest t' with
      | none => rfl
      | some db' => simp only [Option.bind_some]; cases mapGet (shardOf db' dest) dest <;> rfl
  | none =>
    simp only []
    cases addTrack s.2.1 (setTrackId t (s.1 + 1)) with
    | none => rfl
    | some db' => simp only [Option.bind_some]; cases mapGet (shardOf db' (s.1 + 1)) (s.1 + 1) <;> rfl

def genStepBV {V : Type} [Inhabited V] (trackId : T → Nat) (setTrackId : T → Nat → T) (addVotingObs : T → Option V → Option T)
    (addTrack : DB → T → Option DB) (mergeExternal : DB → Nat → T → Option DB)
    (shardOf : DB → Nat → List (Nat × T)) (recOf : T → R) (winners : List (Nat × List (Nat × V)))
    (acc : Option (Nat × DB × List R)) (t : T) : Option (Nat × DB × List R) :=
  match acc with
  | none => none
  | some st => (stepBV trackId setTrackId addVotingObs addTrack mergeExternal shardOf recOf winners (st, []) t).map (·.1)

theorem gen_apply_bv {V : Type} [Inhabited V] (trackId : T → Nat) (setTrackId : T → Nat → T) (cloneT : T → T) (addVotingObs : T → Option V → Option T)
    (addTrack : DB → T → Option DB) (mergeExternal : DB → Nat → T → Option DB)
    (shardOf : DB → Nat → List (Nat × T)) (recOf : T → R) (winners : List (Nat × List (Nat × V))) (tracks : List T) (ctr : Nat) (db : DB) :
    batch_visual_apply_winners trackId setTrackId cloneT addVotingObs addTrack mergeExternal shardOf recOf winners tracks ctr db =
      List.foldl (genStepBV trackId setTrackId addVotingObs addTrack mergeExternal shardOf recOf winners) (some (ctr, db, [])) tracks := by
  unfold batch_visual_apply_winners
  simp only []
  rw [foldl_ext_fn' _ (genStepBV trackId setTrackId addVotingObs addTrack mergeExternal shardOf recOf winners) (by
    intro acc t
    cases acc with
    | none => rfl
    | some st =>
      obtain ⟨c, d, r⟩ := st
      simp only [genStepBV, stepBV, pickOfV]
      cases hw : mapGet winners (trackId t) with
      | none =>
        simp only []
        cases addTrack d (setTrackId t (c + 1)) with
        | none => rfl
        | some db' => simp only [Option.bind_some]; cases mapGet (shardOf db' (c + 1)) (c + 1) <;> rfl
      | some l =>
        simp only []
        by_cases hd : l[0]!.1 = trackId t
        · simp only [hd, decide_true, ↓reduceIte]
          cases addTrack d (setTrackId t (c + 1)) with
          | none => rfl
          | some db' => simp only [Option.bind_some]; cases mapGet (shardOf db' (c + 1)) (c + 1) <;> rfl
        · simp only [hd, decide_false, Bool.false_eq_true, ↓reduceIte]
          cases addVotingObs t (some l[0]!.2) with
          | none => rfl
          | some t' =>
            simp only [Option.bind_some]
            cases mergeExternal d l[0]!.1 t' with
            | none => rfl
            | some db' => simp only [Option.bind_some]; cases mapGet (shardOf db' l[0]!.1) l[0]!.1 <;> rfl)]
  generalize List.foldl (genStepBV trackId setTrackId addVotingObs addTrack mergeExternal shardOf recOf winners) (some (ctr, db, [])) tracks = s
  cases s with
  | none => rfl
  | some r => rfl

/-- **the apply loop of BatchVisualSort's voting thread is the fold of `stepBV`** -/
theorem tie_batch_visual_apply_winners {V : Type} [Inhabited V] (trackId : T → Nat) (setTrackId : T → Nat → T) (cloneT : T → T) (addVotingObs : T → Option V → Option T)
    (addTrack : DB → T → Option DB) (mergeExternal : DB → Nat → T → Option DB)
    (shardOf : DB → Nat → List (Nat × T)) (recOf : T → R) (winners : List (Nat × List (Nat × V))) (tracks : List T) (ctr : Nat) (db : DB) :
    batch_visual_apply_winners trackId setTrackId cloneT addVotingObs addTrack mergeExternal shardOf recOf winners tracks ctr db =
      (runG (stepBV trackId setTrackId addVotingObs addTrack mergeExternal shardOf recOf winners) tracks ((ctr, db, []), [])).map (·.1) := by
  rw [gen_apply_bv]
  exact runG_fold _ _ (fun _ => rfl) (fun _ _ => rfl)
    (stepBV_ids trackId setTrackId addVotingObs addTrack mergeExternal shardOf recOf winners) tracks (ctr, db, []) []

/-- **C01 for the BatchVisualSort loop as the source has it** -/
theorem batch_visual_apply_C01 {V : Type} [Inhabited V] (trackId : T → Nat) (setTrackId : T → Nat → T) (cloneT : T → T) (addVotingObs : T → Option V → Option T)
    (addTrack : DB → T → Option DB) (mergeExternal : DB → Nat → T → Option DB)
    (shardOf : DB → Nat → List (Nat × T)) (recOf : T → R) (winners : List (Nat × List (Nat × V))) (tracks : List T) (ctr : Nat) (db : DB)
    (st' : RunSt DB R)
    (h : runG (stepBV trackId setTrackId addVotingObs addTrack mergeExternal shardOf recOf winners) tracks ((ctr, db, []), []) = some st') :
    batch_visual_apply_winners trackId setTrackId cloneT addVotingObs addTrack mergeExternal shardOf recOf winners tracks ctr db = some st'.1 ∧
    st'.1.2.2.length = tracks.length ∧ st'.2.length = tracks.length ∧
    ((st'.2.filter (·.2)).map (·.1)).Nodup ∧ (∀ p ∈ st'.2, p.2 = true → ctr < p.1 ∧ p.1 ≤ st'.1.1) := by
  have hok := stepBV_ok trackId setTrackId addVotingObs addTrack mergeExternal shardOf recOf winners
  refine ⟨by rw [tie_batch_visual_apply_winners, h]; rfl, ?_, ?_, ?_, ?_⟩
  · exact (run_one_record_per_detection _ hok tracks ctr db st' h).1
  · exact (run_one_record_per_detection _ hok tracks ctr db st' h).2.1
  · exact run_fresh_ids_nodup _ hok tracks ctr db st' h
  · exact run_fresh_ids_never_issued _ hok tracks ctr db st' h

/-- `gen_track_id`: the counter is incremented and its new value returned -/
theorem tie_sort_gen_track_id (c : Nat) : sort_gen_track_id c = (c + 1, c + 1) := rfl

/-- non-vacuity: two detections, the first continues track 7 (its winner), the second starts track `ctr+1 = 4`;
the store is a plain association list -/
example :
    sort_apply_winners (T := Nat × Nat) (DB := List (Nat × (Nat × Nat))) (R := Nat) (fun t => t.1) (fun t i => (i, t.2))
      (fun db t => some (mapSet db t.1 t)) (fun db dest t => (mapGet db dest).map (fun d => mapSet db dest (dest, d.2 + t.2)))
      (fun db _ => db) (fun t => t.1 * 1000 + t.2) [(100, [7]), (101, [101])] [(100, 1), (101, 2)] 3 [(7, (7, 50))]
      = some (4, [(7, (7, 51)), (4, (4, 2))], [7051, 4002]) := by decide

end SimVerif.Tie
