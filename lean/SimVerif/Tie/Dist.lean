import SimVerif.Gen.KDist
import SimVerif.Tie.Radius
import SimVerif.Model.Geom
import Mathlib.Tactic.Ring
import Mathlib.Tactic.Linarith
import Mathlib.Algebra.Order.Field.Basic
/-!
# Tie (DESIGN.md 14.8): `dist_in_2r` of `/repo/src/utils/bbox.rs` as it is now (`SimVerif.Gen.K.dist_in_2r`,
regenerated on every run) = the model's `dist2rSq` (C20).
-/
set_option linter.unusedSectionVars false
set_option linter.unusedVariables false
namespace SimVerif.Tie
open SimVerif.Geom
variable {α : Type} [Field α] [LinearOrder α]

/-- `dist_in_2r`: `√D / √((r₁+r₂)² + EPS)` on the model's radii -/
theorem tie_dist_in_2r (sqrt : α → α) (eps : α) (l r : UBox α) :
    Gen.K.dist_in_2r sqrt eps l r =
      sqrt ((l.xc - r.xc) * (l.xc - r.xc) + (l.yc - r.yc) * (l.yc - r.yc)) /
        sqrt ((sqrt (radiusSq l) + sqrt (radiusSq r)) * (sqrt (radiusSq l) + sqrt (radiusSq r)) + eps) := by
  unfold Gen.K.dist_in_2r
  simp only [tie_get_radius]

/-- the square of `dist_in_2r` is the model's `dist2rSq` for every `sqrt` that squares back on
non-negative arguments (`√A·√B` is the `sqrtAB` the model is given) -/
theorem tie_dist_in_2r_sq [IsStrictOrderedRing α] (sqrt : α → α)
    (hs : ∀ x, 0 ≤ x → sqrt x * sqrt x = x) (hs0 : ∀ x, 0 ≤ sqrt x) (eps : α) (heps : 0 < eps) (l r : UBox α)
    (hl : 0 ≤ radiusSq l) (hr : 0 ≤ radiusSq r) :
    Gen.K.dist_in_2r sqrt eps l r * Gen.K.dist_in_2r sqrt eps l r =
      dist2rSq eps (sqrt (radiusSq l) * sqrt (radiusSq r)) l r := by
  rw [tie_dist_in_2r]
  unfold dist2rSq
  simp only [two_eq]
  set D := (l.xc - r.xc) * (l.xc - r.xc) + (l.yc - r.yc) * (l.yc - r.yc) with hD
  have hDn : 0 ≤ D := by
    have h1 := mul_self_nonneg (l.xc - r.xc)
    have h2 := mul_self_nonneg (l.yc - r.yc)
    linarith
  set a := sqrt (radiusSq l)
  set b := sqrt (radiusSq r)
  have ha : a * a = radiusSq l := hs _ hl
  have hb : b * b = radiusSq r := hs _ hr
  have hQ : 0 ≤ (a + b) * (a + b) + eps := by
    have := mul_self_nonneg (a + b); linarith
  have hden : (a + b) * (a + b) + eps = radiusSq l + radiusSq r + 2 * (a * b) + eps := by
    rw [← ha, ← hb]; ring
  rw [div_mul_div_comm, hs D hDn, hs _ hQ, hden]

end SimVerif.Tie
