import SimVerif.Gen.LStoreCmd
import SimVerif.Model.Store
import SimVerif.Props.C11
/-!
# Tie (DESIGN.md 14.11): the `Distances` command of the track store's worker loop as the Rust source has it now
(`SimVerif.Gen.L.store_distances_cmd`, regenerated on every run from the `Commands::Distances` arm of `handle_store_ops`: the
`flat_map` closure over the shard with its early `return None` for the candidate itself, the `only_baked` branch, the error
classification through `downcast_ref`, and the loop that splits the answers into the ok and the error stream)
= `distPair` / the two components of `queryOne` of `SimVerif/Model/Store.lean`, the per-shard answer the query theorems of C10
(and the tracker models) are built on.
-/
set_option linter.unusedVariables false
namespace SimVerif.Tie
open SimVerif.Gen.L SimVerif.Track SimVerif.Store

variable {TA M OA U Q E : Type}

def okPart (r : Except (Err E) (List DistOk)) : List DistOk := match r with | .ok d => d | .error _ => []
def isErrR (r : Except (Err E) (List DistOk)) : Bool := match r with | .ok _ => false | .error _ => true

/-- the loop that splits the answers of a shard into the two streams -/
theorem split_fold (f : List DistOk × List (Except (Err E) (List DistOk)) → Except (Err E) (List DistOk) → List DistOk × List (Except (Err E) (List DistOk)))
    (hf : ∀ st r, f st r = match r with | .ok d => (st.1 ++ d, st.2) | .error e => (st.1, st.2 ++ [.error e]))
    (rs : List (Except (Err E) (List DistOk))) (ds : List DistOk) (es : List (Except (Err E) (List DistOk))) :
    List.foldl f (ds, es) rs = (ds ++ rs.flatMap okPart, es ++ rs.filter isErrR) := by
  induction rs generalizing ds es with
  | nil => simp
  | cons r rest ih =>
    rw [List.foldl_cons, hf]
    cases r with
    | ok d => simp only [ih, List.flatMap_cons, okPart, List.filter_cons, isErrR, List.append_assoc]; simp
    | error e => simp only [ih, List.flatMap_cons, okPart, List.filter_cons, isErrR, List.append_assoc]; simp

/-- **the `Distances` command of the source answers, for every stored track of the shard, what the model's `distPair` answers**
(nothing for the candidate itself, nothing for an incompatible track, nothing for a track that is not `Ready` when only baked
tracks are asked for; otherwise the post-processed pair list or the error), and splits the answers into the ok stream
(concatenated) and the error stream -/
theorem tie_store_distances_cmd (cb : Cb TA M OA U Q E) (shard : List (Nat × Track TA M OA)) (cand : Track TA M OA) (cls : Nat) (ob : Bool) :
    store_distances_cmd (fun (t : Track TA M OA) => t.id) (fun a b c => distances cb a b c) (fun t => status cb t)
        (fun t d => cb.postprocess t.metric d) shard cand cls ob
      = (let rs := (shard.map (·.2)).filterMap (fun o => distPair cb cand o cls ob)
         (rs.flatMap okPart, rs.filter isErrR)) := by
  unfold store_distances_cmd
  simp only []
  rw [split_fold _ (by intro st r; cases r <;> rfl)]
  simp only [List.nil_append, List.filterMap_map]
  congr 1 <;> congr 1 <;> congr 1 <;>
  ( funext p
    obtain ⟨k, other⟩ := p
    simp only [Function.comp, distPair]
    by_cases hid : cand.id = other.id
    · simp [hid]
    · have hb : (cand.id == other.id) = false := by simpa using hid
      simp only [hid, decide_false, Bool.false_eq_true, if_false, hb]
      cases ob with
      | false =>
        simp only [Bool.not_false, if_true]
        cases hd : distances cb cand other cls with
        | ok d => rfl
        | error e => cases e <;> rfl
      | true =>
        simp only [Bool.not_true, Bool.false_eq_true, if_false]
        cases hs : status cb other with
        | error e => rfl
        | ok st =>
          cases st with
          | ready =>
            cases hd : distances cb cand other cls with
            | ok d => rfl
            | error e => cases e <;> rfl
          | pending => rfl
          | wasted => rfl )

/-- hence the two answers of the command are the two components of the model's `queryOne` over the shard -/
theorem tie_store_distances_queryOne (cb : Cb TA M OA U Q E) (shard : List (Nat × Track TA M OA)) (cand : Track TA M OA) (cls : Nat) (ob : Bool) :
    let r := store_distances_cmd (fun (t : Track TA M OA) => t.id) (fun a b c => distances cb a b c) (fun t => status cb t)
        (fun t d => cb.postprocess t.metric d) shard cand cls ob
    (r.1, r.2.length) = queryOne cb (shard.map (·.2)) cand cls ob := by
  intro r
  show ((store_distances_cmd _ _ _ _ shard cand cls ob).1, (store_distances_cmd _ _ _ _ shard cand cls ob).2.length) = _
  rw [tie_store_distances_cmd]
  unfold queryOne
  rfl

/-! ### the `FindBaked` and `Lookup` commands -/

/-- **`FindBaked`** (the per-shard half of `find_usable`): every track of the shard whose status is not `Pending`, with its status
or the error of the status callback -/
theorem tie_store_findbaked_cmd (cb : Cb TA M OA U Q E) (shard : List (Nat × Track TA M OA)) :
    store_findbaked_cmd (fun t => status cb t) shard =
      shard.filterMap (fun p => match status cb p.2 with
        | .ok .pending => none
        | r => some (p.1, r)) := by
  unfold store_findbaked_cmd
  refine congrArg (fun f => List.filterMap f shard) ?_
  funext p
  obtain ⟨k, t⟩ := p
  simp only []
  cases h : status cb t with
  | error e => rfl
  | ok st => cases st <;> rfl

/-- **`Lookup`**: the tracks of the shard satisfying the query, each with its id and status -/
theorem tie_store_lookup_cmd (cb : Cb TA M OA U Q E) (shard : List (Nat × Track TA M OA)) (q : Q) :
    store_lookup_cmd (fun (t : Track TA M OA) => t.id) (fun t q => lookup cb t q) (fun t => status cb t) shard q =
      ((shard.map (·.2)).filter (fun t => lookup cb t q)).map (fun t => (t.id, status cb t)) := rfl

/-! ### the `Merge` command -/

theorem mapSet_self {β : Type} (m : List (Nat × β)) (k : Nat) (v : β) (h : mapGet m k = some v) : mapSet m k v = m := by
  induction m with
  | nil => simp [mapGet] at h
  | cons p rest ih =>
    unfold mapSet
    by_cases hp : (p.1 == k) = true
    · have hk : p.1 = k := by simpa using hp
      have hv : p.2 = v := by
        simp only [mapGet, List.find?_cons, hp, Option.map_some, Option.some.injEq] at h
        exact h
      simp only [hp, if_true]
      obtain ⟨p1, p2⟩ := p
      simp only at hk hv
      subst hk; subst hv; rfl
    · have hp' : (p.1 == k) = false := Bool.eq_false_iff.mpr hp
      simp only [hp', Bool.false_eq_true, if_false]
      have : mapGet rest k = some v := by
        simpa [mapGet, List.find?_cons, hp'] using h
      rw [ih this]

/-- **the `Merge` command of the source** (executed by the destination's worker on its shard): a missing destination and a merge
of a track into itself are reported as such and change nothing; otherwise the destination is merged with the requested classes
(all classes of the source when none are given) and written back — and since `Track::merge` is atomic (`C11_merge_atomic`), a
failing merge leaves the shard exactly as it was -/
theorem tie_store_merge_cmd (cb : Cb TA M OA U Q E) (shard : List (Nat × Track TA M OA)) (dest : Nat) (src : Track TA M OA)
    (classes : List Nat) (flag : Bool) :
    store_merge_cmd (fun (t : Track TA M OA) => t.id) (fun t => t.obs.map (·.1))
        (fun d s c f => ((merge cb d s c f).1, (merge cb d s c f).2.1)) shard dest src classes flag =
      (match mapGet shard dest with
       | none => (.error (.notFound dest), shard)
       | some d =>
         if dest = src.id then (.error (.same dest), shard) else
         match (merge cb d src (mergeClasses (some classes) src) flag).1 with
         | .ok () => (.ok (), mapSet shard dest (merge cb d src (mergeClasses (some classes) src) flag).2.1)
         | .error e => (.error e, shard)) := by
  unfold store_merge_cmd
  simp only []
  cases hg : mapGet shard dest with
  | none => rfl
  | some d =>
    simp only []
    by_cases hid : dest = src.id
    · simp only [hid, decide_true, if_true]
    · simp only [hid, decide_false, Bool.false_eq_true, if_false, mergeClasses]
      by_cases he : classes.isEmpty = true
      · simp only [he, Bool.not_true, Bool.false_eq_true, if_false, if_true]
        cases hm : (merge cb d src (List.map (fun x => x.1) src.obs) flag).1 with
        | ok u => cases u; rfl
        | error e =>
          have := ((C11.C11_merge_atomic cb d src (List.map (fun x => x.1) src.obs) flag).1 e hm).1
          simp only [this, mapSet_self shard dest d hg]
      · have he' : classes.isEmpty = false := Bool.eq_false_iff.mpr he
        simp only [he', Bool.not_false, if_true, Bool.false_eq_true, if_false]
        cases hm : (merge cb d src classes flag).1 with
        | ok u => cases u; rfl
        | error e =>
          have := ((C11.C11_merge_atomic cb d src classes flag).1 e hm).1
          simp only [this, mapSet_self shard dest d hg]

end SimVerif.Tie
