import SimVerif.Gen.KFeat
import SimVerif.Model.Feature
import Mathlib.Algebra.Order.Field.Basic
import Mathlib.Tactic.Ring
/-!
# Tie (DESIGN.md 14.8): `euclidean` and `cosine` of `/repo/src/distance.rs` as the Rust source has them now
(`SimVerif.Gen.K.euclidean`, `.cosine`, regenerated on every run: index loops over the SIMD blocks of the common
prefix with mutable accumulators, `sub_assign` / `mul_assign` / `reduce_add`, and the `iter().take(len).fold(..)`
pipelines of the norms) = the block-wise sums `sqEuclid`, `dot`, `sqNorm` of `SimVerif/Model/Feature.lean`
that the C16 theorems are about. `sqrt` is an arbitrary function.
-/
set_option linter.unusedSectionVars false
namespace SimVerif.Tie
open SimVerif.Feature List
variable {α : Type} [Field α] [LinearOrder α]

theorem foldl_add_eq {β : Type} (h : β → α) (l : List β) (a : α) :
    foldl (fun acc x => acc + h x) a l = a + lsum (l.map h) := by
  induction l generalizing a with
  | nil => simp [lsum]
  | cons x l ih => simp only [foldl_cons, ih, map_cons, lsum, foldr_cons]; ring

/-- an index loop over the common prefix of two lists, accumulating `g l₁[i] l₂[i]`, is the sum over the zipped lists -/
theorem foldl_index_zip {β γ : Type} [Inhabited β] [Inhabited γ] (g : β → γ → α) (l1 : List β) (l2 : List γ) (a : α) :
    foldl (fun acc i => acc + g l1[i]! l2[i]!) a (range' 0 (Nat.min l1.length l2.length - 0)) =
      a + lsum ((l1.zip l2).map (fun p => g p.1 p.2)) := by
  simp only [Nat.sub_zero]
  induction l1 generalizing l2 a with
  | nil => simp [lsum]
  | cons x l1 ih =>
    cases l2 with
    | nil => simp [lsum]
    | cons y l2 =>
      have hmin : Nat.min (x :: l1).length (y :: l2).length = Nat.min l1.length l2.length + 1 := by
        simp only [length_cons]; exact Nat.succ_min_succ _ _
      have hshift : range' (0 + 1) (Nat.min l1.length l2.length) = (range' 0 (Nat.min l1.length l2.length)).map (1 + ·) := by
        rw [map_add_range']
      rw [hmin, range'_succ, foldl_cons, hshift, foldl_map]
      have hstep : (fun (acc : α) (i : Nat) => acc + g (x :: l1)[1 + i]! (y :: l2)[1 + i]!) =
          (fun (acc : α) (i : Nat) => acc + g l1[i]! l2[i]!) := by
        funext acc i
        have e1 : (x :: l1)[1 + i]! = l1[i]! := by rw [Nat.add_comm]; rfl
        have e2 : (y :: l2)[1 + i]! = l2[i]! := by rw [Nat.add_comm]; rfl
        rw [e1, e2]
      rw [hstep, ih]
      simp only [zip_cons_cons, map_cons, lsum, foldr_cons]
      have h0 : (x :: l1)[0]! = x := rfl
      have h0' : (y :: l2)[0]! = y := rfl
      rw [h0, h0']
      ring

theorem blockSq_eq (b1 b2 : List α) : lsum (blockMul (blockSub b1 b2) (blockSub b1 b2)) = blockSq b1 b2 := by
  unfold blockSq blockMul blockSub
  congr 1
  induction b1 generalizing b2 with
  | nil => simp
  | cons x b1 ih => cases b2 with
    | nil => simp
    | cons y b2 => simp only [zipWith_cons_cons, zip_cons_cons, map_cons, ih]

theorem blockDot_eq (b1 b2 : List α) : lsum (blockMul b1 b2) = blockDot b1 b2 := by
  unfold blockDot blockMul
  congr 1
  induction b1 generalizing b2 with
  | nil => simp
  | cons x b1 ih => cases b2 with
    | nil => simp
    | cons y b2 => simp [ih]

/-- **`euclidean` = √ of the block-wise squared distance over the common prefix** -/
theorem tie_euclidean (sqrt : α → α) (f1 f2 : List (List α)) :
    Gen.K.euclidean sqrt f1 f2 = sqrt (sqEuclid f1 f2) := by
  unfold Gen.K.euclidean sqEuclid
  simp only [blockSq_eq]
  rw [foldl_index_zip (fun b1 b2 => blockSq b1 b2) f1 f2 0, zero_add]

/-- **`cosine` = dot product over the common prefix divided by √ of the product of the two squared norms over that prefix** -/
theorem tie_cosine (sqrt : α → α) (f1 f2 : List (List α)) :
    Gen.K.cosine sqrt f1 f2 =
      dot f1 f2 / sqrt (sqNorm f1 (Nat.min f1.length f2.length) * sqNorm f2 (Nat.min f1.length f2.length)) := by
  unfold Gen.K.cosine dot sqNorm
  simp only [blockDot_eq]
  rw [foldl_index_zip (fun b1 b2 => blockDot b1 b2) f1 f2 0, zero_add, foldl_add_eq, foldl_add_eq, zero_add, zero_add]

end SimVerif.Tie
