import SimVerif.Gen.KFeat
import SimVerif.Model.Feature
import Mathlib.Algebra.Order.Field.Basic
import Mathlib.Tactic.Ring
/-!
# Tie (DESIGN.md 14.8): `euclidean` and `cosine` of `/repo/src/distance.rs` as the Rust source has them now
(`SimVerif.Gen.K.euclidean`, `.cosine`, regenerated on every run: index loops over the SIMD blocks of the common
prefix with mutable accumulators, `sub_assign` / `mul_assign` / `reduce_add`, and the `iter().take(len).fold(..)`
pipelines of the norms) = the block-wise sums `sqEuclid`, `dot`, `sqNorm` of `SimVerif/Model/Feature.lean`
that the C16 theorems are about. `sqrt` is an arbitrary function.
-/
set_option linter.unusedSectionVars false
namespace SimVerif.Tie
open SimVerif.Feature List
variable {α : Type} [Field α] [LinearOrder α]

theorem foldl_add_eq {β : Type} (h : β → α) (l : List β) (a : α) :
    foldl (fun acc x => acc + h x) a l = a + lsum (l.map h) := by
  induction l generalizing a with
  | nil => simp [lsum]
  | cons x l ih => simp only [foldl_cons, ih, map_cons, lsum, foldr_cons]; ring

/-- an index loop over the common prefix of two lists, accumulating `g l₁[i] l₂[i]`, is the sum over the zipped lists -/
theorem foldl_index_zip {β γ : Type} [Inhabited β] [Inhabited γ] (g : β → γ → α) (l1 : List β) (l2 : List γ) (a : α) :
    foldl (fun acc i => acc + g l1[i]! l2[i]!) a (range' 0 (Nat.min l1.length l2.length - 0)) =
      a + lsum ((l1.zip l2).map (fun p => g p.1 p.2)) := by
  simp only [Nat.sub_zero]
  induction l1 generalizing l2 a with
  | nil => simp [lsum]
  | cons x l1 ih =>
    cases l2 with
    | nil => simp [lsum]
    | cons y l2 =>
      have hmin : Nat.min (x :: l1).length (y :: l2).length = Nat.min l1.length l2.length + 1 := by
        simp only [length_cons]; exact Nat.succ_min_succ _ _
      have hshift : range' (0 + 1) (Nat.min l1.length l2.length) = (range' 0 (Nat.min l1.length l2.length)).map (1 + ·) := by
        rw [map_add_range']
      rw [hmin, range'_succ, foldl_cons, hshift, foldl_map]
      have hstep : (fun (acc : α) (i : Nat) => acc + g (x :: l1)[1 + i]! (y :: l2)[1 + i]!) =
          (fun (acc : α) (i : Nat) => acc + g l1[i]! l2[i]!) := by
        funext acc i
        have e1 : (x :: l1)[1 + i]! = l1[i]! := by rw [Nat.add_comm]; rfl
        have e2 : (y :: l2)[1 + i]! = l2[i]! := by rw [Nat.add_comm]; rfl
        rw [e1, e2]
      rw [hstep, ih]
      simp only [zip_cons_cons, map_cons, lsum, foldr_cons]
      have h0 : (x :: l1)[0]! = x := rfl
      have h0' : (y :: l2)[0]! = y := rfl
      rw [h0, h0']
      ring

theorem blockSq_eq (b1 b2 : List α) : lsum (blockMul (blockSub b1 b2) (blockSub b1 b2)) = blockSq b1 b2 := by
  unfold blockSq blockMul blockSub
  congr 1
  induction b1 generalizing b2 with
  | nil => simp
  | cons x b1 ih => cases b2 with
    | nil => simp
    | cons y b2 => simp only [zipWith_cons_cons, zip_cons_cons, map_cons, ih]

theorem blockDot_eq (b1 b2 : List α) : lsum (blockMul b1 b2) = blockDot b1 b2 := by
  unfold blockDot blockMul
  congr 1
  induction b1 generalizing b2 with
  | nil => simp
  | cons x b1 ih => cases b2 with
    | nil => simp
    | cons y b2 => simp [ih]

/-- **`euclidean` = √ of the block-wise squared distance over the common prefix** -/
theorem tie_euclidean (sqrt : α → α) (f1 f2 : List (List α)) :
    Gen.K.euclidean sqrt f1 f2 = sqrt (sqEuclid f1 f2) := by
  unfold Gen.K.euclidean sqEuclid
  simp only [blockSq_eq]
  rw [foldl_index_zip (fun b1 b2 => blockSq b1 b2) f1 f2 0, zero_add]

/-- **`cosine` = dot product over the common prefix divided by √ of the product of the two squared norms over that prefix** -/
theorem tie_cosine (sqrt : α → α) (f1 f2 : List (List α)) :
    Gen.K.cosine sqrt f1 f2 =
      dot f1 f2 / sqrt (sqNorm f1 (Nat.min f1.length f2.length) * sqNorm f2 (Nat.min f1.length f2.length)) := by
  unfold Gen.K.cosine dot sqNorm
  simp only [blockDot_eq]
  rw [foldl_index_zip (fun b1 b2 => blockDot b1 b2) f1 f2 0, zero_add, foldl_add_eq, foldl_add_eq, zero_add, zero_add]

end SimVerif.Tie

namespace SimVerif.Tie
open SimVerif.Feature List
variable {α : Type} [Field α] [LinearOrder α]

/-- the body of the packing loop, as generated, is the model's `packStep` -/
theorem from_vec_loop (v : List α) (k p : Nat) (a : List α) (f : List (List α)) :
    foldl (fun (st : Nat × List α × List (List α)) (ic : α × Nat) =>
        (let part := ic.2 % lanes
         let acc := if decide (part = 0) = true then List.replicate lanes (0 : α) else st.2.1
         let acc := List.set acc part ic.1
         let fp := if decide (part = lanes - 1) = true then (st.2.2 ++ [acc], lanes) else (st.2.2, part)
         (fp.2, acc, fp.1))) (p, a, f) (v.zipIdx k) =
      ((packLoop v k { feature := f, acc := a, part := p }).part,
       (packLoop v k { feature := f, acc := a, part := p }).acc,
       (packLoop v k { feature := f, acc := a, part := p }).feature) := by
  induction v generalizing k p a f with
  | nil => simp [packLoop]
  | cons x v ih =>
    simp only [zipIdx_cons, foldl_cons, packLoop]
    have hstep : packStep { feature := f, acc := a, part := p } k x =
        { feature := (if k % lanes = lanes - 1 then f ++ [List.set (if k % lanes = 0 then zeros else a) (k % lanes) x] else f),
          acc := List.set (if k % lanes = 0 then zeros else a) (k % lanes) x,
          part := (if k % lanes = lanes - 1 then lanes else k % lanes) } := by
      unfold packStep
      by_cases h : k % lanes = lanes - 1 <;> simp [h]
    rw [hstep]
    have := ih (k + 1) (if k % lanes = lanes - 1 then lanes else k % lanes)
      (List.set (if k % lanes = 0 then zeros else a) (k % lanes) x)
      (if k % lanes = lanes - 1 then f ++ [List.set (if k % lanes = 0 then zeros else a) (k % lanes) x] else f)
    rw [← this]
    congr 1
    by_cases h : k % lanes = lanes - 1
    · have h0 : ¬ lanes - 1 = 0 := by decide
      simp [h, h0]
    · by_cases h0 : k % lanes = 0
      · have h' : ¬ (0 = lanes - 1) := by decide
        simp [h0, h', zeros]
      · simp [h, h0]

/-- **`Feature::from_vec(&Vec<f32>)` = `pack`** (blocks of `FEATURE_LANES_SIZE` lanes, the last one zero padded) -/
theorem tie_from_vec (v : List α) : Gen.K.from_vec lanes v = pack v := by
  unfold Gen.K.from_vec pack
  have h := from_vec_loop v 0 0 (List.replicate lanes (0 : α)) []
  simp only [zeros]
  change (let r := foldl (fun (st : Nat × List α × List (List α)) (ic : α × Nat) =>
        (let part := ic.2 % lanes
         let acc := if decide (part = 0) = true then List.replicate lanes (0 : α) else st.2.1
         let acc := List.set acc part ic.1
         let fp := if decide (part = lanes - 1) = true then (st.2.2 ++ [acc], lanes) else (st.2.2, part)
         (fp.2, acc, fp.1))) (0, List.replicate lanes (0 : α), []) (v.zipIdx 0);
      if decide (r.1 < lanes) = true then r.2.2 ++ [r.2.1] else r.2.2) = _
  rw [h]
  simp only [decide_eq_true_eq]
  rfl

end SimVerif.Tie
