import SimVerif.Gen.LEpoch
import SimVerif.Gen.LEpochDb
import SimVerif.Gen.LIdle
import SimVerif.Model.Tracker
/-!
# Tie: generated decision kernels = hand-written model (DESIGN.md 14.8)

`EpochDb::baked` (the expiry rule of every tracker), as the
Rust source has them now (`SimVerif.Gen.L.*`, regenerated on every run), coincides with `expired` of
`SimVerif/Model/Tracker.lean`.
-/
namespace SimVerif.Tie
open SimVerif.Gen.L

/-- the scene -> epoch lookup of the generated kernel is the tracker model's `epochOf` -/
theorem tie_lookupEpoch (st : Tracker.St) (s : Nat) : (lookupEpoch st.epochs s).getD 0 = Tracker.epochOf st s := rfl

/-- `EpochDb::baked` answers `Wasted` exactly for the tracks the model calls expired
(`last_updated + max_idle_epochs < current epoch of the scene`), and `Pending` otherwise -/
theorem tie_epoch_baked (cfg : Tracker.Cfg) (st : Tracker.St) (t : Tracker.Trk) :
    epoch_baked (some st.epochs) cfg.maxIdle t.scene t.lastUpd =
      if Tracker.expired cfg st t then Status.wasted else Status.pending := by
  unfold epoch_baked Tracker.expired
  simp only [tie_lookupEpoch]
  by_cases h : t.lastUpd + cfg.maxIdle < Tracker.epochOf st t.scene <;> simp [h]

/-- without an epoch database every track is always `Ready` -/
theorem tie_epoch_baked_none (m s l : Nat) : epoch_baked none m s l = Status.ready := rfl

/-! ### the epoch counters: `next_epoch`, `skip_epochs_for_scene`, `current_epoch_with_scene` as the source has them now
(`Gen/LEpochDb.lean`: the `RwLock<HashMap<scene, epoch>>` read as an association list, `get_mut` borrows written through) -/

theorem mapGet_mapSet {β : Type} (m : List (Nat × β)) (k k' : Nat) (v : β) :
    mapGet (mapSet m k v) k' = if k' = k then some v else mapGet m k' := by
  induction m with
  | nil =>
    by_cases hk : k' = k
    · subst hk; simp [mapGet, mapSet]
    · have : ¬ k = k' := fun h => hk h.symm
      simp [mapGet, mapSet, hk, this]
  | cons p rest ih =>
    unfold mapSet
    by_cases hp : p.1 = k
    · by_cases hk : k' = k
      · subst hk; simp [mapGet, hp]
      · have : ¬ k = k' := fun h => hk h.symm
        simp [mapGet, hp, hk, this]
    · simp only [beq_iff_eq, hp, if_false]
      by_cases hpk : p.1 = k'
      · have : ¬ k' = k := fun h => hp (hpk.trans h)
        simp [mapGet, hpk, this]
      · have := ih
        unfold mapGet at this ⊢
        have hb : (p.1 == k') = false := by simpa using hpk
        simp only [List.find?_cons, hb]
        exact this

/-- the epoch of a scene in the map (`0` when the scene is unknown), the model's `epochOf` -/
def epochIn (m : List (Nat × Nat)) (s : Nat) : Nat := (mapGet m s).getD 0

theorem epochIn_eq_epochOf (st : Tracker.St) (s : Nat) : epochIn st.epochs s = Tracker.epochOf st s := rfl

theorem epochIn_mapSet (m : List (Nat × Nat)) (k k' v : Nat) :
    epochIn (mapSet m k v) k' = if k' = k then v else epochIn m k' := by
  unfold epochIn; rw [mapGet_mapSet]; split <;> rfl

/-- **`next_epoch` adds one to the scene's epoch, returns it, and leaves every other scene's epoch as it was** -/
theorem tie_epoch_next (m : List (Nat × Nat)) (s : Nat) :
    ∃ m', epoch_next (some m) s = (some (epochIn m s + 1), some m') ∧
      ∀ s', epochIn m' s' = if s' = s then epochIn m s + 1 else epochIn m s' := by
  unfold epoch_next
  cases h : mapGet m s with
  | none => exact ⟨mapSet m s 1, by simp [epochIn, h], fun s' => by rw [epochIn_mapSet]; simp [epochIn, h]⟩
  | some e => exact ⟨mapSet m s (e + 1), by simp [epochIn, h], fun s' => by rw [epochIn_mapSet]; simp [epochIn, h]⟩

/-- **`skip_epochs_for_scene` adds `n` to the scene's epoch only** -/
theorem tie_epoch_skip (m : List (Nat × Nat)) (s n : Nat) :
    ∃ m', epoch_skip (some m) s n = ((), some m') ∧
      ∀ s', epochIn m' s' = if s' = s then epochIn m s + n else epochIn m s' := by
  unfold epoch_skip
  cases h : mapGet m s with
  | none => exact ⟨mapSet m s n, by simp [h], fun s' => by rw [epochIn_mapSet]; simp [epochIn, h]⟩
  | some e => exact ⟨mapSet m s (e + n), by simp [h], fun s' => by rw [epochIn_mapSet]; simp [epochIn, h]⟩

/-- **`current_epoch_with_scene` reads the scene's epoch (`0` for an unknown scene) and changes nothing** -/
theorem tie_epoch_current (m : List (Nat × Nat)) (s : Nat) :
    epoch_current (some m) s = (some (epochIn m s), some m) := by
  unfold epoch_current
  simp only []
  cases h : mapGet m s <;> simp [epochIn, h]

/-- without an epoch database the three calls do nothing -/
theorem tie_epoch_none (s n : Nat) :
    epoch_next none s = (none, none) ∧ epoch_skip none s n = ((), none) ∧ epoch_current none s = (none, none) := ⟨rfl, rfl, rfl⟩

/-! ### the idle lookup (`SortLookup::IdleLookup`, `VisualSortLookup::IdleLookup`) -/

/-- **the idle rule of the source**: a track answers the idle lookup of a scene iff it belongs to that scene, was not updated in
the scene's current epoch, and is not expired — collected or not — which is the filter of the model's `idle` -/
theorem tie_idle_lookup_sort (cfg : Tracker.Cfg) (st : Tracker.St) (scene : Nat) (t : Tracker.Trk) :
    idle_lookup_sort (some st.epochs) cfg.maxIdle scene t.scene t.lastUpd =
      (t.scene == scene && !Tracker.expired cfg st t && !(t.lastUpd == Tracker.epochOf st scene)) := by
  unfold idle_lookup_sort
  rw [tie_epoch_baked, tie_epoch_current]
  simp only [Option.getD_some, epochIn_eq_epochOf]
  by_cases hs : scene = t.scene
  · subst hs
    cases Tracker.expired cfg st t <;> by_cases he : t.lastUpd = Tracker.epochOf st t.scene <;> simp [he]
  · have : ¬ t.scene = scene := fun h => hs h.symm
    simp [hs, this]

theorem tie_idle_lookup_visual (cfg : Tracker.Cfg) (st : Tracker.St) (scene : Nat) (t : Tracker.Trk) :
    idle_lookup_visual (some st.epochs) cfg.maxIdle scene t.scene t.lastUpd =
      (t.scene == scene && !Tracker.expired cfg st t && !(t.lastUpd == Tracker.epochOf st scene)) := by
  unfold idle_lookup_visual
  rw [tie_epoch_baked, tie_epoch_current]
  simp only [Option.getD_some, epochIn_eq_epochOf]
  by_cases hs : scene = t.scene
  · subst hs
    cases Tracker.expired cfg st t <;> by_cases he : t.lastUpd = Tracker.epochOf st t.scene <;> simp [he]
  · have : ¬ t.scene = scene := fun h => hs h.symm
    simp [hs, this]

end SimVerif.Tie
