import SimVerif.Gen.LEpoch
import SimVerif.Model.Tracker
/-!
# Tie: generated decision kernels = hand-written model (DESIGN.md 14.8)

`EpochDb::baked` (the expiry rule of every tracker), as the
Rust source has them now (`SimVerif.Gen.L.*`, regenerated on every run), coincides with `expired` of
`SimVerif/Model/Tracker.lean`.
-/
namespace SimVerif.Tie
open SimVerif.Gen.L

/-- the scene -> epoch lookup of the generated kernel is the tracker model's `epochOf` -/
theorem tie_lookupEpoch (st : Tracker.St) (s : Nat) : (lookupEpoch st.epochs s).getD 0 = Tracker.epochOf st s := rfl

/-- `EpochDb::baked` answers `Wasted` exactly for the tracks the model calls expired
(`last_updated + max_idle_epochs < current epoch of the scene`), and `Pending` otherwise -/
theorem tie_epoch_baked (cfg : Tracker.Cfg) (st : Tracker.St) (t : Tracker.Trk) :
    epoch_baked (some st.epochs) cfg.maxIdle t.scene t.lastUpd =
      if Tracker.expired cfg st t then Status.wasted else Status.pending := by
  unfold epoch_baked Tracker.expired
  simp only [tie_lookupEpoch]
  by_cases h : t.lastUpd + cfg.maxIdle < Tracker.epochOf st t.scene <;> simp [h]

/-- without an epoch database every track is always `Ready` -/
theorem tie_epoch_baked_none (m s l : Nat) : epoch_baked none m s l = Status.ready := rfl

end SimVerif.Tie
