import SimVerif.Gen.LVisVoting
import SimVerif.Tie.Epoch
/-!
# Tie (DESIGN.md 14.11): the VisualSORT cascade `VisualVoting::winners` as the Rust source has it now
(`SimVerif.Gen.L.visual_voting_winners`, regenerated on every run: the `tee`, the BestFit stage, the `map` closure that collects the
awarded tracks into `excluded_tracks` — hoisted into a fold —, the filter of the remaining distances, the `map` closure that
counts the remaining candidates and tracks, the positional stage, `extend`; `BestFitVoting::winners` and `SortVoting::winners`
are parameters, the first tied on its own in `Tie/Voting.lean`) = the specification `vvSpec`: appearance first, then the
positional stage on exactly the distances whose detection was not decided by appearance and whose track was not awarded by
appearance and that carry a positional weight, with the numbers of distinct remaining candidates and tracks.
-/
set_option linter.unusedVariables false
namespace SimVerif.Tie
open SimVerif.Gen.L SimVerif.Voting

/-- what the appearance stage decides: for every query of the BestFit result its first entry's track, voting type Visual -/
def vvFeature (fw : List (Nat × List Elt)) : List (Nat × List (Nat × Bool)) := fw.map (fun p => (p.1, [((p.2[0]!).w, true)]))
/-- the tracks named by the appearance stage -/
def vvExcluded (fw : List (Nat × List Elt)) : List Nat := fw.foldl (fun s p => setInsert s (p.2[0]!).w) []
/-- the distances left for the positional stage -/
def vvRemaining (fw : List (Nat × List Elt)) (ds : List VD) : List VD :=
  ds.filter (fun e => !((mapGet (vvFeature fw) e.frm).isSome || (vvExcluded fw).contains e.to) && e.attr.isSome)

/-- the cascade, as a specification -/
def vvSpec (bestfitFn : Rat → Nat → List VD → List (Nat × List Elt)) (sortVotingFn : Rat × Nat × Nat → List VD → List (Nat × List Nat))
    (thr maxF : Rat) (mv : Nat) (ds : List VD) : List (Nat × List (Nat × Bool)) :=
  let fw := bestfitFn maxF mv ds
  let rem := vvRemaining fw ds
  let nc := (rem.foldl (fun s e => setInsert s e.frm) []).length
  let nt := (rem.foldl (fun s e => setInsert s e.to) []).length
  mapExtend (vvFeature fw) ((sortVotingFn (thr, nc, nt) rem).map (fun p => (p.1, [(p.2[0]!, false)])))

theorem fold_map_state {σ α β : Type} (f : σ × List β → α → σ × List β) (step : σ → α → σ) (g : α → β)
    (hf : ∀ st x, f st x = (step st.1 x, st.2 ++ [g x])) (l : List α) (s0 : σ) (acc : List β) :
    List.foldl f (s0, acc) l = (List.foldl step s0 l, acc ++ l.map g) := by
  induction l generalizing s0 acc with
  | nil => simp
  | cons x rest ih => rw [List.foldl_cons, hf, ih]; simp

theorem foldl_pair {α : Type} (l : List α) (f g : List Nat → α → List Nat) (a b : List Nat) :
    List.foldl (fun (st : List Nat × List Nat) x => (f st.1 x, g st.2 x)) (a, b) l = (List.foldl f a l, List.foldl g b l) := by
  induction l generalizing a b with
  | nil => rfl
  | cons x rest ih => rw [List.foldl_cons, ih]; rfl

/-- **`VisualVoting::winners` of the source is the cascade specification** -/
theorem tie_visual_voting_winners (bestfitFn : Rat → Nat → List VD → List (Nat × List Elt)) (sortVotingFn : Rat × Nat × Nat → List VD → List (Nat × List Nat))
    (thr maxF : Rat) (mv : Nat) (ds : List VD) :
    visual_voting_winners bestfitFn sortVotingFn thr maxF mv ds = vvSpec bestfitFn sortVotingFn thr maxF mv ds := by
  unfold visual_voting_winners vvSpec
  simp only []
  rw [fold_map_state _ (fun (s : List Nat) (p : Nat × List Elt) => setInsert s (p.2[0]!).w) (fun (p : Nat × List Elt) => (p.1, [((p.2[0]!).w, true)]))
    (by intro st x; rfl)]
  simp only [List.nil_append]
  rw [fold_map_state _ (fun (s : List Nat × List Nat) (e : VD) => (setInsert s.1 e.frm, setInsert s.2 e.to)) (fun (e : VD) => e)
    (by intro st x; rfl)]
  simp only [List.nil_append, List.map_id']
  rw [foldl_pair _ (fun s (e : VD) => setInsert s e.frm) (fun s (e : VD) => setInsert s e.to)]
  rfl

end SimVerif.Tie
