import SimVerif.Gen.KSMetric
import SimVerif.Model.SortMetric
import SimVerif.Tie.Inter
import SimVerif.Tie.Kalman
/-!
# Tie (DESIGN.md 14.8): `SortMetric::metric` as the Rust source has it now
(`SimVerif.Gen.K.sort_metric`, regenerated on every run) = `metricIoU` / `metricMaha` of
`SimVerif/Model/SortMetric.lean` (C02). The too-far test, the polygon intersection and the Kalman
distance are parameters of the generated kernel; they are instantiated with the model's functions
(their own ties are `Tie/Inter.lean`, `Tie/Kalman.lean` and the correspondence runs of C08 / C07).
-/
set_option linter.unusedSectionVars false
set_option linter.unusedVariables false
namespace SimVerif.Tie
open SimVerif.Geom SimVerif.Kalman SimVerif.SortMetric
variable {α : Type} [Field α] [LinearOrder α]

/-- IoU mode: the pair is absent when too far; otherwise the entry carries `IoU · max(conf, minconf)` when that
reaches the threshold, and no attribute metric when it does not (or when the boxes do not overlap) -/
theorem tie_sort_metric_iou (kfdist : α × α → UBox α → α) (chi : Nat → α) (upper thr minc : α)
    (cb tb : UBox α) (cc sc ct st wp wv : α) :
    Gen.K.sort_metric tooFar (fun a b => intersection a b cc sc ct st) kfdist chi upper (.iou thr) minc cb tb wp wv =
      (metricIoU thr minc cb tb cc sc ct st).map (fun o => (o, none)) := by
  unfold Gen.K.sort_metric metricIoU confOf
  by_cases h : tooFar cb tb = true
  · simp [h]
  · simp only [h, Bool.false_eq_true, if_false, Option.map_some, tie_u_iou, decide_eq_true_eq]
    cases hi : iou cb tb cc sc ct st with
    | none => simp
    | some e =>
      by_cases hw : thr ≤ e * (if cb.conf < minc then minc else cb.conf)
      · simp [Option.filter, hw]
      · simp [Option.filter, hw]

/-- Mahalanobis mode: the inverted cost at the generated gate, divided by `max(conf, minconf)` -/
theorem tie_sort_metric_maha (inter : UBox α → UBox α → α) (kfdist : α × α → UBox α → α) (chi : Nat → α) (upper minc : α)
    (cb tb : UBox α) (wp wv : α) :
    Gen.K.sort_metric tooFar inter kfdist chi upper .maha minc cb tb wp wv =
      (metricMaha (chi Gen.boxCostGateInverted) upper minc cb tb (kfdist (wp, wv) cb)).map (fun o => (o, none)) := by
  unfold Gen.K.sort_metric metricMaha confOf
  by_cases h : tooFar cb tb = true
  · simp [h]
  · simp [h, tie_box_cost_inverted]

end SimVerif.Tie
