import SimVerif.Gen.KClip
import SimVerif.Tie.Inter
/-!
# Tie (DESIGN.md 14.8): the two loops of `sutherland_hodgman_clip` as the Rust source has them now
(`SimVerif.Gen.K.sutherland_hodgman_clip`, regenerated on every run by the state-passing translation of the
imperative body: index loops with wrap-around predecessor, `push` on a mutable vector) = the structural
recursion `shClip` of `SimVerif/Model/Geom.lean` that the C08 theorems are about (on the open vertex lists:
the code pops the closing point of both rings first).
-/
set_option linter.unusedSectionVars false
namespace SimVerif.Tie
open SimVerif.Geom List

section Cyclic
variable {β σ : Type} [Inhabited β]

/-- thread a state through the cyclic pairs `(last, l₀), (l₀, l₁), …` of a list -/
def walkState (h : β → β → σ → σ) : β → List β → σ → σ
  | _, [], st => st
  | prev, c :: r, st => walkState h c r (h prev c st)

/-- an index loop `for i in 0..l.len()` that reads `l[i]` and its cyclic predecessor `l[if i == 0 {len-1} else {i-1}]`
is the structural walk over the list -/
theorem foldl_cyclic_aux (h : β → β → σ → σ) (l : List β) :
    ∀ (suf pre : List β) (st : σ), l = pre ++ suf →
      foldl (fun st i => h (l[if i = 0 then l.length - 1 else i - 1]!) (l[i]!) st) st (range' pre.length suf.length)
        = walkState h (if pre = [] then (l.getLast?).getD default else (pre.getLast?).getD default) suf st := by
  intro suf
  induction suf with
  | nil => intro pre st _; simp [walkState]
  | cons c r ih =>
    intro pre st hl
    have hlen : l.length = pre.length + (r.length + 1) := by rw [hl]; simp
    have hc : l[pre.length]! = c := by
      rw [hl]; simp
    have hprev : l[if pre.length = 0 then l.length - 1 else pre.length - 1]! =
        (if pre = [] then (l.getLast?).getD default else (pre.getLast?).getD default) := by
      by_cases hp : pre = []
      · subst hp
        simp only [length_nil, if_true]
        rw [getElem!_eq_getElem?_getD, getLast?_eq_getElem?]
      · have hk : pre.length ≠ 0 := by simpa using hp
        simp only [hk, hp, if_false]
        rw [getElem!_eq_getElem?_getD, hl, getElem?_append_left (by omega), getLast?_eq_getElem?]
    have hl' : l = (pre ++ [c]) ++ r := by rw [hl]; simp
    have := ih (pre ++ [c]) (h (if pre = [] then (l.getLast?).getD default else (pre.getLast?).getD default) c st) hl'
    simp only [length_append, length_cons, length_nil, zero_add] at this
    simp only [length_cons]
    rw [range'_succ, foldl_cons, hc, hprev, this]
    simp [walkState]

theorem foldl_cyclic (h : β → β → σ → σ) (l : List β) (st : σ) :
    foldl (fun st i => h (l[if i = 0 then l.length - 1 else i - 1]!) (l[i]!) st) st (range' 0 (l.length - 0))
      = match l.getLast? with
        | none => st
        | some last => walkState h last l st := by
  have := foldl_cyclic_aux h l l [] st (by simp)
  simp only [length_nil, if_true, Nat.sub_zero] at this ⊢
  rw [this]
  cases hl : l.getLast? with
  | none =>
    have : l = [] := getLast?_eq_none_iff.mp hl
    subst this; rfl
  | some last => rfl
end Cyclic

variable {α : Type} [Field α] [LinearOrder α]

/-- what one step of the inner loop appends -/
def emit (cs ce prev cur : Pt α) : List (Pt α) :=
  if isInside cur cs ce then
    (if !isInside prev cs ce then [computeIntersection prev cur cs ce, cur] else [cur])
  else if isInside prev cs ce then [computeIntersection prev cur cs ce] else []

theorem walk_emit (cs ce : Pt α) (prev : Pt α) (poly acc : List (Pt α)) :
    walkState (fun p c (a : List (Pt α)) => a ++ emit cs ce p c) prev poly acc = acc ++ clipEdge cs ce prev poly := by
  induction poly generalizing prev acc with
  | nil => simp [walkState, clipEdge]
  | cons c r ih =>
    have e : clipEdge cs ce prev (c :: r) = emit cs ce prev c ++ clipEdge cs ce c r := rfl
    rw [e]
    simp only [walkState]
    rw [ih, append_assoc]

/-- **`sutherland_hodgman_clip` = `shClip`** on the open vertex lists -/
theorem tie_sutherland_hodgman_clip (subject clipping : List (Pt α)) :
    Gen.K.sutherland_hodgman_clip subject clipping = shClip subject.dropLast clipping.dropLast := by
  unfold Gen.K.sutherland_hodgman_clip
  -- the inner loop appends `emit` per step
  have hinner : ∀ (cs ce : Pt α) (next : List (Pt α)),
      foldl (fun (fp : List (Pt α)) j =>
        if isInside next[j]! cs ce = true then
          (if (!isInside next[if decide (j = 0) = true then next.length - 1 else j - 1]! cs ce) = true then
            fp ++ [computeIntersection next[if decide (j = 0) = true then next.length - 1 else j - 1]! next[j]! cs ce]
           else fp) ++ [next[j]!]
        else if isInside next[if decide (j = 0) = true then next.length - 1 else j - 1]! cs ce = true then
          fp ++ [computeIntersection next[if decide (j = 0) = true then next.length - 1 else j - 1]! next[j]! cs ce]
        else fp) [] (range' 0 (next.length - 0)) = clipPass cs ce next := by
    intro cs ce next
    have hstep : (fun (fp : List (Pt α)) j =>
        if isInside next[j]! cs ce = true then
          (if (!isInside next[if decide (j = 0) = true then next.length - 1 else j - 1]! cs ce) = true then
            fp ++ [computeIntersection next[if decide (j = 0) = true then next.length - 1 else j - 1]! next[j]! cs ce]
           else fp) ++ [next[j]!]
        else if isInside next[if decide (j = 0) = true then next.length - 1 else j - 1]! cs ce = true then
          fp ++ [computeIntersection next[if decide (j = 0) = true then next.length - 1 else j - 1]! next[j]! cs ce]
        else fp) =
        (fun (fp : List (Pt α)) j => fp ++ emit cs ce (next[if j = 0 then next.length - 1 else j - 1]!) (next[j]!)) := by
      funext fp j
      simp only [emit, decide_eq_true_eq]
      split_ifs <;> simp
    rw [hstep, foldl_cyclic (fun p c (a : List (Pt α)) => a ++ emit cs ce p c) next []]
    unfold clipPass
    cases next.getLast? with
    | none => rfl
    | some last => simp only [walk_emit, nil_append]
  simp only [hinner]
  have houter := foldl_cyclic (fun (cs ce : Pt α) (poly : List (Pt α)) => clipPass cs ce poly) clipping.dropLast subject.dropLast
  simp only [decide_eq_true_eq]
  rw [houter]
  unfold shClip
  cases clipping.dropLast.getLast? with
  | none => rfl
  | some last =>
    simp only
    generalize clipping.dropLast = cl
    generalize subject.dropLast = poly
    induction cl generalizing last poly with
    | nil => rfl
    | cons c r ih => simp only [walkState, clipLoop, ih]

end SimVerif.Tie
