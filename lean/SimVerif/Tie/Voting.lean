import SimVerif.Gen.LVoting
import SimVerif.Model.Voting
import SimVerif.Tie.Epoch
import SimVerif.Lemmas.Voting
import Mathlib.Order.Defs.LinearOrder
import Mathlib.Algebra.Order.Ring.Rat
/-!
# Tie (DESIGN.md 14.10): the voting engine `TopNVoting::winners` as the Rust source has it now
(`SimVerif.Gen.L.topn_winners`, regenerated on every run: the stateful `filter` closure that tracks the largest distance seen —
hoisted into a fold —, `into_group_map`, the vote-count filter, the weights, the per-query buckets built through `get_mut`, the
stable sort and `truncate`) = `Voting.topn` / `Voting.cands` of `SimVerif/Model/Voting.lean`, the functions the theorems of C17
are about. The iteration order of the intermediate `HashMap` of `into_group_map` is the parameter `order`.
-/
set_option linter.unusedVariables false
namespace SimVerif.Tie
open SimVerif.Gen.L SimVerif.Voting

/-- the `filter` closure's verdict -/
def keepP (maxD : Rat) (e : Dist) : Bool := match e.d with | some x => decide (x ≤ maxD) | none => false

/-- the hoisted stateful filter: largest distance seen, and the elements that pass, in stream order -/
theorem fold_filter (maxD : Rat) (f : Rat × List Dist → Dist → Rat × List Dist)
    (hf : ∀ x it, f x it = (maxStep x.1 it, if keepP maxD it then x.2 ++ [it] else x.2))
    (s : List Dist) (m : Rat) (acc : List Dist) :
    List.foldl f (m, acc) s = (s.foldl maxStep m, acc ++ s.filter (keepP maxD)) := by
  induction s generalizing m acc with
  | nil => simp
  | cons e rest ih =>
    rw [List.foldl_cons, hf]
    by_cases hk : keepP maxD e = true
    · simp only [hk, if_true, List.foldl_cons, List.filter_cons]
      rw [ih]; simp
    · have hk' : keepP maxD e = false := Bool.eq_false_iff.mpr hk
      simp only [hk', Bool.false_eq_true, if_false, List.foldl_cons, List.filter_cons]
      rw [ih]

theorem map_kept (maxD : Rat) (s : List Dist) :
    (s.filter (keepP maxD)).map (fun (x : Dist) => ((x.q, x.w), optUnwrap x.d)) = kept maxD s := by
  induction s with
  | nil => rfl
  | cons e rest ih =>
    obtain ⟨q, w, d⟩ := e
    cases d with
    | none => simp only [List.filter_cons, keepP, kept, List.filterMap_cons, Bool.false_eq_true, if_false] ; exact ih
    | some x =>
      by_cases hk : x ≤ maxD
      · simp only [List.filter_cons, keepP, hk, decide_true, if_true, List.map_cons, kept, List.filterMap_cons, optUnwrap, Option.getD_some]
        exact congrArg _ ih
      · simp only [List.filter_cons, keepP, hk, decide_false, Bool.false_eq_true, if_false, kept, List.filterMap_cons]
        exact ih

theorem lsumQ_eq_rsum (l : List Rat) : lsumQ l = rsum l := by
  unfold lsumQ rsum
  have : ∀ (a : Rat) (l : List Rat), List.foldl (· + ·) a l = a + List.foldr (· + ·) 0 l := by
    intro a l
    induction l generalizing a with
    | nil => simp
    | cons x xs ih => simp only [List.foldl_cons, List.foldr_cons]; rw [ih, add_assoc]
  rw [this]; simp

theorem cmpQ_ne_gt'' (a b : Rat) : (Gen.L.cmpQ a b != Ordering.gt) = decide (a ≤ b) := by
  unfold Gen.L.cmpQ
  by_cases h1 : a < b
  · simp [h1, le_of_lt h1]
  · by_cases h2 : b < a
    · simp [h1, h2, not_le.mpr h2]
    · simp [h1, h2, not_lt.mp h2]

/-- the candidate list of the source for a given iteration order of the group map -/
def candsOrd (order : List ((Nat × Nat) × List Rat) → List ((Nat × Nat) × List Rat)) (maxD : Rat) (minVotes : Nat) (s : List Dist) : List Elt :=
  ((order (groupMap (kept maxD s))).filter (fun g => decide (g.2.length ≥ minVotes))).map
    (fun g => { q := g.1.1, w := g.1.2, weight := rsum (g.2.map (fun d => maxSeen s - d)) })

theorem map_filter_map {α β γ : Type} (f : α → β) (p : β → Bool) (g : β → γ) (l : List α) :
    ((l.map f).filter p).map g = l.filterMap (fun k => if p (f k) then some (g (f k)) else none) := by
  induction l with
  | nil => rfl
  | cons a rest ih =>
    by_cases h : p (f a) = true
    · simp only [List.map_cons, List.filter_cons, h, if_true, List.filterMap_cons, ih]
    · have h' : p (f a) = false := Bool.eq_false_iff.mpr h
      simp only [List.map_cons, List.filter_cons, h', Bool.false_eq_true, if_false, List.filterMap_cons, ih]

/-- in first-appearance order the source's candidates are the model's `cands` -/
theorem candsOrd_id (maxD : Rat) (minVotes : Nat) (s : List Dist) : candsOrd id maxD minVotes s = cands maxD minVotes s := by
  unfold candsOrd cands groupMap
  simp only [id]
  rw [map_filter_map]
  congr 1
  funext k
  simp only [mkCand, ge_iff_le, decide_eq_true_eq]

/-- the bucket loop: every query's bucket holds its candidates, in candidate order -/
theorem buckets (g : List (Nat × List Elt) → Elt → List (Nat × List Elt))
    (hg : ∀ res c, g res c = mapSet res c.q ((mapGet res c.q).getD [] ++ [c]))
    (cs : List Elt) (res : List (Nat × List Elt)) (q : Nat) :
    mapGet (List.foldl g res cs) q
      = (let own := cs.filter (fun e => e.q == q)
         match mapGet res q with
         | some val => some (val ++ own)
         | none => if own = [] then none else some own) := by
  induction cs generalizing res with
  | nil => simp only [List.foldl_nil, List.filter_nil, List.append_nil]; cases mapGet res q <;> simp
  | cons c rest ih =>
    rw [List.foldl_cons, ih, hg]
    by_cases hq : c.q = q
    · subst hq
      cases hg' : mapGet res c.q with
      | none => simp [mapGet_mapSet, List.filter_cons]
      | some val => simp [mapGet_mapSet, List.filter_cons, List.append_assoc]
    · have hq' : ¬ q = c.q := fun h => hq h.symm
      have hb : (c.q == q) = false := by simpa using hq
      simp only [mapGet_mapSet, hq', if_false, List.filter_cons, hb, Bool.false_eq_true]

theorem mapGet_mapValues {β γ : Type} (f : β → γ) (m : List (Nat × β)) (q : Nat) :
    mapGet (m.map (fun (p : Nat × β) => (p.1, f p.2))) q = (mapGet m q).map f := by
  unfold mapGet
  induction m with
  | nil => rfl
  | cons p rest ih =>
    by_cases hp : (p.1 == q) = true
    · simp [List.find?_cons, hp]
    · have hp' : (p.1 == q) = false := Bool.eq_false_iff.mpr hp
      simp only [List.map_cons, List.find?_cons, hp']
      exact ih

/-- **`TopNVoting::winners` of the source**: the entry of query `q` in the returned map is the model's ranking of `q`'s candidates —
stable sort by decreasing weight, cut at `topn` — and there is an entry exactly for the queries that have a candidate -/
theorem tie_topn_winners (order : List ((Nat × Nat) × List Rat) → List ((Nat × Nat) × List Rat)) (n : Nat) (maxD : Rat) (minVotes : Nat)
    (s : List Dist) (q : Nat) :
    mapGet (topn_winners order n maxD minVotes s) q =
      (let own := (candsOrd order maxD minVotes s).filter (fun e => e.q == q)
       if own = [] then none else some ((own.mergeSort wGE).take n)) := by
  unfold topn_winners
  simp only []
  rw [fold_filter maxD _ (by
    intro x it
    cases h : it.d with
    | none => simp [maxStep, keepP, h]
    | some e => by_cases h1 : x.1 < e <;> by_cases h2 : e ≤ maxD <;> simp [maxStep, keepP, h, h1, h2])]
  simp only [List.nil_append, map_kept, lsumQ_eq_rsum]
  have hsort : (fun (a b : Elt) => optUnwrap (some (Gen.L.cmpQ b.weight a.weight)) != Ordering.gt) = wGE := by
    funext a b; simp only [optUnwrap, Option.getD_some, cmpQ_ne_gt'', wGE]
  rw [hsort]
  rw [mapGet_mapValues (fun (v : List Elt) => List.take n (v.mergeSort wGE))]
  rw [buckets _ (by intro r c; cases mapGet r c.q <;> rfl)]
  unfold candsOrd maxSeen
  simp only [mapGet, List.find?_nil, Option.map_none]
  split <;> simp_all

/-- in first-appearance order of the group map the source's TopN is the model's `topn`, with an entry exactly for `topnKeys` -/
theorem tie_topn_winners_id (n : Nat) (maxD : Rat) (minVotes : Nat) (s : List Dist) (q : Nat) :
    mapGet (topn_winners id n maxD minVotes s) q =
      (if (cands maxD minVotes s).filter (fun e => e.q == q) = [] then none else some (topn n maxD minVotes s q)) := by
  rw [tie_topn_winners, candsOrd_id]; rfl

/-! ### `BestFitVoting::winners` -/

/-- the award loop of the source (`for c in &mut candidates` with the `HashSet` of awarded tracks) is the model's `award` -/
theorem award_fold (f : List Elt × List Nat → Elt → List Elt × List Nat)
    (hf : ∀ st c, f st c = if st.2.contains c.w then (st.1 ++ [{ c with w := c.q }], st.2) else (st.1 ++ [c], c.w :: st.2))
    (l : List Elt) (acc : List Elt) (taken : List Nat) :
    (List.foldl f (acc, taken) l).1 = acc ++ (award l taken).map (·.1) := by
  induction l generalizing acc taken with
  | nil => simp [award]
  | cons c rest ih =>
    rw [List.foldl_cons, hf]
    by_cases h : taken.contains c.w = true
    · simp only [h, if_true, award, List.map_cons]
      rw [ih]; simp
    · have h' : taken.contains c.w = false := Bool.eq_false_iff.mpr h
      simp only [h', Bool.false_eq_true, if_false, award, List.map_cons]
      rw [ih]; simp

theorem mapGet_groupMapG (xs : List Elt) (q : Nat) :
    mapGet (groupMapG (xs.map (fun e => (e.q, e)))) q =
      (if xs.filter (fun e => e.q == q) = [] then none else some (xs.filter (fun e => e.q == q))) := by
  unfold groupMapG mapGet
  simp only [List.map_map, List.filter_map]
  have hkeys : (xs.map ((fun (p : Nat × Elt) => p.1) ∘ fun e => (e.q, e))) = xs.map (·.q) := by simp [Function.comp]
  rw [hkeys]
  have hnd := firsts_nodup (xs.map (·.q))
  have hmem := mem_firsts (xs.map (·.q))
  generalize firsts (xs.map (·.q)) = ks at hnd hmem
  by_cases hq : q ∈ ks
  · have hfind : (ks.map (fun k => (k, (xs.filter ((fun (e : Nat × Elt) => e.1 == k) ∘ fun e => (e.q, e))).map ((fun (p : Nat × Elt) => p.2) ∘ fun e => (e.q, e))))).find?
        (fun p => p.1 == q) = some (q, (xs.filter (fun e => e.q == q)).map id) := by
      clear hnd hmem
      induction ks with
      | nil => simp at hq
      | cons k rest ih =>
        by_cases hk : k = q
        · subst hk
          simp only [List.map_cons, List.find?_cons, beq_self_eq_true, Option.some.injEq, Prod.mk.injEq, true_and]
          have : ((fun (e : Nat × Elt) => e.1 == k) ∘ fun (e : Elt) => (e.q, e)) = (fun e => e.q == k) := rfl
          rw [this]
          apply List.map_congr_left; intro e _; rfl
        · have hb : (k == q) = false := by simpa using hk
          simp only [List.map_cons, List.find?_cons, hb]
          exact ih (by simpa [Ne.symm hk] using hq)
    rw [hfind]
    have hne : xs.filter (fun e => e.q == q) ≠ [] := by
      have := (hmem q).mp hq
      obtain ⟨e, he, rfl⟩ := List.mem_map.mp this
      intro h0
      have : e ∈ xs.filter (fun e' => e'.q == e.q) := List.mem_filter.mpr ⟨he, by simp⟩
      rw [h0] at this; simp at this
    simp [hne]
  · have hfind : (ks.map (fun k => (k, (xs.filter ((fun (e : Nat × Elt) => e.1 == k) ∘ fun e => (e.q, e))).map ((fun (p : Nat × Elt) => p.2) ∘ fun e => (e.q, e))))).find?
        (fun p => p.1 == q) = none := by
      rw [List.find?_eq_none]
      intro p hp
      obtain ⟨k, hk, rfl⟩ := List.mem_map.mp hp
      simp only [beq_iff_eq]
      intro h; exact hq (h ▸ hk)
    rw [hfind]
    have hemp : xs.filter (fun e => e.q == q) = [] := by
      rw [List.filter_eq_nil_iff]
      intro e he hcontra
      apply hq
      rw [hmem]
      exact List.mem_map.mpr ⟨e, he, by simpa using hcontra⟩
    simp [hemp]

/-- **`BestFitVoting::winners` of the source**: the candidates of all queries, sorted by decreasing weight, go through the model's
`award` (a track already awarded makes the claimant fall back to itself); the entry of query `q` is its awards in that order -/
theorem tie_bestfit_winners (order : List ((Nat × Nat) × List Rat) → List ((Nat × Nat) × List Rat)) (maxD : Rat) (minVotes : Nat)
    (s : List Dist) (q : Nat) :
    mapGet (bestfit_winners order maxD minVotes s) q =
      (let all := (award ((candsOrd order maxD minVotes s).mergeSort wGE) []).map (·.1)
       if all.filter (fun e => e.q == q) = [] then none else some (all.filter (fun e => e.q == q))) := by
  unfold bestfit_winners
  simp only []
  rw [fold_filter maxD _ (by
    intro x it
    cases h : it.d with
    | none => simp [maxStep, keepP, h]
    | some e => by_cases h1 : x.1 < e <;> by_cases h2 : e ≤ maxD <;> simp [maxStep, keepP, h, h1, h2])]
  simp only [List.nil_append, map_kept, lsumQ_eq_rsum]
  have hsort : (fun (a b : Elt) => optUnwrap (some (Gen.L.cmpQ b.weight a.weight)) != Ordering.gt) = wGE := by
    funext a b; simp only [optUnwrap, Option.getD_some, cmpQ_ne_gt'', wGE]
  rw [hsort]
  rw [award_fold _ (by
    intro st c
    by_cases h : st.2.contains c.w = true
    · have h' : c.w ∈ st.2 := by simpa using h
      simp [h']
    · have h' : ¬ c.w ∈ st.2 := by simpa using h
      simp [h'])]
  simp only [List.nil_append]
  rw [mapGet_groupMapG]
  rfl

/-- in first-appearance order of the group map the source's BestFit is the model's `bestfit` -/
theorem tie_bestfit_winners_id (maxD : Rat) (minVotes : Nat) (s : List Dist) (q : Nat) :
    mapGet (bestfit_winners id maxD minVotes s) q =
      (if bestfit maxD minVotes s q = [] then none else some (bestfit maxD minVotes s q)) := by
  rw [tie_bestfit_winners, candsOrd_id]
  unfold bestfit bestfitAll
  simp only [List.filter_map]
  rfl

end SimVerif.Tie
