import SimVerif.Gen.KOptimize
import SimVerif.Tie.KalmanMat
/-!
# Tie (DESIGN.md 14.12): the SORT observation step, as the Rust source has it now

`Gen/KOptimize.lean` is regenerated on every run from `SortMetric::optimize` / `postprocess_distances`
(`trackers/sort/metric.rs`), the default method `TrackAttributesKalmanPrediction::make_prediction`
(`trackers/kalman_prediction.rs`) with the four accessors of `SortAttributes` it goes through, and
`TryFrom<KalmanState<X>> for Universal2DBox` (`utils/kalman.rs`). A panic (`unwrap` of `None` / `Err`) is the value
`none`. This file proves what the step is:

* the box of a 10-dimensional state is always there (`tie_kstate_to_box`: the `unwrap` of `make_prediction` cannot
  panic), with confidence 1, no vertex cache, and the angle `None` exactly when the state's angle is `0`;
* `make_prediction` stores `update (predict (state or initiate z)) z` and returns that state's box with the
  detection's confidence (`tie_make_prediction`);
* `optimize` panics exactly when there is no last observation or it has no box; otherwise it leaves **one**
  observation — the estimated box (with vertices generated in IoU mode), the feature slot untouched —, the new filter
  state, and the histories pushed (`tie_sort_optimize`);
* with the matrix-level ties of `Tie/KalmanMat.lean` the state kept is the textbook Kalman step in every coordinate
  (`sort_optimize_first`, `sort_optimize_next`).
-/
set_option linter.unusedSectionVars false
set_option linter.unusedVariables false
namespace SimVerif.Tie
open SimVerif.Kalman SimVerif.C07 SimVerif.Gen.K SimVerif.Geom Matrix

variable {α : Type} [Field α] [LinearOrder α]

/-- the box read off a state: positions 0..4 of the mean -/
def boxOfState (s : KState α) : CBox α :=
  { xc := s.1 (Sum.inl 0) 0, yc := s.1 (Sum.inl 1) 0,
    angle := if s.1 (Sum.inl 2) 0 = 0 then none else some (s.1 (Sum.inl 2) 0),
    aspect := s.1 (Sum.inl 3) 0, height := s.1 (Sum.inl 4) 0, conf := 1, cache := none }

/-- **`Universal2DBox::try_from(state)` on the 10-dimensional state never fails** and reads the five positions -/
theorem tie_kstate_to_box (s : KState α) : kstate_to_box 10 s = some (boxOfState s) := by
  unfold kstate_to_box boxOfState cbox_new
  simp only [show ¬ (10 < 5) by omega, decide_false, Bool.false_eq_true, ↓reduceIte, decide_eq_true_eq]
  rfl

/-- a state shorter than a box is refused (the `OutOfRange` branch) -/
theorem kstate_to_box_short (x : Nat) (h : x < 5) (s : KState α) : kstate_to_box x s = none := by
  unfold kstate_to_box; simp [h]

/-- one filter step on the detection `z`: `update (predict (state, or initiate z)) z` -/
def kalmanStep (solveLower : {r c : Type} → [Fintype r] → [DecidableEq r] → Matrix r r α → Matrix r c α → Matrix r c α)
    (dt : α) (a : SAttrs α) (z : CBox α) : KState α :=
  box_update solveLower box_update_matrix a.position_weight
    (box_predict (box_motion_matrix dt) a.position_weight a.velocity_weight
      (a.state.getD (box_initiate a.position_weight a.velocity_weight (toU z)))) (toU z)

/-- **`make_prediction`**: never panics; the attributes keep the new state, the value is that state's box with the
detection's confidence -/
theorem tie_make_prediction (solveLower : {r c : Type} → [Fintype r] → [DecidableEq r] → Matrix r r α → Matrix r c α → Matrix r c α)
    (dt : α) (a : SAttrs α) (z : CBox α) :
    make_prediction solveLower dt a z =
      some ({ a with state := some (kalmanStep solveLower dt a z) },
            { boxOfState (kalmanStep solveLower dt a z) with conf := z.conf }) := by
  obtain ⟨pb, ob, tl, st, pw, vw, hl⟩ := a
  cases st <;>
    simp only [make_prediction, kalmanStep, sattr_get_state, sattr_get_position_weight, sattr_get_velocity_weight,
      sattr_set_state, tie_kstate_to_box, Option.getD_none, Option.getD_some]

/-- bounded history, any element type -/
def pushB {β : Type} (h : List β) (x : β) (n : Nat) : List β :=
  let h' := h ++ [x]
  if n > 0 && h'.length > n then h'.drop 1 else h'

theorem update_history_gen {β : Type} (hl len : Nat) (obs pred : List β) (ob pb : β) (h : obs.length = pred.length) :
    SimVerif.Gen.L.sort_update_history hl len obs pred ob pb = (len + 1, pushB obs ob hl, pushB pred pb hl) := by
  unfold SimVerif.Gen.L.sort_update_history pushB
  simp only [List.length_append, List.length_cons, List.length_nil, h]
  by_cases hc : (decide (hl > 0) && decide (pred.length + (0 + 1) > hl)) = true
  · simp [hc]
  · simp [hc]

/-- the box `optimize` stores: in IoU mode with its vertices generated (only rotated boxes have any) -/
def storedBox (cos sin : α → α) (method : PosMetric α) (b : CBox α) : CBox α :=
  match method with
  | .maha => b
  | .iou _ => cbox_gen_vertices cos sin b

/-- **`SortMetric::optimize`** on observations ending in `(some z, f)`: one observation is left — the estimated box, the
feature slot as it was — the filter state is the Kalman step on `z`, both histories are pushed (bounded), the length
grows by one -/
theorem tie_sort_optimize {F : Type} (solveLower : {r c : Type} → [Fintype r] → [DecidableEq r] → Matrix r r α → Matrix r c α → Matrix r c α)
    (dt : α) (cos sin : α → α) (method : PosMetric α) (a : SAttrs α) (pre : List (Option (CBox α) × F)) (z : CBox α) (f : F)
    (hlen : a.observed_boxes.length = a.predicted_boxes.length) :
    sort_optimize solveLower dt cos sin method a (pre ++ [(some z, f)]) =
      (let s' := kalmanStep solveLower dt a z
       let pb : CBox α := { boxOfState s' with conf := z.conf }
       some ({ a with state := some s', track_length := a.track_length + 1,
                      observed_boxes := pushB a.observed_boxes z a.history_length,
                      predicted_boxes := pushB a.predicted_boxes pb a.history_length },
             [(some (storedBox cos sin method pb), f)])) := by
  unfold sort_optimize
  simp only [List.getLast?_append, List.getLast?_singleton, Option.some_or, tie_make_prediction]
  simp only [update_history_gen _ _ _ _ _ _ hlen, applyHist, List.nil_append]
  cases method <;> rfl

/-- `optimize` panics when there is nothing to optimize … -/
theorem sort_optimize_empty {F : Type} (solveLower : {r c : Type} → [Fintype r] → [DecidableEq r] → Matrix r r α → Matrix r c α → Matrix r c α)
    (dt : α) (cos sin : α → α) (method : PosMetric α) (a : SAttrs α) :
    sort_optimize (F := F) solveLower dt cos sin method a [] = none := rfl

/-- … or when the last observation carries no box -/
theorem sort_optimize_nobox {F : Type} (solveLower : {r c : Type} → [Fintype r] → [DecidableEq r] → Matrix r r α → Matrix r c α → Matrix r c α)
    (dt : α) (cos sin : α → α) (method : PosMetric α) (a : SAttrs α) (pre : List (Option (CBox α) × F)) (f : F) :
    sort_optimize solveLower dt cos sin method a (pre ++ [(none, f)]) = none := by
  unfold sort_optimize
  simp only [List.getLast?_append, List.getLast?_singleton, Option.some_or]

/-- `postprocess_distances` keeps exactly the results that carry a positional metric, in order -/
theorem tie_sort_postprocess {M : Type} (l : List (MOk M)) :
    sort_postprocess_distances l = l.filter (fun r => r.attribute_metric.isSome) := rfl

/-! ### the state kept is the textbook step (through `Tie/KalmanMat.lean`) -/

/-- first observation of a track (no state yet): `initiate z`, predicted, updated on `z` — `init1`, `predict1`,
`update1` of `Model/Kalman.lean` in every coordinate, with the source's noise vectors -/
theorem sort_step_first (solveLower : {r c : Type} → [Fintype r] → [DecidableEq r] → Matrix r r α → Matrix r c α → Matrix r c α)
    (hsolve : SolveLowerDiag solveLower) (a : SAttrs α) (z : CBox α) (hst : a.state = none) :
    let sp := box_std_position a.position_weight 2 (1 / 100) z.height
    let sv := box_std_velocity a.velocity_weight 10 (1 / 100000) z.height
    let c0 : Fin 5 → C1 α := fun i => init1 (ofL (boxMeas (toU z)) i) (ofL sp i) (ofL sv i)
    let qa := box_std_position a.position_weight 1 (1 / 100) (c0 4).p
    let qb := box_std_velocity a.velocity_weight 1 (1 / 100000) (c0 4).p
    let c1 : Fin 5 → C1 α := fun i => predict1 (c0 i) (ofL qa i * ofL qa i) (ofL qb i * ofL qb i)
    let r := box_std_position a.position_weight 1 (1 / 10) (c1 4).p
    (∀ i, s1 (c1 i) (ofL r i * ofL r i) ≠ 0) →
    kalmanStep solveLower 1 a z =
      (col (toMean (fun i => update1 (c1 i) (ofL r i * ofL r i) (ofL (boxMeas (toU z)) i))),
       toCov (fun i => update1 (c1 i) (ofL r i * ofL r i) (ofL (boxMeas (toU z)) i))) := by
  intro sp sv c0 qa qb c1 r hs
  unfold kalmanStep
  rw [hst, Option.getD_none, tie_box_initiate, tie_box_motion_matrix, tie_box_update_matrix]
  dsimp only
  rw [tie_box_predict]
  exact tie_box_update solveLower hsolve c1 a.position_weight (toU z) hs

/-- later observations: on a state of the block-diagonal form the step is `predict1` then `update1` per coordinate -/
theorem sort_step_next (solveLower : {r c : Type} → [Fintype r] → [DecidableEq r] → Matrix r r α → Matrix r c α → Matrix r c α)
    (hsolve : SolveLowerDiag solveLower) (a : SAttrs α) (z : CBox α) (cs : Fin 5 → C1 α)
    (hst : a.state = some (col (toMean cs), toCov cs)) :
    let qa := box_std_position a.position_weight 1 (1 / 100) (cs 4).p
    let qb := box_std_velocity a.velocity_weight 1 (1 / 100000) (cs 4).p
    let c1 : Fin 5 → C1 α := fun i => predict1 (cs i) (ofL qa i * ofL qa i) (ofL qb i * ofL qb i)
    let r := box_std_position a.position_weight 1 (1 / 10) (c1 4).p
    (∀ i, s1 (c1 i) (ofL r i * ofL r i) ≠ 0) →
    kalmanStep solveLower 1 a z =
      (col (toMean (fun i => update1 (c1 i) (ofL r i * ofL r i) (ofL (boxMeas (toU z)) i))),
       toCov (fun i => update1 (c1 i) (ofL r i * ofL r i) (ofL (boxMeas (toU z)) i))) := by
  intro qa qb c1 r hs
  unfold kalmanStep
  rw [hst, Option.getD_some, tie_box_motion_matrix, tie_box_update_matrix]
  rw [tie_box_predict]
  exact tie_box_update solveLower hsolve c1 a.position_weight (toU z) hs

/-- the estimated box `optimize` stores is the updated positions: `xc, yc, aspect, height` are the posterior means of
coordinates 0, 1, 3, 4, the angle that of coordinate 2 (`None` when it is exactly 0), the confidence the detection's -/
theorem boxOfState_block (cs : Fin 5 → C1 α) :
    boxOfState (col (toMean cs), toCov cs) =
      { xc := (cs 0).p, yc := (cs 1).p, angle := if (cs 2).p = 0 then none else some (cs 2).p,
        aspect := (cs 3).p, height := (cs 4).p, conf := 1, cache := none } := by
  rfl

end SimVerif.Tie
