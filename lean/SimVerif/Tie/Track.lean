import SimVerif.Gen.LTrack
import SimVerif.Gen.LTrackDist
import SimVerif.Gen.LTrackBuild
import SimVerif.Model.Track
/-!
# Tie (DESIGN.md 14.8 / 14.11): `Track::add_observation` and `Track::merge` as the Rust source has them now
(`SimVerif.Gen.L.track_add_observation`, `track_merge`, regenerated on every run by the continuation-passing
translation: early returns, `res?; unreachable!()` error exits, snapshots and their restoration, `get_mut` borrows of
the observation table written through) = `addObservation` / `merge` of `SimVerif/Model/Track.lean`, the functions the
atomicity and merge-history theorems of C11 (and the store theorems of C09) are about.

The user callbacks mutate their arguments in place and may fail half-way: in the generated definitions a callback
returns its `Result` **and** whatever it left in the places it was given. The tie is proved for callbacks that on
failure leave **arbitrary** values there (`junk`): that the source restores its snapshots correctly is part of what is
proved, not assumed.
-/
set_option linter.unusedVariables false
namespace SimVerif.Tie
open SimVerif.Gen.L SimVerif.Track

variable {TA M A F U Q E : Type}

theorem dbGet_eq_getObs {β : Type} (obs : List (Nat × List β)) (c : Nat) : dbGet obs c = getObs obs c := rfl
theorem dbSet_eq_setObs {β : Type} (obs : List (Nat × List β)) (c : Nat) (v : List β) : dbSet obs c v = setObs obs c v := rfl

theorem map_replace_none {β : Type} (obs : List (Nat × List β)) (c : Nat) (w : List β)
    (h : obs.any (fun p => p.1 == c) = false) : obs.map (fun p => if p.1 == c then (c, w) else p) = obs := by
  induction obs with
  | nil => rfl
  | cons p rest ih =>
    simp only [List.any_cons, Bool.or_eq_false_iff] at h
    simp only [List.map_cons, h.1, ih h.2]
    rfl

theorem find_none {β : Type} (obs : List (Nat × List β)) (c : Nat)
    (h : obs.any (fun p => p.1 == c) = false) : obs.find? (fun p => p.1 == c) = none := by
  induction obs with
  | nil => rfl
  | cons p rest ih =>
    simp only [List.any_cons, Bool.or_eq_false_iff] at h
    simp only [List.find?_cons, h.1, ih h.2]

theorem find_replace {β : Type} (obs : List (Nat × List β)) (c : Nat) (v : List β)
    (h : obs.any (fun p => p.1 == c) = true) :
    (obs.map (fun p => if p.1 == c then (c, v) else p)).find? (fun p => p.1 == c) = some (c, v) := by
  induction obs with
  | nil => simp at h
  | cons p rest ih =>
    by_cases hp : (p.1 == c) = true
    · simp only [List.map_cons, hp, if_true, List.find?_cons]
      have : ((c, v) : Nat × List β).1 == c := by simp
      simp only [this]
    · have hp' : (p.1 == c) = false := Bool.eq_false_iff.mpr hp
      have hr : rest.any (fun p => p.1 == c) = true := by simpa [hp'] using h
      simp only [List.map_cons, hp', Bool.false_eq_true, if_false, List.find?_cons]
      exact ih hr

theorem getObs_setObs {β : Type} (obs : List (Nat × List β)) (c : Nat) (v : List β) : getObs (setObs obs c v) c = some v := by
  unfold setObs getObs
  by_cases h : obs.any (fun p => p.1 == c) = true
  · simp only [h, if_true, find_replace obs c v h]
    rfl
  · have h' : obs.any (fun p => p.1 == c) = false := Bool.eq_false_iff.mpr h
    simp only [h', Bool.false_eq_true, if_false, List.find?_append, find_none obs c h']
    simp

theorem any_replace {β : Type} (obs : List (Nat × List β)) (c : Nat) (v : List β)
    (h : obs.any (fun p => p.1 == c) = true) :
    (obs.map (fun p => if p.1 == c then (c, v) else p)).any (fun p => p.1 == c) = true := by
  have := find_replace obs c v h
  rw [List.any_eq_true]
  exact ⟨(c, v), List.mem_of_find?_eq_some this, by simp⟩

theorem setObs_setObs {β : Type} (obs : List (Nat × List β)) (c : Nat) (v w : List β) :
    setObs (setObs obs c v) c w = setObs obs c w := by
  unfold setObs
  by_cases h : obs.any (fun p => p.1 == c) = true
  · simp only [h, any_replace obs c v h, if_true, List.map_map]
    apply List.map_congr_left
    intro q _
    by_cases hq : (q.1 == c) = true
    · simp [Function.comp, hq]
    · have hq' : (q.1 == c) = false := by simpa using hq
      simp [Function.comp, hq']
  · have h' : obs.any (fun p => p.1 == c) = false := Bool.eq_false_iff.mpr h
    have h2 : (obs ++ [(c, v)]).any (fun p => p.1 == c) = true := by simp
    simp only [h', Bool.false_eq_true, if_false, h2, if_true, List.map_append, map_replace_none obs c w h']
    simp

/-- the attribute-update callback in the shape the source sees it (`Result` and the attributes it leaves behind) -/
def applyOf (cb : Cb TA M (Option A × Option F) U Q E) (junk : U → TA → TA) (u : U) (a : TA) : Except E Unit × TA :=
  match cb.apply u a with
  | .ok a' => (.ok (), a')
  | .error e => (.error e, junk u a)

/-- the optimisation callback in the shape the source sees it -/
def optimizeOf (cb : Cb TA M (Option A × Option F) U Q E)
    (junk : M → Nat → List Nat → TA → List (Option A × Option F) → Nat → Bool → M × TA × List (Option A × Option F))
    (m : M) (c : Nat) (h : List Nat) (a : TA) (l : List (Option A × Option F)) (p : Nat) (b : Bool) :
    Except E Unit × M × TA × List (Option A × Option F) :=
  match cb.optimize m c h a l p b with
  | .ok (m', a', l') => (.ok (), m', a', l')
  | .error e => (.error e, junk m c h a l p b)

/-- the model's error for a callback error -/
def liftErr (r : Except E Unit) : Except (Err E) Unit :=
  match r with
  | .ok () => .ok ()
  | .error e => .error (.cb e)

/-- the source's `add_observation` after the attribute update, as a function of the attributes it produced -/
def addTailGen (optimize : M → Nat → List Nat → TA → List (Option A × Option F) → Nat → Bool → Except E Unit × M × TA × List (Option A × Option F))
    (attrs0 : TA) (obs : List (Nat × List (Option A × Option F))) (metric : M) (hist : List Nat) (notes cls : Nat)
    (fa : Option A) (f : Option F) (a : TA) : Except E Unit × TA × List (Nat × List (Option A × Option F)) × M × Nat :=
  if (Option.isNone f && Option.isNone fa) then ((Except.ok () : Except E Unit), a, obs, metric, notes + 1) else
    (match dbGet obs cls with
     | none =>
       (let obs_db := dbSet obs cls [(fa, f)]
        let observations := dbGetD obs_db cls
        let prev_length := observations.length - 1
        let (res, metric', attributes, observations) := optimize metric cls hist a observations prev_length false
        let obs_db := dbSet obs_db cls observations
        if isErr res then (res, attrs0, obs, metric, notes) else ((Except.ok () : Except E Unit), attributes, obs_db, metric', notes + 1))
     | some observations =>
       (let observations := observations ++ [(fa, f)]
        let obs_db := dbSet obs cls observations
        let observations := dbGetD obs_db cls
        let prev_length := observations.length - 1
        let (res, metric', attributes, observations) := optimize metric cls hist a observations prev_length false
        let obs_db := dbSet obs_db cls observations
        if isErr res then (res, attrs0, obs, metric, notes) else ((Except.ok () : Except E Unit), attributes, obs_db, metric', notes + 1)))

theorem gen_add_none (applyU : U → TA → Except E Unit × TA)
    (optimize : M → Nat → List Nat → TA → List (Option A × Option F) → Nat → Bool → Except E Unit × M × TA × List (Option A × Option F))
    (attrs : TA) (obs : List (Nat × List (Option A × Option F))) (metric : M) (hist : List Nat) (notes cls : Nat) (fa : Option A) (f : Option F) :
    track_add_observation applyU optimize attrs obs metric hist notes cls fa f none =
      addTailGen optimize attrs obs metric hist notes cls fa f attrs := by
  unfold track_add_observation addTailGen
  rfl

theorem gen_add_some (applyU : U → TA → Except E Unit × TA)
    (optimize : M → Nat → List Nat → TA → List (Option A × Option F) → Nat → Bool → Except E Unit × M × TA × List (Option A × Option F))
    (attrs : TA) (obs : List (Nat × List (Option A × Option F))) (metric : M) (hist : List Nat) (notes cls : Nat) (fa : Option A) (f : Option F) (u : U) :
    track_add_observation applyU optimize attrs obs metric hist notes cls fa f (some u) =
      (if isErr (applyU u attrs).1 then ((applyU u attrs).1, attrs, obs, metric, notes)
       else addTailGen optimize attrs obs metric hist notes cls fa f (applyU u attrs).2) := by
  unfold track_add_observation addTailGen
  rfl

/-- the model's `addObservation` after the attribute update -/
def addTailModel (cb : Cb TA M (Option A × Option F) U Q E) (t : Track TA M (Option A × Option F)) (cls : Nat)
    (o : Option (Option A × Option F)) (a : TA) : Except (Err E) Unit × Track TA M (Option A × Option F) × Nat :=
  match o with
  | none => (.ok (), { t with attrs := a }, 1)
  | some o =>
    let cur := (getObs t.obs cls).getD []
    match cb.optimize t.metric cls t.hist a (cur ++ [o]) cur.length false with
    | .error e => (.error (.cb e), t, 0)
    | .ok (m, a', l) => (.ok (), { t with metric := m, attrs := a', obs := setObs t.obs cls l }, 1)

theorem tail_tie (cb : Cb TA M (Option A × Option F) U Q E)
    (junkO : M → Nat → List Nat → TA → List (Option A × Option F) → Nat → Bool → M × TA × List (Option A × Option F))
    (t : Track TA M (Option A × Option F)) (cls : Nat) (fa : Option A) (f : Option F) (notes : Nat) (a : TA) :
    let r' := addTailGen (optimizeOf cb junkO) t.attrs t.obs t.metric t.hist notes cls fa f a
    let m' := addTailModel cb t cls (if f.isNone && fa.isNone then none else some (fa, f)) a
    m'.1 = liftErr r'.1 ∧ m'.2.1 = { t with attrs := r'.2.1, obs := r'.2.2.1, metric := r'.2.2.2.1 } ∧ r'.2.2.2.2 = notes + m'.2.2 := by
  unfold addTailGen addTailModel
  by_cases hn : (f.isNone && fa.isNone) = true
  · simp [hn, liftErr]
  · have hn' : (f.isNone && fa.isNone) = false := Bool.eq_false_iff.mpr hn
    simp only [hn', Bool.false_eq_true, if_false, dbGet_eq_getObs, dbSet_eq_setObs, dbGetD]
    cases hg : getObs t.obs cls with
    | none =>
      simp only [dbGet_eq_getObs, getObs_setObs, Option.getD_some, Option.getD_none, List.nil_append, List.length_singleton,
        Nat.sub_self, List.length_nil, optimizeOf, setObs_setObs]
      cases ho : cb.optimize t.metric cls t.hist a [(fa, f)] 0 false with
      | error e => simp [isErr, liftErr]
      | ok v => obtain ⟨m1, a1, l1⟩ := v; simp [isErr, liftErr]
    | some cur =>
      simp only [dbGet_eq_getObs, getObs_setObs, Option.getD_some, List.length_append, List.length_singleton,
        Nat.add_sub_cancel, optimizeOf, setObs_setObs]
      cases ho : cb.optimize t.metric cls t.hist a (cur ++ [(fa, f)]) cur.length false with
      | error e => simp [isErr, liftErr]
      | ok v => obtain ⟨m1, a1, l1⟩ := v; simp [isErr, liftErr]

/-- **`Track::add_observation` of the source is the model's `addObservation`**, for every family of callbacks and whatever a
failing callback leaves behind: same result, same track afterwards (attributes, observation table, metric; history and id
are not touched), same number of notifications -/
theorem tie_track_add_observation (cb : Cb TA M (Option A × Option F) U Q E) (junkA : U → TA → TA)
    (junkO : M → Nat → List Nat → TA → List (Option A × Option F) → Nat → Bool → M × TA × List (Option A × Option F))
    (t : Track TA M (Option A × Option F)) (cls : Nat) (fa : Option A) (f : Option F) (u : Option U) (notes : Nat) :
    let r := track_add_observation (applyOf cb junkA) (optimizeOf cb junkO) t.attrs t.obs t.metric t.hist notes cls fa f u
    let m := addObservation cb t cls (if f.isNone && fa.isNone then none else some (fa, f)) u
    m.1 = liftErr r.1 ∧ m.2.1 = { t with attrs := r.2.1, obs := r.2.2.1, metric := r.2.2.2.1 } ∧ r.2.2.2.2 = notes + m.2.2 := by
  have hmodel : ∀ (o : Option (Option A × Option F)) (u : Option U), addObservation cb t cls o u =
      (match u with
       | none => addTailModel cb t cls o t.attrs
       | some u => match cb.apply u t.attrs with
         | .ok a => addTailModel cb t cls o a
         | .error e => (.error (.cb e), t, 0)) := by
    intro o u
    unfold addObservation addTailModel
    cases u with
    | none =>
      cases o with
      | none => rfl
      | some o =>
        simp only []
        cases hx : cb.optimize t.metric cls t.hist t.attrs ((getObs t.obs cls).getD [] ++ [o]) ((getObs t.obs cls).getD []).length false <;> rfl
    | some u =>
      cases h : cb.apply u t.attrs with
      | error e => cases o <;> simp only [h]
      | ok a =>
        cases o with
        | none => simp only [h]
        | some o =>
          simp only [h]
          cases hx : cb.optimize t.metric cls t.hist a ((getObs t.obs cls).getD [] ++ [o]) ((getObs t.obs cls).getD []).length false <;> rfl
  cases u with
  | none =>
    simp only [gen_add_none, hmodel]
    exact tail_tie cb junkO t cls fa f notes t.attrs
  | some u =>
    cases ha : cb.apply u t.attrs with
    | error e =>
      have h1 : applyOf cb junkA u t.attrs = (.error e, junkA u t.attrs) := by simp only [applyOf, ha]
      simp only [gen_add_some, hmodel, h1, ha, isErr, if_true, liftErr]
      trivial
    | ok a =>
      have h1 : applyOf cb junkA u t.attrs = (.ok (), a) := by simp only [applyOf, ha]
      simp only [gen_add_some, hmodel, h1, ha, isErr, Bool.false_eq_true, if_false]
      exact tail_tie cb junkO t cls fa f notes a

/-! ### `Track::merge` -/

/-- the attribute-merge callback in the shape the source sees it -/
def mergeOf (cb : Cb TA M (Option A × Option F) U Q E) (junk : TA → TA → TA) (a b : TA) : Except E Unit × TA :=
  match cb.mergeA a b with
  | .ok a' => (.ok (), a')
  | .error e => (.error e, junk a b)

abbrev ObsDb (A F : Type) := List (Nat × List (Option A × Option F))
abbrev MergeRet (TA M A F E : Type) := Except E Unit × TA × ObsDb A F × M × List Nat × Nat

/-- one iteration of the class loop of the source's `merge` (the text of the generated fold body) -/
def mergeStepGen (optimize : M → Nat → List Nat → TA → List (Option A × Option F) → Nat → Bool → Except E Unit × M × TA × List (Option A × Option F))
    (last_attributes : TA) (last_observations : ObsDb A F) (last_metric : M) (hist : List Nat) (notes : Nat)
    (other_obs : ObsDb A F) (new_merge_history : List Nat)
    (st : Sum (MergeRet TA M A F E) (TA × ObsDb A F × M × Bool)) (cls : Nat) : Sum (MergeRet TA M A F E) (TA × ObsDb A F × M × Bool) :=
  match st with
  | Sum.inl r => Sum.inl r
  | Sum.inr (attributes, obs_db, metric, merged_any) =>
    let src := dbGet other_obs cls
    match (dbGet obs_db cls, src) with
    | (some dest_observations, some src_observations) =>
      let prev_length := dest_observations.length
      let dest_observations := dest_observations ++ src_observations
      let obs_db := dbSet obs_db cls dest_observations
      let e3 := dbGetD obs_db cls
      let (res, metric', attributes', e3) := optimize metric cls new_merge_history attributes e3 prev_length true
      let obs_db := dbSet obs_db cls e3
      if isErr res then Sum.inl (res, last_attributes, last_observations, last_metric, hist, notes)
      else Sum.inr (attributes', obs_db, metric', true)
    | (none, some src_observations) =>
      let obs_db := dbSet obs_db cls src_observations
      let e3 := dbGetD obs_db cls
      let (res, metric', attributes', e3) := optimize metric cls new_merge_history attributes e3 0 true
      let obs_db := dbSet obs_db cls e3
      if isErr res then Sum.inl (res, last_attributes, last_observations, last_metric, hist, notes)
      else Sum.inr (attributes', obs_db, metric', true)
    | (some dest_observations, none) =>
      let prev_length := dest_observations.length
      let e3 := dbGetD obs_db cls
      let (res, metric', attributes', e3) := optimize metric cls new_merge_history attributes e3 prev_length true
      let obs_db := dbSet obs_db cls e3
      if isErr res then Sum.inl (res, last_attributes, last_observations, last_metric, hist, notes)
      else Sum.inr (attributes', obs_db, metric', true)
    | _ => Sum.inr (attributes, obs_db, metric, merged_any)

/-- the generated `track_merge` is: attribute merge (restored on failure), the fold of `mergeStepGen`, the history installed when
some class was merged, one notification -/
theorem gen_merge (mergeA : TA → TA → Except E Unit × TA)
    (optimize : M → Nat → List Nat → TA → List (Option A × Option F) → Nat → Bool → Except E Unit × M × TA × List (Option A × Option F))
    (attributes : TA) (obs_db : ObsDb A F) (metric : M) (hist : List Nat) (notes : Nat)
    (other_attributes : TA) (other_obs : ObsDb A F) (other_hist : List Nat) (classes : List Nat) (flag : Bool) :
    track_merge mergeA optimize attributes obs_db metric hist notes other_attributes other_obs other_hist classes flag =
      (if isErr (mergeA attributes other_attributes).1 then ((mergeA attributes other_attributes).1, attributes, obs_db, metric, hist, notes)
       else
        let nh := if flag then hist ++ other_hist else hist
        match List.foldl (mergeStepGen optimize attributes obs_db metric hist notes other_obs nh)
            (Sum.inr ((mergeA attributes other_attributes).2, obs_db, metric, false)) classes with
        | Sum.inl r => r
        | Sum.inr (a, o, m, any) => (Except.ok (), a, o, m, (if any then nh else hist), notes + 1)) := by
  unfold track_merge
  rfl

/-- the loop state of the source for a loop state of the model -/
def reprSt (st : MState TA M (Option A × Option F)) : TA × ObsDb A F × M × Bool := (st.attrs, st.obs, st.metric, st.any)

theorem mergeLoop_cons (cb : Cb TA M (Option A × Option F) U Q E) (src : Track TA M (Option A × Option F)) (nh : List Nat)
    (cls : Nat) (rest : List Nat) (st : MState TA M (Option A × Option F)) :
    mergeLoop cb src nh (cls :: rest) st =
      (match mergeLoop cb src nh [cls] st with
       | .error e => .error e
       | .ok st' => mergeLoop cb src nh rest st') := by
  simp only [mergeLoop]
  split
  · rfl
  · split <;> rfl

/-- **one iteration**: the source's step on the model's loop state is the model's step; on a callback failure it returns the
error together with the three snapshots, whatever the callback left behind -/
theorem mergeStep_tie (cb : Cb TA M (Option A × Option F) U Q E)
    (junkO : M → Nat → List Nat → TA → List (Option A × Option F) → Nat → Bool → M × TA × List (Option A × Option F))
    (la : TA) (lo : ObsDb A F) (lm : M) (hist : List Nat) (notes : Nat) (src : Track TA M (Option A × Option F)) (nh : List Nat)
    (st : MState TA M (Option A × Option F)) (cls : Nat) :
    mergeStepGen (optimizeOf cb junkO) la lo lm hist notes src.obs nh (Sum.inr (reprSt st)) cls =
      (match mergeLoop cb src nh [cls] st with
       | .ok st' => Sum.inr (reprSt st')
       | .error e => Sum.inl (.error e, la, lo, lm, hist, notes)) := by
  cases h1 : getObs st.obs cls with
  | none =>
    cases h2 : getObs src.obs cls with
    | none =>
      unfold mergeStepGen
      simp [mergeLoop, reprSt, dbGet_eq_getObs, h1, h2]
    | some s =>
      unfold mergeStepGen
      simp only [mergeLoop, reprSt, dbGet_eq_getObs, dbSet_eq_setObs, dbGetD, h1, h2, optimizeOf, getObs_setObs, Option.getD_some]
      cases ho : cb.optimize st.metric cls nh st.attrs s 0 true with
      | error e => simp [isErr]
      | ok v => obtain ⟨m1, a1, l1⟩ := v; simp [isErr]
  | some d =>
    cases h2 : getObs src.obs cls with
    | none =>
      unfold mergeStepGen
      simp only [mergeLoop, reprSt, dbGet_eq_getObs, dbSet_eq_setObs, dbGetD, h1, h2, optimizeOf, Option.getD_some]
      cases ho : cb.optimize st.metric cls nh st.attrs d d.length true with
      | error e => simp [isErr]
      | ok v => obtain ⟨m1, a1, l1⟩ := v; simp [isErr]
    | some s =>
      unfold mergeStepGen
      simp only [mergeLoop, reprSt, dbGet_eq_getObs, dbSet_eq_setObs, dbGetD, h1, h2, optimizeOf, getObs_setObs, Option.getD_some]
      cases ho : cb.optimize st.metric cls nh st.attrs (d ++ s) d.length true with
      | error e => simp [isErr]
      | ok v => obtain ⟨m1, a1, l1⟩ := v; simp [isErr]

theorem foldl_inl (cb : Cb TA M (Option A × Option F) U Q E)
    (junkO : M → Nat → List Nat → TA → List (Option A × Option F) → Nat → Bool → M × TA × List (Option A × Option F))
    (la : TA) (lo : ObsDb A F) (lm : M) (hist : List Nat) (notes : Nat) (oo : ObsDb A F) (nh : List Nat)
    (r : MergeRet TA M A F E) (classes : List Nat) :
    List.foldl (mergeStepGen (optimizeOf cb junkO) la lo lm hist notes oo nh) (Sum.inl r) classes = Sum.inl r := by
  induction classes with
  | nil => rfl
  | cons c rest ih => simpa [List.foldl_cons, mergeStepGen] using ih

/-- **the class loop** of the source is the model's `mergeLoop` -/
theorem mergeLoop_tie (cb : Cb TA M (Option A × Option F) U Q E)
    (junkO : M → Nat → List Nat → TA → List (Option A × Option F) → Nat → Bool → M × TA × List (Option A × Option F))
    (la : TA) (lo : ObsDb A F) (lm : M) (hist : List Nat) (notes : Nat) (src : Track TA M (Option A × Option F)) (nh : List Nat)
    (classes : List Nat) (st : MState TA M (Option A × Option F)) :
    List.foldl (mergeStepGen (optimizeOf cb junkO) la lo lm hist notes src.obs nh) (Sum.inr (reprSt st)) classes =
      (match mergeLoop cb src nh classes st with
       | .ok st' => Sum.inr (reprSt st')
       | .error e => Sum.inl (.error e, la, lo, lm, hist, notes)) := by
  induction classes generalizing st with
  | nil => simp [mergeLoop]
  | cons c rest ih =>
    rw [mergeLoop_cons, List.foldl_cons, mergeStep_tie]
    cases h : mergeLoop cb src nh [c] st with
    | error e => simp only []; exact foldl_inl cb junkO la lo lm hist notes src.obs nh _ rest
    | ok st' => simp only []; exact ih st'

/-- **`Track::merge` of the source is the model's `merge`**, for every family of callbacks, every class list and both flag values,
whatever a failing callback leaves behind: same result, same destination afterwards (attributes, observation table, metric,
merge history), same number of notifications -/
theorem tie_track_merge (cb : Cb TA M (Option A × Option F) U Q E) (junkA : TA → TA → TA)
    (junkO : M → Nat → List Nat → TA → List (Option A × Option F) → Nat → Bool → M × TA × List (Option A × Option F))
    (dst src : Track TA M (Option A × Option F)) (classes : List Nat) (flag : Bool) (notes : Nat) :
    let r := track_merge (mergeOf cb junkA) (optimizeOf cb junkO) dst.attrs dst.obs dst.metric dst.hist notes
      src.attrs src.obs src.hist classes flag
    let m := merge cb dst src classes flag
    m.1 = liftErr r.1 ∧
      m.2.1 = { id := dst.id, attrs := r.2.1, obs := r.2.2.1, metric := r.2.2.2.1, hist := r.2.2.2.2.1 } ∧
      r.2.2.2.2.2 = notes + m.2.2 := by
  simp only [gen_merge]
  unfold merge
  cases ha : cb.mergeA dst.attrs src.attrs with
  | error e =>
    have h1 : mergeOf cb junkA dst.attrs src.attrs = (.error e, junkA dst.attrs src.attrs) := by simp only [mergeOf, ha]
    simp only [h1, isErr, if_true, liftErr]
    trivial
  | ok a =>
    have h1 : mergeOf cb junkA dst.attrs src.attrs = (.ok (), a) := by simp only [mergeOf, ha]
    simp only [h1, isErr, Bool.false_eq_true, if_false]
    have hl := mergeLoop_tie cb junkO dst.attrs dst.obs dst.metric dst.hist notes src
      (if flag then dst.hist ++ src.hist else dst.hist) classes { attrs := a, obs := dst.obs, metric := dst.metric, any := false }
    simp only [reprSt] at hl
    rw [hl]
    cases hm : mergeLoop cb src (if flag then dst.hist ++ src.hist else dst.hist) classes
        { attrs := a, obs := dst.obs, metric := dst.metric, any := false } with
    | error e => simp [liftErr]
    | ok st => simp [liftErr, reprSt]

/-! ### `Track::distances` -/

theorem filterMap_cartProd {α β γ : Type} (f : α × β → Option γ) (l : List α) (r : List β) :
    List.filterMap f (cartProd l r) = l.flatMap (fun a => r.filterMap (fun b => f (a, b))) := by
  unfold cartProd
  induction l with
  | nil => rfl
  | cons a rest ih =>
    simp only [List.flatMap_cons, List.filterMap_append, ih, List.filterMap_map]
    rfl

/-- **`Track::distances` of the source is the model's `distances`**: incompatible attributes are an error of their own, a class
missing on either side is the missing-class error, otherwise exactly one result per pair of observations (left-major) for which
the metric yields a value -/
theorem tie_track_distances {OA : Type} (cb : Cb TA M OA U Q E) (t other : Track TA M OA) (cls : Nat) :
    track_distances (M := M) cb.compatible (fun (x : Nat × TA × OA × TA × OA) => cb.metric x.1 x.2.1 x.2.2.1 x.2.2.2.1 x.2.2.2.2)
        t.id t.attrs t.obs other.id other.attrs other.obs cls
      = distances cb t other cls := by
  unfold track_distances distances
  by_cases hc : cb.compatible t.attrs other.attrs = true
  · simp only [hc, Bool.not_true, Bool.false_eq_true, if_false, dbGet_eq_getObs]
    cases getObs t.obs cls with
    | none => rfl
    | some l =>
      cases getObs other.obs cls with
      | none => rfl
      | some r =>
        simp only [filterMap_cartProd]
        congr 1
        refine congrArg (fun f => List.flatMap f l) ?_
        funext a
        refine congrArg (fun f => List.filterMap f r) ?_
        funext b
        cases cb.metric cls t.attrs a other.attrs b <;> rfl
  · have hc' : cb.compatible t.attrs other.attrs = false := Bool.eq_false_iff.mpr hc
    simp [hc']

/-! ### `TrackBuilder::build` -/

/-- one iteration of the loop of `build` (the text of the generated fold body) -/
def buildStepGen {T A F : Type} (addObsFn : T → Nat → Option A → Option F → Option U → Except (Err E) Unit × T)
    (st : Sum (Except (Err E) T) T) (x : Nat × Option A × Option F × Option U) : Sum (Except (Err E) T) T :=
  match x with
  | (cls, oa, feat, upd) =>
    match st with
    | Sum.inl r => Sum.inl r
    | Sum.inr track =>
      match addObsFn track cls oa feat upd with
      | (r, track') =>
        match r with
        | .error e => Sum.inl (.error e)
        | .ok _ => Sum.inr track'

def buildFinish {T : Type} (s : Sum (Except (Err E) T) T) : Except (Err E) T :=
  match s with
  | Sum.inl r => r
  | Sum.inr t => .ok t

theorem foldl_ext_fn {α β : Type} (f g : β → α → β) (h : ∀ s x, f s x = g s x) (l : List α) (s : β) :
    List.foldl f s l = List.foldl g s l := by
  induction l generalizing s with
  | nil => rfl
  | cons x rest ih => rw [List.foldl_cons, List.foldl_cons, h, ih]

theorem gen_build {T N A F : Type} (newFn : Nat → M → TA → N → T) (addObsFn : T → Nat → Option A → Option F → Option U → Except (Err E) Unit × T)
    (id : Nat) (m : M) (a : TA) (nt : N) (obs : List (Nat × Option A × Option F × Option U)) :
    track_build newFn addObsFn id m a nt obs = buildFinish (List.foldl (buildStepGen addObsFn) (Sum.inr (newFn id m a nt)) obs) := by
  unfold track_build
  simp only []
  rw [foldl_ext_fn _ (buildStepGen addObsFn) (by
    intro s x
    obtain ⟨c, oa, f, u⟩ := x
    cases s with
    | inl r => rfl
    | inr t =>
      simp only [buildStepGen]
      cases h : addObsFn t c oa f u with
      | mk r t' => cases r <;> rfl)]
  generalize List.foldl (buildStepGen addObsFn) (Sum.inr (newFn id m a nt)) obs = s
  cases s <;> rfl

/-- the loop of `build` is the model's `buildLoop` (an observation that is refused ends the build with that error) -/
theorem build_fold {OA : Type} (cb : Cb TA M OA U Q E) {A F : Type} (obsOf : Option A → Option F → Option OA)
    (obs : List (Nat × Option A × Option F × Option U)) (t : Track TA M OA) (n : Nat) :
    buildFinish (List.foldl (buildStepGen (fun t c oa f u => ((addObservation cb t c (obsOf oa f) u).1, (addObservation cb t c (obsOf oa f) u).2.1)))
        (Sum.inr t) obs) = (buildLoop cb t n (obs.map (fun x => (x.1, obsOf x.2.1 x.2.2.1, x.2.2.2)))).1 := by
  induction obs generalizing t n with
  | nil => rfl
  | cons x rest ih =>
    obtain ⟨c, oa, f, u⟩ := x
    rw [List.foldl_cons]
    simp only [List.map_cons, buildLoop, buildStepGen]
    cases ha : addObservation cb t c (obsOf oa f) u with
    | mk r rest2 =>
      obtain ⟨t', k⟩ := rest2
      cases r with
      | error e =>
        simp only []
        have hinl : ∀ l : List (Nat × Option A × Option F × Option U),
            List.foldl (buildStepGen (fun t c oa f u => ((addObservation cb t c (obsOf oa f) u).1, (addObservation cb t c (obsOf oa f) u).2.1)))
              (Sum.inl (Except.error e)) l = Sum.inl (Except.error e) := by
          intro l; induction l with
          | nil => rfl
          | cons y ys ihy => obtain ⟨c', oa', f', u'⟩ := y; rw [List.foldl_cons]; exact ihy
        rw [hinl]; rfl
      | ok u => cases u; simp only []; exact ih t' (n + k)

/-- **`TrackBuilder::build` of the source is the model's `build`**: a fresh track, then every queued observation through
`add_observation`, stopping at the first refusal -/
theorem tie_track_build {OA N : Type} (cb : Cb TA M OA U Q E) {A F : Type} (obsOf : Option A → Option F → Option OA)
    (id : Nat) (m : M) (a : TA) (nt : N) (obs : List (Nat × Option A × Option F × Option U)) :
    track_build (fun id m a (_ : N) => (Track.new (OA := OA) id m a).1)
        (fun t c oa f u => ((addObservation cb t c (obsOf oa f) u).1, (addObservation cb t c (obsOf oa f) u).2.1)) id m a nt obs
      = (build cb id m a (obs.map (fun x => (x.1, obsOf x.2.1 x.2.2.1, x.2.2.2)))).1 := by
  rw [gen_build]
  unfold build
  exact build_fold cb obsOf obs _ _

/-- non-vacuity: a failing optimisation after a successful attribute update; the source's answer is the error and the
track as it was, although the callbacks left other values behind -/
example : track_add_observation (U := Nat) (fun u (a : Nat) => (Except.ok (), a + u))
    (fun (m : Nat) _ _ (a : Nat) (l : List (Option Nat × Option Nat)) _ _ => ((Except.error "no" : Except String Unit), m + 1, a + 100, l ++ l))
    5 [(0, [(some 1, none)])] 7 [1] 0 0 (some 2) none (some 3)
    = (Except.error "no", 5, [(0, [(some 1, none)])], 7, 0) := by rfl

end SimVerif.Tie
