import SimVerif.Gen.LSortVoting
import SimVerif.Lemmas.Assign
import SimVerif.Tie.Epoch
import Mathlib.Data.List.Nodup
import Mathlib.Tactic.SplitIfs
/-!
# Tie (DESIGN.md 14.11): `SortVoting::winners` as the Rust source has it now
(`SimVerif.Gen.L.sort_voting_winners`, regenerated on every run: the early return for an empty store, `tracks_index.resize`, the loop
over the stream with its two get-or-insert closures (`unwrap_or_else` with side effects) building the row / column indices and
writing the quantised weights through `get_mut`, the loop that puts the threshold on the diagonal, `kuhn_munkres` — a parameter —
and the decode through `tracks_index`).

Proved here: the matrix handed to the solver **is** the matrix `Assign.M thr W` of `Lemmas/Assign.lean` (own column worth the
threshold, the other candidates' own columns 0, track columns the weights of the stream), rows = candidates in first-appearance
order, track columns = tracks in first-appearance order; and the index vector decodes rows and columns back to those ids. The
theorems `C02_decode`, `C02_optimal`, `C17_hungarian` are about exactly that matrix, for every optimal solution the solver may return.
-/
set_option linter.unusedVariables false
namespace SimVerif.Tie
open SimVerif.Gen.L

/-- the state of the first loop: candidates seen, index vector, reverse index, cost matrix -/
abbrev CS := Nat × VecN × List (Nat × Nat) × (Nat → Nat → Int)

/-- one iteration of the first loop (the text of the generated fold body, normalised) -/
def svStep (quant : Rat → Int) (mult : Rat) (st : CS) (d : SD) : CS :=
  match st, d with
  | (candidates_index, tracks_index, tracks_r_index, cost_matrix), ⟨from_, to_, attribute_metric⟩ =>
    let weight := quant (attribute_metric.getD 0 * mult)
    match mapGet tracks_r_index from_ with
    | some row =>
      (match mapGet tracks_r_index to_ with
       | some col => (candidates_index, tracks_index, tracks_r_index, matSet cost_matrix (row, col) weight)
       | none => (candidates_index, vecPush tracks_index to_, mapSet tracks_r_index to_ (vecLen tracks_index),
                  matSet cost_matrix (row, vecLen tracks_index) weight))
    | none =>
      let row := candidates_index
      let tracks_index1 := vecSet tracks_index row from_
      let tracks_r_index1 := mapSet tracks_r_index from_ row
      (match mapGet tracks_r_index1 to_ with
       | some col => (candidates_index + 1, tracks_index1, tracks_r_index1, matSet cost_matrix (row, col) weight)
       | none => (candidates_index + 1, vecPush tracks_index1 to_, mapSet tracks_r_index1 to_ (vecLen tracks_index1),
                  matSet cost_matrix (row, vecLen tracks_index1) weight))

/-- the generated function is: nothing for an empty store; otherwise the fold of `svStep`, the diagonal loop (which carries the
whole state along), the solver, the decode -/
theorem gen_sort_voting0 (quant : Rat → Int) (mult : Rat) (km : (Nat → Nat → Int) → Int × List Nat) (thr : Int) (cn tn : Nat) (ds : List SD) :
    sort_voting_winners quant mult km thr cn tn ds =
      (if tn = 0 then [] else
        let st := List.foldl (svStep quant mult) (0, vecResize vecEmpty cn 0, [], fun _ _ => 0) ds
        let st2 := List.foldl (fun (x : CS) i => (x.1, x.2.1, x.2.2.1, matSet x.2.2.2 (i, i) thr)) st (List.range' 0 cn)
        (enumerateL (km st2.2.2.2).2).filterMap (fun (p : Nat × Nat) =>
          if decide (vecGet st2.2.1 p.1 > 0) && decide (vecGet st2.2.1 p.2 > 0) then some (vecGet st2.2.1 p.1, [vecGet st2.2.1 p.2]) else none)) := by
  unfold sort_voting_winners
  by_cases h : tn = 0
  · simp [h]
  · rw [if_neg h, if_neg (by simpa using h)]
    rfl

theorem fold4 (thr : Int) (l : List Nat) (c : CS) :
    List.foldl (fun (x : CS) i => (x.1, x.2.1, x.2.2.1, matSet x.2.2.2 (i, i) thr)) c l =
      (c.1, c.2.1, c.2.2.1, List.foldl (fun (m : Nat → Nat → Int) i => matSet m (i, i) thr) c.2.2.2 l) := by
  induction l generalizing c with
  | nil => rfl
  | cons i rest ih => rw [List.foldl_cons, ih]; rfl

theorem gen_sort_voting (quant : Rat → Int) (mult : Rat) (km : (Nat → Nat → Int) → Int × List Nat) (thr : Int) (cn tn : Nat) (ds : List SD) :
    sort_voting_winners quant mult km thr cn tn ds =
      (if tn = 0 then [] else
        let st := List.foldl (svStep quant mult) (0, vecResize vecEmpty cn 0, [], fun _ _ => 0) ds
        let m2 := List.foldl (fun (m : Nat → Nat → Int) i => matSet m (i, i) thr) st.2.2.2 (List.range' 0 cn)
        (enumerateL (km m2).2).filterMap (fun (p : Nat × Nat) =>
          if decide (vecGet st.2.1 p.1 > 0) && decide (vecGet st.2.1 p.2 > 0) then some (vecGet st.2.1 p.1, [vecGet st.2.1 p.2]) else none)) := by
  rw [gen_sort_voting0]
  simp only [fold4]

/-! ### the index structure: candidates, then a gap up to `candidate_num`, then tracks -/

/-- what the loop has built, in terms of ids: candidates and tracks in first-appearance order, weights by (candidate id, track id) -/
structure AS where
  qs : List Nat
  ts : List Nat
  W : Nat → Nat → Int

/-- the concrete state represents the abstract one -/
structure Rel (cn : Nat) (c : CS) (a : AS) : Prop where
  ci : c.1 = a.qs.length
  le : a.qs.length ≤ cn
  len : c.2.1.1 = cn + a.ts.length
  cand : ∀ i, i < a.qs.length → c.2.1.2 i = a.qs.getD i 0
  gap : ∀ i, a.qs.length ≤ i → i < cn → c.2.1.2 i = 0
  trk : ∀ k, k < a.ts.length → c.2.1.2 (cn + k) = a.ts.getD k 0
  ridx : ∀ id, mapGet c.2.2.1 id = if id ∈ a.qs then some (a.qs.idxOf id) else if id ∈ a.ts then some (cn + a.ts.idxOf id) else none
  mat : ∀ i j, c.2.2.2 i j = if i < a.qs.length ∧ cn ≤ j ∧ j < cn + a.ts.length then a.W (a.qs.getD i 0) (a.ts.getD (j - cn) 0) else 0
  wz : ∀ x y, (x ∉ a.qs ∨ y ∉ a.ts) → a.W x y = 0
  ndq : a.qs.Nodup
  ndt : a.ts.Nodup
  disj : ∀ x, x ∈ a.qs → x ∉ a.ts

theorem getD_snoc_lt (l : List Nat) (x i : Nat) (h : i < l.length) : (l ++ [x]).getD i 0 = l.getD i 0 := by
  simp [List.getD_eq_getElem?_getD, List.getElem?_append_left h]
theorem getD_snoc_eq (l : List Nat) (x : Nat) : (l ++ [x]).getD l.length 0 = x := by
  simp [List.getD_eq_getElem?_getD]
theorem getD_idxOf (l : List Nat) (y : Nat) (h : y ∈ l) : l.getD (l.idxOf y) 0 = y := by
  have hlt := List.idxOf_lt_length_iff.mpr h
  simp [List.getD_eq_getElem?_getD, List.getElem?_eq_getElem hlt]
theorem idxOf_getD (l : List Nat) (hn : l.Nodup) (i : Nat) (h : i < l.length) : l.idxOf (l.getD i 0) = i := by
  have : l.getD i 0 = l[i] := by simp [List.getD_eq_getElem?_getD, List.getElem?_eq_getElem h]
  rw [this]; exact hn.idxOf_getElem i h
theorem getD_mem (l : List Nat) (i : Nat) (h : i < l.length) : l.getD i 0 ∈ l := by
  have : l.getD i 0 = l[i] := by simp [List.getD_eq_getElem?_getD, List.getElem?_eq_getElem h]
  rw [this]; exact List.getElem_mem h
theorem idxOf_snoc_self (l : List Nat) (x : Nat) (h : x ∉ l) : (l ++ [x]).idxOf x = l.length := by
  rw [List.idxOf_append_of_notMem h]; simp
theorem idxOf_snoc_mem (l : List Nat) (x y : Nat) (h : y ∈ l) : (l ++ [x]).idxOf y = l.idxOf y :=
  List.idxOf_append_of_mem h

/-- registering the candidate of a stream element -/
def regC (c : CS) (f : Nat) : Nat × CS :=
  match mapGet c.2.2.1 f with
  | some row => (row, c)
  | none => (c.1, (c.1 + 1, vecSet c.2.1 c.1 f, mapSet c.2.2.1 f c.1, c.2.2.2))

/-- registering its track -/
def regT (c : CS) (t : Nat) : Nat × CS :=
  match mapGet c.2.2.1 t with
  | some col => (col, c)
  | none => (vecLen c.2.1, (c.1, vecPush c.2.1 t, mapSet c.2.2.1 t (vecLen c.2.1), c.2.2.2))

theorem svStep_eq (quant : Rat → Int) (mult : Rat) (c : CS) (d : SD) :
    svStep quant mult c d =
      (let rc := regC c d.frm
       let rt := regT rc.2 d.to
       (rt.2.1, rt.2.2.1, rt.2.2.2.1, matSet rt.2.2.2.2 (rc.1, rt.1) (quant (d.attr.getD 0 * mult)))) := by
  obtain ⟨ci, ti, r, m⟩ := c
  obtain ⟨f, t, a⟩ := d
  simp only [svStep, regC, regT]
  cases h1 : mapGet r f with
  | some row => simp only []; cases h2 : mapGet r t <;> rfl
  | none => simp only []; cases h2 : mapGet (mapSet r f ci) t <;> rfl

theorem regC_rel (cn : Nat) (c : CS) (a : AS) (h : Rel cn c a) (f : Nat) (hft : f ∉ a.ts)
    (hcap : (if f ∈ a.qs then a.qs else a.qs ++ [f]).length ≤ cn) :
    Rel cn (regC c f).2 { a with qs := if f ∈ a.qs then a.qs else a.qs ++ [f] } ∧
    (regC c f).1 = (if f ∈ a.qs then a.qs else a.qs ++ [f]).idxOf f := by
  obtain ⟨ci, ti, r, m⟩ := c
  have hr := h.ridx f
  by_cases hf : f ∈ a.qs
  · simp only [hf, if_true] at hr ⊢
    simp only [regC, hr]
    exact ⟨h, trivial⟩
  · simp only [hf, if_false, hft] at hr hcap ⊢
    simp only [regC, hr]
    have hci : ci = a.qs.length := h.ci
    have hlt : a.qs.length < cn := by simp at hcap; omega
    refine ⟨?_, by rw [idxOf_snoc_self _ _ hf]; exact hci⟩
    subst hci
    constructor
    · simp
    · exact hcap
    · exact h.len
    · intro i hi
      simp only [List.length_append, List.length_singleton] at hi
      simp only [vecSet]
      by_cases he : i = a.qs.length
      · subst he; simp [getD_snoc_eq]
      · have hi' : i < a.qs.length := by omega
        simp only [he, if_false]
        rw [getD_snoc_lt _ _ _ hi']; exact h.cand i hi'
    · intro i hi hic
      simp only [List.length_append, List.length_singleton] at hi
      simp only [vecSet]
      have : i ≠ a.qs.length := by omega
      simp only [this, if_false]
      exact h.gap i (by omega) hic
    · intro k hk
      simp only [vecSet]
      have : cn + k ≠ a.qs.length := by omega
      simp only [this, if_false]
      exact h.trk k hk
    · intro id
      simp only [mapGet_mapSet, List.mem_append, List.mem_singleton]
      by_cases hid : id = f
      · subst hid; simp [idxOf_snoc_self _ _ hf]
      · simp only [hid, if_false, or_false]
        rw [h.ridx id]
        by_cases hq : id ∈ a.qs
        · simp [hq, idxOf_snoc_mem _ _ _ hq]
        · simp [hq]
    · intro i j
      rw [h.mat i j]
      simp only [List.length_append, List.length_singleton]
      by_cases hr1 : cn ≤ j ∧ j < cn + a.ts.length
      · by_cases hi : i < a.qs.length
        · have : i < a.qs.length + 1 := by omega
          simp [hi, hr1, this, getD_snoc_lt _ _ _ hi]
        · by_cases he : i = a.qs.length
          · subst he
            simp only [hi, false_and, if_false, Nat.lt_succ_self, true_and, hr1, and_self, if_true, getD_snoc_eq]
            exact (h.wz f _ (Or.inl hf)).symm
          · have : ¬ i < a.qs.length + 1 := by omega
            simp [hi, this]
      · have h1 : ¬ (i < a.qs.length ∧ cn ≤ j ∧ j < cn + a.ts.length) := fun hh => hr1 hh.2
        have h2 : ¬ (i < a.qs.length + 1 ∧ cn ≤ j ∧ j < cn + a.ts.length) := fun hh => hr1 hh.2
        simp [h1, h2]
    · intro x y hxy
      apply h.wz
      rcases hxy with hx | hy
      · left; intro hh; exact hx (List.mem_append_left _ hh)
      · right; exact hy
    · exact List.nodup_append.mpr ⟨h.ndq, List.nodup_singleton f, by intro x hx y hy; simp at hy; subst hy; intro hxy; exact hf (hxy ▸ hx)⟩
    · exact h.ndt
    · intro x hx
      simp only [List.mem_append, List.mem_singleton] at hx
      rcases hx with hx | hx
      · exact h.disj x hx
      · subst hx; exact hft

theorem regT_rel (cn : Nat) (c : CS) (a : AS) (h : Rel cn c a) (t : Nat) (htq : t ∉ a.qs) :
    Rel cn (regT c t).2 { a with ts := if t ∈ a.ts then a.ts else a.ts ++ [t] } ∧
    (regT c t).1 = cn + (if t ∈ a.ts then a.ts else a.ts ++ [t]).idxOf t ∧ (regT c t).2.1 = c.1 := by
  obtain ⟨ci, ti, r, m⟩ := c
  have hr := h.ridx t
  by_cases ht : t ∈ a.ts
  · simp only [htq, if_false, ht, if_true] at hr ⊢
    simp only [regT, hr]
    exact ⟨h, trivial, trivial⟩
  · simp only [htq, ht, if_false] at hr ⊢
    simp only [regT, hr]
    have hlen : ti.1 = cn + a.ts.length := h.len
    refine ⟨?_, by rw [idxOf_snoc_self _ _ ht]; exact hlen, trivial⟩
    constructor
    · exact h.ci
    · exact h.le
    · simp only [vecPush, List.length_append, List.length_singleton]; omega
    · intro i hi
      have hi' : i < a.qs.length := hi
      simp only [vecPush]
      have : i ≠ ti.1 := by have := h.le; omega
      simp only [this, if_false]
      exact h.cand i hi'
    · intro i hi hic
      simp only [vecPush]
      have : i ≠ ti.1 := by omega
      simp only [this, if_false]
      exact h.gap i hi hic
    · intro k hk
      simp only [List.length_append, List.length_singleton] at hk
      simp only [vecPush]
      by_cases he : k = a.ts.length
      · subst he
        simp only [hlen, if_true, getD_snoc_eq]
      · have hk' : k < a.ts.length := by omega
        have : cn + k ≠ ti.1 := by omega
        simp only [this, if_false]
        rw [getD_snoc_lt _ _ _ hk']; exact h.trk k hk'
    · intro id
      simp only [mapGet_mapSet, vecLen, List.mem_append, List.mem_singleton]
      by_cases hid : id = t
      · subst hid; simp [htq, idxOf_snoc_self _ _ ht, hlen]
      · simp only [hid, if_false, or_false]
        rw [h.ridx id]
        by_cases hq : id ∈ a.qs
        · simp [hq]
        · by_cases hts : id ∈ a.ts
          · simp [hq, hts, idxOf_snoc_mem _ _ _ hts]
          · simp [hq, hts]
    · intro i j
      rw [h.mat i j]
      simp only [List.length_append, List.length_singleton]
      by_cases hi : i < a.qs.length
      · by_cases hj : cn ≤ j ∧ j < cn + a.ts.length
        · have h2 : j < cn + (a.ts.length + 1) := by omega
          have h3 : j - cn < a.ts.length := by omega
          have e := getD_snoc_lt a.ts t (j - cn) h3
          simp only [hi, hj, h2, true_and, and_self, if_true, e]
        · by_cases he : j = cn + a.ts.length
          · subst he
            have h4 : cn + a.ts.length - cn = a.ts.length := by omega
            have h5 : cn + a.ts.length < cn + (a.ts.length + 1) := by omega
            have h6 : ¬ (cn + a.ts.length < cn + a.ts.length) := by omega
            simp only [hi, true_and, Nat.le_add_right, h6, and_false, if_false, h5, and_self, if_true, h4, getD_snoc_eq]
            exact (h.wz _ t (Or.inr ht)).symm
          · have h2 : ¬ (cn ≤ j ∧ j < cn + (a.ts.length + 1)) := by omega
            simp [hi, hj, h2]
      · simp [hi]
    · intro x y hxy
      apply h.wz
      rcases hxy with hx | hy
      · left; exact hx
      · right; intro hh; exact hy (List.mem_append_left _ hh)
    · exact h.ndq
    · exact List.nodup_append.mpr ⟨h.ndt, List.nodup_singleton t, by intro x hx y hy; simp at hy; subst hy; intro hxy; exact ht (hxy ▸ hx)⟩
    · intro x hx
      simp only [List.mem_append, List.mem_singleton]
      intro hh
      rcases hh with hh | hh
      · exact h.disj x hx hh
      · subst hh; exact htq hx

theorem write_rel (cn : Nat) (c : CS) (a : AS) (h : Rel cn c a) (f t : Nat) (w : Int) (hf : f ∈ a.qs) (ht : t ∈ a.ts) :
    Rel cn (c.1, c.2.1, c.2.2.1, matSet c.2.2.2 (a.qs.idxOf f, cn + a.ts.idxOf t) w)
      { a with W := fun x y => if x = f ∧ y = t then w else a.W x y } := by
  obtain ⟨ci, ti, r, m⟩ := c
  constructor
  · exact h.ci
  · exact h.le
  · exact h.len
  · exact h.cand
  · exact h.gap
  · exact h.trk
  · exact h.ridx
  · intro i j
    simp only [matSet]
    have hm : m i j = _ := h.mat i j
    rw [hm]
    have hfi := List.idxOf_lt_length_iff.mpr hf
    have hti := List.idxOf_lt_length_iff.mpr ht
    by_cases hr : i < a.qs.length ∧ cn ≤ j ∧ j < cn + a.ts.length
    · obtain ⟨h1, h2, h3⟩ := hr
      have h4 : j - cn < a.ts.length := by omega
      simp only [h1, h2, h3, and_self, if_true]
      by_cases hij : i = a.qs.idxOf f ∧ j = cn + a.ts.idxOf t
      · obtain ⟨e1, e2⟩ := hij
        have e3 : j - cn = a.ts.idxOf t := by omega
        have g1 : a.qs.getD i 0 = f := by rw [e1]; exact getD_idxOf _ _ hf
        have g2 : a.ts.getD (j - cn) 0 = t := by rw [e3]; exact getD_idxOf _ _ ht
        rw [g1, g2]
        simp [e1, e2]
      · have : ¬ (a.qs.getD i 0 = f ∧ a.ts.getD (j - cn) 0 = t) := by
          rintro ⟨g1, g2⟩
          apply hij
          constructor
          · rw [← g1, idxOf_getD _ h.ndq _ h1]
          · rw [← g2, idxOf_getD _ h.ndt _ h4]; omega
        simp only [hij, if_false, this]
    · have hne : ¬ (i = a.qs.idxOf f ∧ j = cn + a.ts.idxOf t) := by
        rintro ⟨e1, e2⟩; apply hr; subst e1; subst e2; exact ⟨hfi, by omega, by omega⟩
      simp only [hne, if_false, hr]
  · intro x y hxy
    have : ¬ (x = f ∧ y = t) := by
      rintro ⟨e1, e2⟩; subst e1; subst e2
      rcases hxy with hx | hy
      · exact hx hf
      · exact hy ht
    simp only [this, if_false]
    exact h.wz x y hxy
  · exact h.ndq
  · exact h.ndt
  · exact h.disj

/-- the abstract effect of one stream element -/
def absStep (quant : Rat → Int) (mult : Rat) (a : AS) (d : SD) : AS :=
  { qs := if d.frm ∈ a.qs then a.qs else a.qs ++ [d.frm],
    ts := if d.to ∈ a.ts then a.ts else a.ts ++ [d.to],
    W := fun x y => if x = d.frm ∧ y = d.to then quant (d.attr.getD 0 * mult) else a.W x y }

/-- the stream is well-formed for `candidate_num`: candidate ids and track ids are kept apart (the trackers draw candidate ids at
random, track ids come from the store) and there are at most `candidate_num` distinct candidates (`SortVoting::new` is given
their number) — otherwise the source indexes out of bounds / mixes the two index ranges -/
def okRun (quant : Rat → Int) (mult : Rat) (cn : Nat) : AS → List SD → Prop
  | _, [] => True
  | a, d :: rest =>
    d.frm ∉ a.ts ∧ d.to ∉ a.qs ∧ d.frm ≠ d.to ∧ (if d.frm ∈ a.qs then a.qs else a.qs ++ [d.frm]).length ≤ cn ∧
    okRun quant mult cn (absStep quant mult a d) rest

theorem step_rel (quant : Rat → Int) (mult : Rat) (cn : Nat) (c : CS) (a : AS) (h : Rel cn c a) (d : SD)
    (h1 : d.frm ∉ a.ts) (h2 : d.to ∉ a.qs) (h3 : d.frm ≠ d.to)
    (h4 : (if d.frm ∈ a.qs then a.qs else a.qs ++ [d.frm]).length ≤ cn) :
    Rel cn (svStep quant mult c d) (absStep quant mult a d) := by
  rw [svStep_eq]
  obtain ⟨hc, hrow⟩ := regC_rel cn c a h d.frm h1 h4
  have htq : d.to ∉ (if d.frm ∈ a.qs then a.qs else a.qs ++ [d.frm]) := by
    by_cases hf : d.frm ∈ a.qs
    · simpa [hf] using h2
    · simp only [hf, if_false, List.mem_append, List.mem_singleton, not_or]; exact ⟨h2, fun e => h3 e.symm⟩
  obtain ⟨ht, hcol, hci⟩ := regT_rel cn (regC c d.frm).2 _ hc d.to htq
  have hfm : d.frm ∈ (if d.frm ∈ a.qs then a.qs else a.qs ++ [d.frm]) := by
    by_cases hf : d.frm ∈ a.qs <;> simp [hf]
  have htm : d.to ∈ (if d.to ∈ a.ts then a.ts else a.ts ++ [d.to]) := by
    by_cases hf : d.to ∈ a.ts <;> simp [hf]
  have hw := write_rel cn (regT (regC c d.frm).2 d.to).2 _ ht d.frm d.to (quant (d.attr.getD 0 * mult)) hfm htm
  simp only [hrow, hcol]
  exact hw

theorem run_rel (quant : Rat → Int) (mult : Rat) (cn : Nat) (ds : List SD) (c : CS) (a : AS) (h : Rel cn c a)
    (hok : okRun quant mult cn a ds) :
    Rel cn (List.foldl (svStep quant mult) c ds) (List.foldl (absStep quant mult) a ds) := by
  induction ds generalizing c a with
  | nil => exact h
  | cons d rest ih =>
    obtain ⟨h1, h2, h3, h4, h5⟩ := hok
    exact ih _ _ (step_rel quant mult cn c a h d h1 h2 h3 h4) h5

theorem init_rel (cn : Nat) : Rel cn (0, vecResize vecEmpty cn 0, [], fun _ _ => 0) ⟨[], [], fun _ _ => 0⟩ := by
  constructor <;> simp [vecResize, vecEmpty, mapGet]

/-- the second loop puts the threshold on the diagonal of the candidate rows -/
theorem diag_fold (thr : Int) (m : Nat → Nat → Int) (n : Nat) (i j : Nat) :
    List.foldl (fun (m : Nat → Nat → Int) k => matSet m (k, k) thr) m (List.range' 0 n) i j =
      if i = j ∧ i < n then thr else m i j := by
  induction n generalizing m with
  | zero => simp
  | succ n ih =>
    rw [List.range'_concat, List.foldl_append]
    simp only [List.foldl_cons, List.foldl_nil, matSet, Nat.zero_add, Nat.one_mul]
    rw [ih]
    by_cases hij : i = j
    · subst hij
      by_cases hn : i = n
      · subst hn; simp
      · by_cases hl : i < n
        · have : i < n + 1 := by omega
          simp [hn, hl, this]
        · have : ¬ i < n + 1 := by omega
          simp [hn, hl, this]
    · have h1 : ¬ (i = n ∧ j = n) := by rintro ⟨e1, e2⟩; exact hij (e1.trans e2.symm)
      simp [hij, h1]

/-! ### the matrix handed to the solver, and the decode -/

/-- what the stream amounts to: candidates and tracks in first-appearance order, last weight written for every pair -/
def absRun (quant : Rat → Int) (mult : Rat) (ds : List SD) : AS := List.foldl (absStep quant mult) ⟨[], [], fun _ _ => 0⟩ ds

/-- the weights by row and track column -/
def Wfin (a : AS) (cn : Nat) (i : Fin cn) (k : Fin a.ts.length) : Int :=
  if i.val < a.qs.length then a.W (a.qs.getD i.val 0) (a.ts.getD k.val 0) else 0

/-- storage column of a column of `Assign.M` -/
def colIdx (cn : Nat) {t : Nat} : Assign.Col cn t → Nat
  | .inl j => j.val
  | .inr k => cn + k.val

/-- the cost matrix the source builds (first loop, then the diagonal loop) -/
def svMatrix (quant : Rat → Int) (mult : Rat) (thr : Int) (cn : Nat) (ds : List SD) : Nat → Nat → Int :=
  List.foldl (fun (m : Nat → Nat → Int) i => matSet m (i, i) thr)
    (List.foldl (svStep quant mult) (0, vecResize vecEmpty cn 0, [], fun _ _ => 0) ds).2.2.2 (List.range' 0 cn)

/-- **the matrix `kuhn_munkres` is given is `Assign.M thr W`**: a candidate's own column is worth the threshold, the other
candidates' own columns 0, the track columns the quantised weights of the stream (rows and track columns in first-appearance
order) — the matrix of `C02_decode`, `C02_optimal`, `C17_hungarian` -/
theorem tie_sort_voting_matrix (quant : Rat → Int) (mult : Rat) (thr : Int) (cn : Nat) (ds : List SD)
    (hok : okRun quant mult cn ⟨[], [], fun _ _ => 0⟩ ds) (i : Fin cn) (x : Assign.Col cn (absRun quant mult ds).ts.length) :
    svMatrix quant mult thr cn ds i.val (colIdx cn x) = Assign.M thr (Wfin (absRun quant mult ds) cn) i x := by
  have hrel := run_rel quant mult cn ds _ _ (init_rel cn) hok
  unfold svMatrix
  rw [diag_fold]
  have hm := hrel.mat
  cases x with
  | inl j =>
    simp only [colIdx, Assign.M]
    by_cases hij : i = j
    · subst hij; simp [i.isLt]
    · have hne : ¬ i.val = j.val := fun h => hij (Fin.ext h)
      simp only [hne, false_and, if_false, hij]
      rw [hm]
      have : ¬ (cn ≤ j.val) := by have := j.isLt; omega
      simp [this]
  | inr k =>
    simp only [colIdx, Assign.M, Wfin]
    have hne : ¬ (i.val = cn + k.val) := by have := i.isLt; omega
    simp only [hne, false_and, if_false]
    rw [hm]
    have h1 : cn ≤ cn + k.val := by omega
    have h2 : cn + k.val < cn + (absRun quant mult ds).ts.length := by have := k.isLt; omega
    have h3 : cn + k.val - cn = k.val := by omega
    by_cases hi : i.val < (absRun quant mult ds).qs.length
    · simp only [absRun] at hi h2 ⊢
      simp [hi, h1, h2, h3]
    · simp only [absRun] at hi ⊢
      simp [hi]

/-- **the decode**: row `i` is candidate `qs[i]` (0 for an unused row), track column `k` is track `ts[k]` -/
theorem tie_sort_voting_index (quant : Rat → Int) (mult : Rat) (cn : Nat) (ds : List SD)
    (hok : okRun quant mult cn ⟨[], [], fun _ _ => 0⟩ ds) :
    let ti := (List.foldl (svStep quant mult) (0, vecResize vecEmpty cn 0, [], fun _ _ => 0) ds).2.1
    let a := absRun quant mult ds
    (∀ i, i < cn → vecGet ti i = if i < a.qs.length then a.qs.getD i 0 else 0) ∧
    (∀ k, k < a.ts.length → vecGet ti (cn + k) = a.ts.getD k 0) ∧ a.qs.Nodup ∧ a.ts.Nodup := by
  intro ti a
  have hrel := run_rel quant mult cn ds _ _ (init_rel cn) hok
  refine ⟨?_, hrel.trk, hrel.ndq, hrel.ndt⟩
  intro i hi
  by_cases h : i < a.qs.length
  · simp only [h, if_true]; exact hrel.cand i h
  · simp only [h, if_false]; exact hrel.gap i (Nat.le_of_not_lt h) hi

/-- an empty store: no association at all (every detection starts a track) -/
theorem tie_sort_voting_empty (quant : Rat → Int) (mult : Rat) (km : (Nat → Nat → Int) → Int × List Nat) (thr : Int) (cn : Nat) (ds : List SD) :
    sort_voting_winners quant mult km thr cn 0 ds = [] := by
  rw [gen_sort_voting]; simp

/-- **`SortVoting::winners` of the source**: the solver is run on `svMatrix` (= `Assign.M`, above) and its solution `row ↦ column`
is decoded through the index vector; pairs with a zero id (unused rows) are dropped -/
theorem tie_sort_voting_winners (quant : Rat → Int) (mult : Rat) (km : (Nat → Nat → Int) → Int × List Nat) (thr : Int) (cn tn : Nat)
    (ds : List SD) (htn : tn ≠ 0) :
    sort_voting_winners quant mult km thr cn tn ds =
      (let ti := (List.foldl (svStep quant mult) (0, vecResize vecEmpty cn 0, [], fun _ _ => 0) ds).2.1
       (enumerateL (km (svMatrix quant mult thr cn ds)).2).filterMap (fun (p : Nat × Nat) =>
          if decide (vecGet ti p.1 > 0) && decide (vecGet ti p.2 > 0) then some (vecGet ti p.1, [vecGet ti p.2]) else none)) := by
  rw [gen_sort_voting]
  simp only [htn, if_false]
  rfl

/-- non-vacuity: a two-candidate, two-track stream is well-formed for `candidate_num = 2` -/
example : okRun (fun _ => 1) 1 2 ⟨[], [], fun _ _ => 0⟩ [⟨101, 7, some 5⟩, ⟨102, 7, some 3⟩, ⟨101, 8, some 4⟩] := by
  simp [okRun, absStep]

end SimVerif.Tie
