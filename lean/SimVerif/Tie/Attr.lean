import SimVerif.Gen.LAttr
import SimVerif.Model.Tracker
/-!
# Tie (DESIGN.md 14.8): the attribute bookkeeping of the trackers as the Rust source has it now
(`SimVerif.Gen.L.*`, regenerated on every run from `&mut self` methods by the state-passing translation) =
the tracker model: `update_history` of `SortAttributes` / `VisualAttributes` is the model's `pushBounded` on every
bounded history plus `len + 1` (C13: the most recent `min(length, history)` entries in arrival order; C01: the
reported length), `merge` takes the candidate's epoch, custom object id (and voting type) — what `applyPick`
does for a continued track (C01 echo of the custom id, C12 truthful voting type, C03 last-update epoch) —
and the attribute update sets epoch, scene and custom id of a new candidate.
-/
namespace SimVerif.Tie
open SimVerif.Gen.L SimVerif.Tracker

theorem tie_sort_update_history (hl len : Nat) (obs pred : List Nat) (ob pb : Nat) (h : obs.length = pred.length) :
    sort_update_history hl len obs pred ob pb = (len + 1, pushBounded obs ob hl, pushBounded pred pb hl) := by
  unfold sort_update_history pushBounded
  simp only [List.length_append, List.length_cons, List.length_nil, h]
  by_cases hc : (decide (hl > 0) && decide (pred.length + (0 + 1) > hl)) = true
  · simp [hc]
  · simp [hc]

theorem tie_visual_update_history (hl len : Nat) (obs pred feats : List Nat) (ob pb f : Nat)
    (h1 : obs.length = pred.length) (h2 : obs.length = feats.length) :
    visual_update_history hl len obs pred feats ob pb f =
      (len + 1, pushBounded obs ob hl, pushBounded pred pb hl, pushBounded feats f hl) := by
  unfold visual_update_history pushBounded
  have h3 : pred.length = feats.length := h1 ▸ h2
  simp only [List.length_append, List.length_cons, List.length_nil, h1, h3]
  by_cases hc : (decide (hl > 0) && decide (feats.length + (0 + 1) > hl)) = true
  · simp [hc]
  · simp [hc]

/-- `merge` of `SortAttributes`: the continued track takes the candidate's epoch and custom object id -/
theorem tie_sort_merge {ι : Type} (e : Nat) (c : ι) (e' : Nat) (c' : ι) : sort_merge e c e' c' = (e', c') := rfl

/-- `merge` of `VisualAttributes`: … and the candidate's voting type -/
theorem tie_visual_merge {ι ν : Type} (e : Nat) (c : ι) (v : ν) (e' : Nat) (c' : ι) (v' : ν) :
    visual_merge e c v e' c' v' = (e', c', v') := rfl

/-- the attribute update of a candidate sets its epoch, scene and custom object id -/
theorem tie_sort_apply_update {ι : Type} (e s : Nat) (c : ι) (e' s' : Nat) (c' : ι) :
    sort_apply_update e s c e' s' c' = (e', s', c') := rfl

end SimVerif.Tie
