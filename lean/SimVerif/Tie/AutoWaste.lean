import SimVerif.Gen.LAutoWaste
import SimVerif.Model.Tracker
/-!
# Tie (DESIGN.md 14.11): the periodic collection countdown at the head of every `predict`
(`if self.auto_waste.counter == 0 { self.auto_waste(); counter = periodicity } else { counter -= 1 }` of the four trackers,
and `TrackerAPI::set_auto_waste`; each regenerated on every run from its own source file) = `awStep` / `setAutoWaste` of
`SimVerif/Model/Tracker.lean`, the functions the lifecycle theorems of C03 (GC timing unobservable) are about.
-/
namespace SimVerif.Tie
open SimVerif.Gen.L SimVerif.Tracker

/-- what the generated countdown yields, as a model state -/
def awResult (r : St × Nat × Nat) : St := { r.1 with awCounter := r.2.1, awPeriod := r.2.2 }

theorem tie_aw_sort (cfg : Cfg) (st : St) : awResult (aw_sort (collect cfg) st st.awCounter st.awPeriod) = awStep cfg st := by
  unfold aw_sort awStep awResult
  by_cases h : st.awCounter = 0 <;> simp [h, collect]
theorem tie_aw_batch_sort (cfg : Cfg) (st : St) : awResult (aw_batch_sort (collect cfg) st st.awCounter st.awPeriod) = awStep cfg st := by
  unfold aw_batch_sort awStep awResult
  by_cases h : st.awCounter = 0 <;> simp [h, collect]
theorem tie_aw_visual (cfg : Cfg) (st : St) : awResult (aw_visual (collect cfg) st st.awCounter st.awPeriod) = awStep cfg st := by
  unfold aw_visual awStep awResult
  by_cases h : st.awCounter = 0 <;> simp [h, collect]
theorem tie_aw_batch_visual (cfg : Cfg) (st : St) : awResult (aw_batch_visual (collect cfg) st st.awCounter st.awPeriod) = awStep cfg st := by
  unfold aw_batch_visual awStep awResult
  by_cases h : st.awCounter = 0 <;> simp [h, collect]

/-- `set_auto_waste(p)`: new periodicity, countdown reset to 0 (the next `predict` collects) -/
theorem tie_aw_set (st : St) (p : Nat) :
    { st with awCounter := (aw_set st.awCounter st.awPeriod p).1, awPeriod := (aw_set st.awCounter st.awPeriod p).2 } = setAutoWaste st p := rfl

end SimVerif.Tie
