import SimVerif.Gen.LVoteParams
import SimVerif.Gen.Consts
/-!
# Tie (DESIGN.md 14.13): the parameters `Sort::predict_with_scene` hands to `SortVoting`

`Gen/LVoteParams.lean` is regenerated on every run from `SortVoting::new` (`trackers/sort/voting.rs`) and from the statement
`let voting = SortVoting::new(..)` of `Sort::predict_with_scene`. C02 says an unmatched detection counts as *the threshold
weight*: the threshold the assignment matrix is built with (`Tie/SortVoting.lean`: `svMatrix … thr …`) is the configured IoU
threshold — or the fixed new-track threshold in Mahalanobis mode — scaled and quantised exactly like the weights; the matrix has
one row per detection of the call and as many track columns as the store holds tracks (the sum of the shard statistics).
-/
namespace SimVerif.Tie
open SimVerif.Gen.L

/-- the threshold weight of a configuration -/
def thrOf (mahaThr : Rat) : PosKind → Rat
  | .maha => mahaThr
  | .iou t => t

theorem tie_sort_voting_new (quant : Rat → Int) (mult thr : Rat) (n m : Nat) :
    sort_voting_new quant mult thr n m = { threshold := quant (thr * mult), candidate_num := n, track_num := m } := rfl

/-- **the voting parameters**: quantised threshold of the configured metric, number of detections, number of stored tracks -/
theorem tie_sort_voting_params (quant : Rat → Int) (mult mahaThr : Rat) (method : PosKind) (n : Nat) (stats : List Nat) :
    sort_voting_params quant mult mahaThr method n stats =
      { threshold := quant (thrOf mahaThr method * mult), candidate_num := n, track_num := stats.sum } := by
  cases method <;> rfl

/-- with the constants of the source: IoU mode uses the configured threshold, Mahalanobis mode the weight 1 -/
example (quant : Rat → Int) (n : Nat) (stats : List Nat) :
    (sort_voting_params quant Gen.F32_U64_MULT Gen.MAHALANOBIS_NEW_TRACK_THRESHOLD .maha n stats).threshold = quant (1 * 1000000) := rfl

/-- **VisualSORT's voting parameters** (simple and batch tracker alike): the positional threshold of the configured metric, **no
bound on the feature distance** (`f32::MAX`: the appearance stage filters by votes only — `Model/Tracker.lean` `visualDecided` uses
`F32_MAX` too), and the configured minimum number of votes -/
theorem tie_visual_voting_params (mahaThr f32max : Rat) (kind : PosKind) (minVotes : Nat) :
    visual_voting_params mahaThr f32max kind minVotes =
      { positional_threshold := thrOf mahaThr kind, max_allowed_feature_distance := f32max, min_winner_feature_votes := minVotes } := by
  cases kind <;> rfl

theorem tie_batch_visual_voting_params (mahaThr f32max : Rat) (kind : PosKind) (minVotes : Nat) :
    batch_visual_voting_params mahaThr f32max kind minVotes = visual_voting_params mahaThr f32max kind minVotes := rfl

/-- BatchSort's voting thread hands `SortVoting` the same parameters as the simple tracker: the quantised threshold of the
configured metric, the number of candidates of the scene job, the number of stored tracks -/
theorem tie_batch_sort_voting_params {T : Type} (quant : Rat → Int) (mult mahaThr : Rat) (method : PosKind) (tracks : List T) (stats : List Nat) :
    batch_sort_voting_params quant mult mahaThr method tracks () stats =
      sort_voting_params quant mult mahaThr method tracks.length stats := by
  cases method <;> rfl

end SimVerif.Tie
