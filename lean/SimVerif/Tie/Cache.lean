import SimVerif.Gen.KCache
import SimVerif.Tie.Inter
import SimVerif.Tie.Box
import SimVerif.Tie.Clip
/-!
# Tie (DESIGN.md 14.11): `Universal2DBox::intersection` with the private vertex cache, as the Rust source has it now
(`Clone for Universal2DBox` — through `new_with_confidence`, which leaves the cache empty —, `get_cached_vertices`, `gen_vertices`,
`rotate_mut`, and `intersection` itself: too-far test, clone both boxes, generate the vertices of a box whose cache is empty,
clip, area; regenerated on every run).

Proved: **the cache of the arguments is never read** — whatever vertices a box carries (stale or not), the reported intersection
is the area of the clip of the two polygons generated from the boxes' *current* fields — and that value is the model's
`Geom.intersection`, the function the theorems of C08 are about.
-/
set_option linter.unusedSectionVars false
namespace SimVerif.Tie
open SimVerif.Geom SimVerif.Gen.K
variable {α : Type} [Field α] [LinearOrder α]

/-- a clone carries no cache -/
theorem tie_cbox_clone (b : CBox α) : (cbox_clone b).cache = none ∧ toU (cbox_clone b) = toU b := ⟨rfl, rfl⟩

/-- `gen_vertices` stores the polygon of the box's current fields (only for a box with an angle) -/
theorem tie_cbox_gen_vertices (cos sin : α → α) (b : CBox α) :
    (cbox_gen_vertices cos sin b).cache = (if b.angle.isSome then some (closeRing (Gen.K.vertices cos sin (toU b))) else b.cache) ∧
    toU (cbox_gen_vertices cos sin b) = toU b := by
  unfold cbox_gen_vertices
  cases h : b.angle <;> simp [toU, h]

/-- **`intersection` does not depend on the caches of its arguments**: it is the area of the clip of the polygons of the current
fields (with the angle an axis-aligned box lacks read as 0) -/
theorem tie_u_intersection_cache (sqrt cos sin : α → α) (l r : CBox α) :
    u_intersection sqrt cos sin l r =
      (if Gen.K.too_far sqrt (toU l) (toU r) then 0 else
        polyArea (Gen.K.sutherland_hodgman_clip
          (closeRing (Gen.K.vertices cos sin { toU l with angle := some (l.angle.getD 0) }))
          (closeRing (Gen.K.vertices cos sin { toU r with angle := some (r.angle.getD 0) })))) := by
  unfold u_intersection
  by_cases h : Gen.K.too_far sqrt (toU l) (toU r) = true
  · simp [h]
  · simp only [h, Bool.false_eq_true, if_false]
    simp [cbox_clone, cbox_new_with_confidence, cbox_get_cached_vertices, cbox_rotate_mut, cbox_gen_vertices, toU]

theorem dropLast_closeRing (l : List (Pt α)) : (closeRing l).dropLast = l := by
  cases l with
  | nil => rfl
  | cons p rest =>
    show ((p :: rest) ++ [p]).dropLast = p :: rest
    rw [List.dropLast_concat]

/-- **`Universal2DBox::intersection` of the source is the model's `intersection`** (too-far test, Sutherland–Hodgman clip of the two
vertex lists, shoelace area), at the cosines and sines of the boxes' angles — whatever the caches hold -/
theorem tie_u_intersection (sqrt cos sin : α → α) (l r : CBox α)
    (htf : Gen.K.too_far sqrt (toU l) (toU r) = tooFar (toU l) (toU r)) :
    u_intersection sqrt cos sin l r =
      intersection (toU l) (toU r) (cos (l.angle.getD 0)) (sin (l.angle.getD 0)) (cos (r.angle.getD 0)) (sin (r.angle.getD 0)) := by
  rw [tie_u_intersection_cache, htf]
  unfold intersection
  rw [tie_sutherland_hodgman_clip, dropLast_closeRing, dropLast_closeRing, tie_vertices, tie_vertices]
  simp only [Option.getD_some]
  rfl

/-- two boxes that differ only in their caches have the same intersection with anything -/
theorem tie_u_intersection_cache_irrelevant (sqrt cos sin : α → α) (l l' r r' : CBox α) (hl : toU l = toU l') (hr : toU r = toU r') :
    u_intersection sqrt cos sin l r = u_intersection sqrt cos sin l' r' := by
  have el : l.angle = l'.angle := congrArg UBox.angle hl
  have er : r.angle = r'.angle := congrArg UBox.angle hr
  rw [tie_u_intersection_cache, tie_u_intersection_cache, hl, hr, el, er]

end SimVerif.Tie
