import SimVerif.Gen.KVMetric
import SimVerif.Model.VisualMetric
import SimVerif.Model.SortMetric
import SimVerif.Tie.SMetric
/-!
# Tie (DESIGN.md 14.8): the decision kernels of `VisualMetric` as the Rust source has them now
(`SimVerif.Gen.K.v_*`, regenerated on every run) = `SimVerif/Model/VisualMetric.lean` (C12, C13):
`is_ok`, `distance_to_weight`, `feature_can_be_used`, `visual_metric`, and the positional half
`positional_metric`, which is `SortMetric`'s rule.
-/
set_option linter.unusedSectionVars false
set_option linter.unusedVariables false
namespace SimVerif.Tie
open SimVerif.Geom SimVerif.Kalman SimVerif.SortMetric SimVerif.VisualMetric
variable {α : Type} [Field α] [LinearOrder α] {F : Type}

theorem tie_v_is_ok (k : Kind α) (d : α) : Gen.K.v_is_ok k d = isOk k d := by
  cases k <;> simp [Gen.K.v_is_ok, isOk]

theorem tie_v_distance_to_weight (k : Kind α) (d : α) : Gen.K.v_distance_to_weight k d = distToWeight k d := by
  cases k <;> rfl

/-- `feature_can_be_used` on a present box: area, quality and own-area share at or above the thresholds
(an unknown share does not block) -/
theorem tie_v_feature_can_be_used (minArea : α) (b : UBox α) (q minQ : α) (share : Option α) (minShare : α) :
    Gen.K.v_feature_can_be_used minArea (some b) q minQ share minShare =
      featureCanBeUsed minArea (area b) q minQ share minShare := by
  unfold Gen.K.v_feature_can_be_used featureCanBeUsed
  cases share <;> simp [Gen.K.area, area, Bool.and_comm, Bool.and_assoc] <;> rfl

/-- **the collect rule of `VisualMetric::optimize`** (C13): the feature of the observation that `optimize` is called for
is dropped exactly when the observation continues a track (`is_merge`; a track's first observation is exempt) and
does not meet the *collect* thresholds on box area, feature quality and own-area share; otherwise it is kept as it is -/
theorem tie_v_collect_gate {φ : Type} (minArea qCollect shareCollect : α) (isMerge : Bool) (b : UBox α) (q : α)
    (share : Option α) (feat : Option φ) :
    Gen.K.v_collect_gate minArea qCollect shareCollect isMerge b q share feat =
      if isMerge && !featureCanBeUsed minArea (area b) q qCollect share shareCollect then none else feat := by
  unfold Gen.K.v_collect_gate
  rw [tie_v_feature_can_be_used]

/-- `visual_metric`: a vote only from a track with at least the minimal number of collected features, for a
distance (Euclidean or cosine, by the configured kind) that passes `is_ok`, with weight `distance_to_weight` -/
theorem tie_v_visual_metric (euclidean cosine : F → F → α) (k : Kind α) (minLen collected : Nat) (a b : F) :
    Gen.K.v_visual_metric euclidean cosine k minLen collected a b =
      visualMetric k minLen collected (match k with | .euclid _ => euclidean a b | .cosine _ => cosine a b) := by
  unfold Gen.K.v_visual_metric visualMetric
  simp only [tie_v_is_ok, tie_v_distance_to_weight, ge_iff_le, decide_eq_true_eq]
  cases k <;> rfl

/-- `positional_metric` (IoU kind) is `SortMetric`'s IoU rule -/
theorem tie_v_positional_metric_iou (kfdist : α × α → UBox α → α) (chi : Nat → α) (upper thr minc : α)
    (cb tb : UBox α) (cc sc ct st wp wv : α) :
    Gen.K.v_positional_metric tooFar (fun a b => intersection a b cc sc ct st) kfdist chi upper (.iou thr) minc (some cb) (some tb) wp wv =
      (metricIoU thr minc cb tb cc sc ct st).bind id := by
  unfold Gen.K.v_positional_metric metricIoU confOf
  by_cases h : tooFar cb tb = true
  · simp [h]
  · simp only [h, Bool.false_eq_true, if_false, tie_u_iou, decide_eq_true_eq, Option.bind_some, id]
    cases hi : iou cb tb cc sc ct st with
    | none => simp
    | some e =>
      by_cases hw : thr ≤ e * (if cb.conf < minc then minc else cb.conf)
      · simp [Option.filter, hw]
      · simp [Option.filter, hw]

/-- `positional_metric` (Mahalanobis kind) is `SortMetric`'s Mahalanobis rule -/
theorem tie_v_positional_metric_maha (inter : UBox α → UBox α → α) (kfdist : α × α → UBox α → α) (chi : Nat → α) (upper minc : α)
    (cb tb : UBox α) (wp wv : α) :
    Gen.K.v_positional_metric tooFar inter kfdist chi upper .maha minc (some cb) (some tb) wp wv =
      (metricMaha (chi Gen.boxCostGateInverted) upper minc cb tb (kfdist (wp, wv) cb)).bind id := by
  unfold Gen.K.v_positional_metric metricMaha confOf
  by_cases h : tooFar cb tb = true
  · simp [h]
  · simp [h, tie_box_cost_inverted]

end SimVerif.Tie
