import SimVerif.Gen.KOptimizeV
import SimVerif.Tie.Optimize
import SimVerif.Tie.VMetric
/-!
# Tie (DESIGN.md 14.12): `VisualMetric::optimize` whole, as the Rust source has it now

`Gen/KOptimizeV.lean` is regenerated on every run from `VisualMetric::optimize` / `postprocess_distances`
(`trackers/visual_sort/metric.rs`), the constructors and accessors of `VisualObservationAttributes`, and a second reading of
the trait default method `make_prediction` through the accessors of `impl TrackAttributesKalmanPrediction for VisualAttributes`.
`optimize_observations` (the gallery step) is a parameter here; it is generated and tied on its own (`Gen/LGallery.lean`,
`Tie/Gallery.lean`), and `visual_optimize_tail` states that what this function does around it is exactly the `optimize_tail`
slice tied there to the model's `galleryUpdate`.
-/
set_option linter.unusedSectionVars false
set_option linter.unusedVariables false
namespace SimVerif.Tie
open SimVerif.Kalman SimVerif.C07 SimVerif.Gen.K SimVerif.Geom Matrix

variable {α : Type} [Field α] [LinearOrder α]

/-! ### VisualSORT: `VisualMetric::optimize` whole -/

/-- the Kalman step on the visual attributes (same default method, the accessors of `VisualAttributes`) -/
def kalmanStepV {F : Type} (solveLower : {r c : Type} → [Fintype r] → [DecidableEq r] → Matrix r r α → Matrix r c α → Matrix r c α)
    (dt : α) (a : VAttrs α F) (z : CBox α) : KState α :=
  box_update solveLower box_update_matrix a.position_weight
    (box_predict (box_motion_matrix dt) a.position_weight a.velocity_weight
      (a.state.getD (box_initiate a.position_weight a.velocity_weight (toU z)))) (toU z)

theorem tie_vmake_prediction {F : Type} (solveLower : {r c : Type} → [Fintype r] → [DecidableEq r] → Matrix r r α → Matrix r c α → Matrix r c α)
    (dt : α) (a : VAttrs α F) (z : CBox α) :
    vmake_prediction solveLower dt a z =
      some ({ a with state := some (kalmanStepV solveLower dt a z) },
            { boxOfState (kalmanStepV solveLower dt a z) with conf := z.conf }) := by
  obtain ⟨pb, ob, of_, tl, vc, st, pw, vw, hl⟩ := a
  cases st <;>
    simp only [vmake_prediction, kalmanStepV, vattr_get_state, vattr_get_position_weight, vattr_get_velocity_weight,
      vattr_set_state, tie_kstate_to_box, Option.getD_none, Option.getD_some]

theorem visual_update_history_gen {β φ : Type} (hl len : Nat) (obs pred : List β) (feats : List φ) (ob pb : β) (f : φ)
    (h1 : obs.length = pred.length) (h2 : obs.length = feats.length) :
    SimVerif.Gen.L.visual_update_history hl len obs pred feats ob pb f =
      (len + 1, pushB obs ob hl, pushB pred pb hl, pushB feats f hl) := by
  unfold SimVerif.Gen.L.visual_update_history pushB
  have h3 : pred.length = feats.length := h1 ▸ h2
  simp only [List.length_append, List.length_cons, List.length_nil, h1, h3]
  by_cases hc : (decide (hl > 0) && decide (feats.length + (0 + 1) > hl)) = true
  · simp [hc]
  · simp [hc]

/-- the feature the new observation keeps: on a merge it must pass the collect gate (quality, own-area share, box area) -/
def gatedFeature {F : Type} (minArea qCollect ownCollect : α) (isMerge : Bool) (z : CBox α) (q : α) (own : Option α) (f : Option F) : Option F :=
  if isMerge && !(v_feature_can_be_used minArea (some (toU z)) q qCollect own ownCollect) then none else f

/-- the observation `optimize` stores for the detection: the estimated box (vertices generated in IoU mode), the
detection's quality and own-area share, the gated feature -/
def storedObs {F : Type} (cos sin : α → α) (kind : PosMetric α) (pb : CBox α) (q : α) (own : Option α) (f : Option F) : Option (VOA α) × Option F :=
  (some { bbox := some (storedBox cos sin kind pb), visual_quality := q, own_area_percentage := own }, f)

/-- **`VisualMetric::optimize`** on observations ending in the new one `(some ⟨some z, q, own⟩, f)`:
the filter state is the Kalman step on `z`; the three histories are pushed (the feature history gets the feature **as
submitted**, before the gate); the gallery is `optimize_observations` of the older observations, then the new observation —
estimated box, gated feature — swapped to the front; the collected-feature count is recounted -/
theorem tie_visual_optimize {F : Type} (solveLower : {r c : Type} → [Fintype r] → [DecidableEq r] → Matrix r r α → Matrix r c α → Matrix r c α)
    (dt : α) (cos sin : α → α) (kind : PosMetric α) (minArea qCollect ownCollect : α)
    (optObs : List (Option (VOA α) × Option F) → List (Option (VOA α) × Option F)) (isMerge : Bool)
    (a : VAttrs α F) (pre : List (Option (VOA α) × Option F)) (z : CBox α) (q : α) (own : Option α) (f : Option F)
    (h1 : a.observed_boxes.length = a.predicted_boxes.length) (h2 : a.observed_boxes.length = a.observed_features.length) :
    visual_optimize solveLower dt cos sin kind minArea qCollect ownCollect optObs isMerge a
        (pre ++ [(some { bbox := some z, visual_quality := q, own_area_percentage := own }, f)]) =
      (let s' := kalmanStepV solveLower dt a z
       let pb : CBox α := { boxOfState s' with conf := z.conf }
       let new := storedObs cos sin kind pb q own (gatedFeature minArea qCollect ownCollect isMerge z q own f)
       let gallery := SimVerif.Gen.L.listSwap (optObs pre ++ [new]) 0 ((optObs pre ++ [new]).length - 1)
       some ({ a with state := some s', track_length := a.track_length + 1,
                      observed_boxes := pushB a.observed_boxes z a.history_length,
                      predicted_boxes := pushB a.predicted_boxes pb a.history_length,
                      observed_features := pushB a.observed_features f a.history_length,
                      visual_features_collected_count := (gallery.filter (fun o => o.2.isSome)).length },
             gallery)) := by
  unfold visual_optimize
  simp only [List.getLast?_append, List.getLast?_singleton, Option.some_or, voa_unchecked_bbox_ref, voa_visual_quality,
    voa_own_area_percentage_opt, tie_vmake_prediction, List.dropLast_concat]
  simp only [visual_update_history_gen _ _ _ _ _ _ _ _ h1 h2, applyHistV, Option.map_some]
  unfold gatedFeature storedObs storedBox voa_with_own_area_percentage voa_new
  rcases Bool.eq_false_or_eq_true (v_feature_can_be_used minArea (some (toU z)) q qCollect own ownCollect) with hg | hg <;>
    simp only [hg, Bool.not_true, Bool.not_false, Bool.and_false, Bool.and_true, Bool.false_eq_true, ↓reduceIte] <;>
    cases kind <;> cases own <;> cases isMerge <;> rfl

/-- `optimize` panics without a last observation, without attributes on it, or without a box in them -/
theorem visual_optimize_empty {F : Type} (solveLower : {r c : Type} → [Fintype r] → [DecidableEq r] → Matrix r r α → Matrix r c α → Matrix r c α)
    (dt : α) (cos sin : α → α) (kind : PosMetric α) (minArea qCollect ownCollect : α)
    (optObs : List (Option (VOA α) × Option F) → List (Option (VOA α) × Option F)) (isMerge : Bool) (a : VAttrs α F) :
    visual_optimize solveLower dt cos sin kind minArea qCollect ownCollect optObs isMerge a [] = none := rfl

theorem visual_optimize_nobox {F : Type} (solveLower : {r c : Type} → [Fintype r] → [DecidableEq r] → Matrix r r α → Matrix r c α → Matrix r c α)
    (dt : α) (cos sin : α → α) (kind : PosMetric α) (minArea qCollect ownCollect : α)
    (optObs : List (Option (VOA α) × Option F) → List (Option (VOA α) × Option F)) (isMerge : Bool) (a : VAttrs α F)
    (pre : List (Option (VOA α) × Option F)) (q : α) (own : Option α) (f : Option F) :
    visual_optimize solveLower dt cos sin kind minArea qCollect ownCollect optObs isMerge a
      (pre ++ [(some { bbox := none, visual_quality := q, own_area_percentage := own }, f)]) = none := by
  unfold visual_optimize
  simp only [List.getLast?_append, List.getLast?_singleton, Option.some_or, voa_unchecked_bbox_ref]

/-- the gallery and the count are the `optimize_tail` slice of `Gen/LGallery.lean` (tied to the model's `galleryUpdate` in
`Tie/Gallery.lean`) when the gallery step is the generated `optimize_observations` -/
theorem visual_optimize_tail {Obs φ : Type} (featureOf : Obs → Option φ) (dropBbox : Obs → Obs) (quality : Obs → Rat) (maxObs : Nat)
    (pre : List Obs) (new : Obs) (c : Nat) :
    SimVerif.Gen.L.optimize_tail featureOf dropBbox quality maxObs pre new c =
      (let g := SimVerif.Gen.L.listSwap (SimVerif.Gen.L.optimize_observations featureOf dropBbox quality maxObs pre ++ [new]) 0
          ((SimVerif.Gen.L.optimize_observations featureOf dropBbox quality maxObs pre ++ [new]).length - 1)
       (g, (g.filter (fun o => (featureOf o).isSome)).length)) := rfl

/-- `postprocess_distances` of VisualSORT keeps the results that carry a feature distance or a positional metric -/
theorem tie_visual_postprocess {M : Type} (l : List (MOk M)) :
    visual_postprocess_distances l = l.filter (fun r => r.feature_distance.isSome || r.attribute_metric.isSome) := rfl

/-! ### `VisualMetric::metric` whole -/

/-- **`VisualMetric::metric`** on a candidate observation `⟨cb, q, own⟩ / cf` and a track observation `⟨tb, …⟩ / tf`:
the positional part is `positional_metric` of the two boxes (tied to `SortMetric`'s rules in `Tie/VMetric.lean`), whatever
the features; the appearance part exists **only if** the candidate's feature may be used (box area, quality, own-area share at
or above the *use* thresholds — `featureCanBeUsed` —, the candidate's box present), both observations carry a feature, and the
track has collected enough features (`visualMetric`); then it is the kind's weight of the feature distance -/
theorem tie_visual_metric_whole {F : Type} (toofar : UBox α → UBox α → Bool) (inter : UBox α → UBox α → α) (kfdist : α × α → UBox α → α)
    (chi : Nat → α) (upper : α) (euclidean cosine : F → F → α) (pk : PosMetric α) (vk : VisualMetric.Kind α)
    (minConf minArea qUse ownUse : α) (minLen collected : Nat) (wp wv : α)
    (cb : CBox α) (q : α) (own : Option α) (cf : Option F) (tv : VOA α) (tf : Option F) :
    visual_metric_whole toofar inter kfdist chi upper euclidean cosine pk vk minConf minArea qUse ownUse minLen collected wp wv
        (some { bbox := some cb, visual_quality := q, own_area_percentage := own }, cf) (some tv, tf) =
      some (v_positional_metric toofar inter kfdist chi upper pk minConf (some (toU cb)) (tv.bbox.map toU) wp wv,
            if VisualMetric.featureCanBeUsed minArea (Geom.area (toU cb)) q qUse own ownUse then
              (match cf, tf with
               | some c, some t => VisualMetric.visualMetric vk minLen collected
                   (match vk with | .euclid _ => euclidean c t | .cosine _ => cosine c t)
               | _, _ => none)
            else none) := by
  unfold visual_metric_whole
  simp only [voa_visual_quality, voa_own_area_percentage_opt, Option.map_some, tie_v_feature_can_be_used]
  cases cf <;> cases tf <;> simp only [tie_v_visual_metric] <;> rfl

/-- a candidate or track observation without attributes is a panic (`expect`) -/
theorem visual_metric_whole_noattr {F : Type} (toofar : UBox α → UBox α → Bool) (inter : UBox α → UBox α → α) (kfdist : α × α → UBox α → α)
    (chi : Nat → α) (upper : α) (euclidean cosine : F → F → α) (pk : PosMetric α) (vk : VisualMetric.Kind α)
    (minConf minArea qUse ownUse : α) (minLen collected : Nat) (wp wv : α) (cf : Option F) (trk : Option (VOA α) × Option F) :
    visual_metric_whole toofar inter kfdist chi upper euclidean cosine pk vk minConf minArea qUse ownUse minLen collected wp wv
        (none, cf) trk = none := rfl

end SimVerif.Tie
