import SimVerif.Gen.LGc
import SimVerif.Model.Tracker
import Mathlib.Data.List.Nodup
/-!
# Tie (DESIGN.md 14.14): expiry collection — the default methods of `TrackerAPI`, as the Rust source has them now

`Gen/LGc.lean` is regenerated on every run from `trackers/tracker_api.rs`: `get_main_store_wasted`, `auto_waste`, `wasted`,
`skip_epochs_for_scene` (trait default methods shared by the four trackers). The two stores are state variables, the store
operations (`find_usable`, `fetch_tracks`, `add_track`) and the epoch update are parameters; `expect` on a failing `add_track`
is the value `none`.

This file instantiates the parameters with the list store of `Model/Tracker.lean` — `find_usable` reports `Wasted` exactly for
the tracks `expired` says, `fetch_tracks` removes and returns the tracks with the given ids (in the order of the ids),
`add_track` appends — and proves that the generated functions **are** the model's `collect`, `wastedOp` and `skip`, the
functions the theorems of C03 are about:

* `tie_gc_auto_waste`: `auto_waste()` = `collect` (every expired live track moves to the wasted store, nothing else moves);
* `tie_gc_wasted`: `wasted()` = `wastedOp` (collect, then hand out and remove everything in the wasted store);
* `tie_gc_skip`: `skip_epochs_for_scene` = `skip` (advance the scene's epoch, then collect).
-/
set_option linter.unusedSectionVars false
set_option linter.unusedVariables false
namespace SimVerif.Tie
open SimVerif.Tracker SimVerif.Gen.L

/-- `find_usable` on the model store: every track with its baked status (`Tie/Epoch.lean`: `Wasted` iff `expired`) -/
def findUsableM (cfg : Cfg) (st : St) (l : List Trk) : List (Nat × Status) :=
  l.map (fun t => (t.id, if expired cfg st t then Status.wasted else Status.pending))

/-- `fetch_tracks`: the tracks with these ids leave the store and are returned in the order of the ids -/
def fetchTracksM (l : List Trk) (ids : List Nat) : List Trk × List Trk :=
  (l.filter (fun t => !ids.contains t.id), ids.filterMap (fun i => l.find? (fun t => t.id == i)))

/-- `add_track` of a track with a new id appends -/
def addTrackG (l : List Trk) (t : Trk) : Option (List Trk) := some (l ++ [t])

theorem filterMap_self {β : Type} (g : β → Option β) : ∀ (l : List β), (∀ x ∈ l, g x = some x) → l.filterMap g = l
  | [], _ => rfl
  | a :: rest, h => by
    rw [List.filterMap_cons, h a (List.mem_cons_self)]
    simp only []
    rw [filterMap_self g rest (fun x hx => h x (List.mem_cons_of_mem _ hx))]

theorem find_self (l : List Trk) (hnd : (l.map (·.id)).Nodup) : ∀ t ∈ l, l.find? (fun u => u.id == t.id) = some t := by
  induction l with
  | nil => intro t ht; cases ht
  | cons a rest ih =>
    intro t ht
    simp only [List.map_cons, List.nodup_cons] at hnd
    rcases List.mem_cons.mp ht with rfl | hr
    · simp
    · have hne : a.id ≠ t.id := fun h => hnd.1 (h ▸ List.mem_map.mpr ⟨t, hr, rfl⟩)
      simp only [List.find?_cons, beq_iff_eq, hne, ↓reduceIte]
      rw [show (a.id == t.id) = false from by simpa using hne]
      exact ih hnd.2 t hr

theorem id_inj_of_nodup (l : List Trk) (hnd : (l.map (·.id)).Nodup) : ∀ t ∈ l, ∀ u ∈ l, t.id = u.id → t = u :=
  fun t ht u hu h => List.inj_on_of_nodup_map hnd ht hu h

theorem wasted_ids (pr : Nat × Status → Nat) (isW : Nat × Status → Bool) (hpr : ∀ i s, pr (i, s) = i)
    (hw : ∀ i s, isW (i, s) = (match s with | Status.wasted => true | _ => false)) (cfg : Cfg) (st : St) (l : List Trk) :
    List.map pr (List.filter isW (findUsableM cfg st l)) = (l.filter (expired cfg st)).map (·.id) := by
  unfold findUsableM
  induction l with
  | nil => rfl
  | cons a rest ih =>
    simp only [List.map_cons, List.filter_cons, hw]
    by_cases h : expired cfg st a = true
    · simp only [h, ↓reduceIte, List.map_cons, hpr]; rw [ih]
    · simp only [h, Bool.false_eq_true, ↓reduceIte]; rw [ih]

theorem fetch_expired (cfg : Cfg) (st : St) (l : List Trk) (hnd : (l.map (·.id)).Nodup) :
    fetchTracksM l ((l.filter (expired cfg st)).map (·.id)) = (l.filter (fun t => !expired cfg st t), l.filter (expired cfg st)) := by
  unfold fetchTracksM
  congr 1
  · apply List.filter_congr
    intro t ht
    congr 1
    by_cases he : expired cfg st t = true
    · rw [he]; simp only [List.contains_eq_mem, List.mem_map, List.mem_filter, decide_eq_true_eq]
      exact ⟨t, ⟨ht, he⟩, rfl⟩
    · rw [show expired cfg st t = false from by simpa using he]
      simp only [List.contains_eq_mem, List.mem_map, List.mem_filter, decide_eq_false_iff_not]
      rintro ⟨u, ⟨hu, hue⟩, hid⟩
      have := id_inj_of_nodup l hnd u hu t ht hid
      subst this; exact he hue
  · rw [List.filterMap_map]
    exact filterMap_self _ _ (fun t ht => find_self l hnd t (List.mem_filter.mp ht).1)

theorem fold_add (f : Option (List Trk) → Trk → Option (List Trk)) (h0 : ∀ t, f none t = none)
    (h1 : ∀ w t, f (some w) t = some (w ++ [t])) (tracks w : List Trk) :
    List.foldl f (some w) tracks = some (w ++ tracks) := by
  induction tracks generalizing w with
  | nil => simp
  | cons a rest ih => simp only [List.foldl_cons, h1]; rw [ih]; simp

/-- `get_main_store_wasted`: the expired tracks leave the main store -/
theorem tie_gc_main_store_wasted (cfg : Cfg) (st : St) (l : List Trk) (hnd : (l.map (·.id)).Nodup) :
    gc_main_store_wasted (findUsableM cfg) fetchTracksM addTrackG st l =
      (l.filter (fun t => !expired cfg st t), l.filter (expired cfg st)) := by
  unfold gc_main_store_wasted
  simp only []
  rw [wasted_ids _ _ (fun _ _ => rfl) (fun _ s => by cases s <;> rfl) cfg st l]
  exact fetch_expired cfg st l hnd

/-- **`auto_waste()` is the model's `collect`** -/
theorem tie_gc_auto_waste (cfg : Cfg) (st : St) (hnd : (st.live.map (·.id)).Nodup) :
    gc_auto_waste (findUsableM cfg) fetchTracksM addTrackG st st.live st.wasted =
      some ((collect cfg st).live, (collect cfg st).wasted) := by
  unfold gc_auto_waste
  rw [tie_gc_main_store_wasted cfg st st.live hnd]
  simp only []
  rw [fold_add _ (fun _ => rfl) (fun _ _ => rfl)]
  rfl

/-- **`wasted()` is the model's `wastedOp`**: after the collection everything in the wasted store is handed out and removed
(the tracks in the wasted store are expired, an invariant of the tracker: they were when they were moved and epochs only grow) -/
theorem tie_gc_wasted (cfg : Cfg) (st : St) (hnd : (st.live.map (·.id)).Nodup)
    (hndw : (((collect cfg st).wasted).map (·.id)).Nodup) (hexp : ∀ t ∈ (collect cfg st).wasted, expired cfg st t = true) :
    gc_wasted (findUsableM cfg) fetchTracksM addTrackG st st.live st.wasted =
      some (((wastedOp cfg st).1.live, (wastedOp cfg st).1.wasted), (wastedOp cfg st).2) := by
  unfold gc_wasted
  rw [tie_gc_auto_waste cfg st hnd]
  simp only []
  rw [wasted_ids _ _ (fun _ _ => rfl) (fun _ s => by cases s <;> rfl) cfg st (collect cfg st).wasted]
  rw [fetch_expired cfg st (collect cfg st).wasted hndw]
  have hall : (collect cfg st).wasted.filter (expired cfg st) = (collect cfg st).wasted :=
    List.filter_eq_self.mpr hexp
  have hnone : (collect cfg st).wasted.filter (fun t => !expired cfg st t) = [] := by
    rw [List.filter_eq_nil_iff]; intro t ht; simp [hexp t ht]
  rw [hall, hnone]
  rfl

/-- **`skip_epochs_for_scene` is the model's `skip`**: the scene's epoch advances by `n`, then the expired tracks are collected -/
theorem tie_gc_skip (cfg : Cfg) (st : St) (scene n : Nat) (hnd : (st.live.map (·.id)).Nodup) :
    gc_skip_epochs_for_scene (findUsableM cfg) fetchTracksM addTrackG (fun s sc k => setEpoch s sc (epochOf s sc + k)) st st.live st.wasted scene n =
      some (setEpoch st scene (epochOf st scene + n), (skip cfg st scene n).live, (skip cfg st scene n).wasted) := by
  unfold gc_skip_epochs_for_scene
  simp only []
  have := tie_gc_auto_waste cfg (setEpoch st scene (epochOf st scene + n)) (by simpa [setEpoch] using hnd)
  simp only [setEpoch] at this ⊢
  rw [this]
  rfl

/-- non-vacuity: a store with one expired and one fresh track -/
example :
    let cfg : Cfg := { maxIdle := 1, histLen := 1, batchIds := false, thr := 0 }
    let st : St := { epochs := [(0, 5)], live := [Trk.simple 1 0 2 1 none [], Trk.simple 2 0 5 1 none []] }
    ((collect cfg st).live.map (·.id), (collect cfg st).wasted.map (·.id)) = ([2], [1]) := by decide

end SimVerif.Tie
