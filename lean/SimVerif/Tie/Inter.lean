import SimVerif.Gen.KInter
import SimVerif.Tie.Radius
import SimVerif.Props.C08c
import SimVerif.Model.Geom
import Mathlib.Tactic.Ring
import Mathlib.Tactic.Linarith
import Mathlib.Algebra.Order.Field.Basic
/-!
# Tie (DESIGN.md 14.8): closed-form intersection, IoU formulas, the too-far test and the two clipping
primitives of `/repo/src/utils/{bbox,clipping}.rs` as they are now (`SimVerif.Gen.K.*`, regenerated on every
run) = the model of `SimVerif/Model/Geom.lean` that the C08 / C02 theorems are about.
-/
set_option linter.unusedSectionVars false
set_option linter.unusedVariables false
namespace SimVerif.Tie
open SimVerif.Geom
variable {α : Type} [Field α] [LinearOrder α]

/-- `BoundingBox::intersection` is the closed form `aabbInter` -/
theorem tie_bb_intersection (l r : BBox α) : Gen.K.bb_intersection l r = aabbInter l r := by
  unfold Gen.K.bb_intersection aabbInter
  simp only [gt_iff_lt, Bool.and_eq_true, decide_eq_true_eq]

/-- `calculate_metric_object` for `BoundingBox`: IoU by the closed form -/
theorem tie_bb_iou (l r : BBox α) : Gen.K.bb_iou (some l) (some r) = some (aabbIou l r) := by
  unfold Gen.K.bb_iou aabbIou
  simp only [tie_bb_intersection]

theorem tie_bb_iou_none_left (r : Option (BBox α)) : Gen.K.bb_iou none r = none := by
  unfold Gen.K.bb_iou; rfl

theorem tie_bb_iou_none_right (l : Option (BBox α)) : Gen.K.bb_iou l none = none := by
  unfold Gen.K.bb_iou; cases l <;> rfl

/-- `too_far`: the comparison the code performs, on the model's radii -/
theorem tie_too_far (sqrt : α → α) (l r : UBox α) :
    Gen.K.too_far sqrt l r =
      decide ((l.xc - r.xc) * (l.xc - r.xc) + (l.yc - r.yc) * (l.yc - r.yc) >
        (sqrt (radiusSq l) + sqrt (radiusSq r)) * (sqrt (radiusSq l) + sqrt (radiusSq r))) := by
  unfold Gen.K.too_far
  simp only [tie_get_radius]

/-- `calculate_metric_object` for `Universal2DBox`: IoU, absent when the intersection is 0 -/
theorem tie_u_iou (l r : UBox α) (cl sl cr sr : α) :
    Gen.K.u_iou (fun a b => intersection a b cl sl cr sr) (some l) (some r) = iou l r cl sl cr sr := by
  unfold Gen.K.u_iou iou
  simp only [decide_eq_true_eq]

/-- `is_inside` -/
theorem tie_is_inside (q p1 p2 : Pt α) : Gen.K.is_inside q p1 p2 = isInside q p1 p2 := rfl

/-- `compute_intersection` (after the fix for F11: interpolation between the signed offsets of the two end points
from the clip line) is the model's line-line intersection whenever the offsets differ … -/
theorem tie_compute_intersection [IsStrictOrderedRing α] (cp1 cp2 s e : Pt α) (hD : cross cp1 s e - cross cp2 s e ≠ 0) :
    Gen.K.compute_intersection cp1 cp2 s e = computeIntersection cp1 cp2 s e := by
  rw [C08c.computeIntersection_lerp cp1 cp2 s e hD]
  rfl

/-- … which is the case at both call sites of the clip loop: it is called only for end points on different sides of
the clip edge -/
theorem tie_compute_intersection_called [IsStrictOrderedRing α] (cp1 cp2 s e : Pt α) (h : isInside cp1 s e ≠ isInside cp2 s e) :
    Gen.K.compute_intersection cp1 cp2 s e = computeIntersection cp1 cp2 s e := by
  apply tie_compute_intersection
  rw [← C08c.denom_eq]
  exact C08b.denom_ne_zero_of_sides cp1 cp2 s e h

end SimVerif.Tie
