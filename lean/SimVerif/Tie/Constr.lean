import SimVerif.Gen.LConstr
import SimVerif.Model.Constraints
/-!
# Tie (DESIGN.md 14.8): `SpatioTemporalConstraints::validate` as the Rust source has it now
(`SimVerif.Gen.L.constraints_validate`, regenerated on every run) = `validate` of `SimVerif/Model/Constraints.lean`.
-/
namespace SimVerif.Tie
open SimVerif.Gen.L

/-- `SpatioTemporalConstraints::validate` on a non-negative distance (negative ones are rejected by
the `assert!`, `validate = none` in the model) -/
theorem tie_constraints_validate (cs : List (Nat × Rat)) (gap : Nat) (d : Rat) (hd : ¬ d < 0) :
    Constraints.validate cs gap d = some (constraints_validate cs gap d) := by
  unfold Constraints.validate constraints_validate Constraints.limitFor
  simp only [hd, if_false]
  have hf : (fun (e : Constraints.Entry) => decide (e.1 ≥ gap)) =
      (fun (x : Nat × Rat) => match x with | (d, _) => decide (d ≥ gap)) := by
    funext x; cases x; rfl
  rw [hf]
  cases List.find? _ cs <;> rfl

theorem foldl_push {β : Type} (acc l : List (β × Rat)) :
    List.foldl (fun (acc : List (β × Rat)) (x : β × Rat) => match x with | (d, m) => acc ++ [(d, m)]) acc l = acc ++ l := by
  induction l generalizing acc with
  | nil => simp
  | cons x xs ih => cases x; simp [ih]

theorem dedupByAux_eq (prev : Constraints.Entry) (l : List Constraints.Entry) :
    dedupByAux (fun (x y : Nat × Rat) => match x, y with | (e1, _), (e2, _) => decide (e1 = e2)) prev l
      = Constraints.dedupAux prev l := by
  induction l generalizing prev with
  | nil => rfl
  | cons b rest ih =>
    obtain ⟨b1, b2⟩ := b
    obtain ⟨p1, p2⟩ := prev
    unfold dedupByAux Constraints.dedupAux
    by_cases h : b1 = p1 <;> simp [h, ih]

/-- `SpatioTemporalConstraints::add_constraints` as the source has it now (push every new entry, stable
`sort_by` on the gap, `dedup_by` on equal gaps) is the model's `addConstraints` whenever the `assert!` on the
limits holds (otherwise the code panics and the model answers `none`) -/
theorem tie_add_constraints (cs new : List (Nat × Rat)) (hpos : new.all (fun e => decide (e.2 > 0)) = true) :
    Constraints.addConstraints cs new = some (add_constraints cs new) := by
  unfold Constraints.addConstraints add_constraints
  simp only [hpos, if_true]
  congr 1
  have hpush := foldl_push cs new
  simp only at hpush ⊢
  rw [hpush]
  have hle : (fun (a b : Nat × Rat) => ((fun (x y : Nat × Rat) => match x, y with | (e1, _), (e2, _) => compare e1 e2) a b) != Ordering.gt)
      = Constraints.keyLE := by
    funext a b
    obtain ⟨a1, a2⟩ := a
    obtain ⟨b1, b2⟩ := b
    simp only [Constraints.keyLE]
    rcases Nat.lt_trichotomy a1 b1 with h | h | h
    · simp [Nat.compare_eq_lt.mpr h, Nat.le_of_lt h]
    · simp [h]
    · simp [Nat.compare_eq_gt.mpr h, Nat.not_le.mpr h]
  rw [hle]
  cases hs : (cs ++ new).mergeSort Constraints.keyLE with
  | nil => rfl
  | cons a rest =>
    simp only [Constraints.dedupFirst, dedupBy]
    rw [dedupByAux_eq]

end SimVerif.Tie
