import SimVerif.Gen.LConstr
import SimVerif.Model.Constraints
/-!
# Tie (DESIGN.md 14.8): `SpatioTemporalConstraints::validate` as the Rust source has it now
(`SimVerif.Gen.L.constraints_validate`, regenerated on every run) = `validate` of `SimVerif/Model/Constraints.lean`.
-/
namespace SimVerif.Tie
open SimVerif.Gen.L

/-- `SpatioTemporalConstraints::validate` on a non-negative distance (negative ones are rejected by
the `assert!`, `validate = none` in the model) -/
theorem tie_constraints_validate (cs : List (Nat × Rat)) (gap : Nat) (d : Rat) (hd : ¬ d < 0) :
    Constraints.validate cs gap d = some (constraints_validate cs gap d) := by
  unfold Constraints.validate constraints_validate Constraints.limitFor
  simp only [hd, if_false]
  have hf : (fun (e : Constraints.Entry) => decide (e.1 ≥ gap)) =
      (fun (x : Nat × Rat) => match x with | (d, _) => decide (d ≥ gap)) := by
    funext x; cases x; rfl
  rw [hf]
  cases List.find? _ cs <;> rfl

end SimVerif.Tie
