import SimVerif.Gen.KRadius
import SimVerif.Model.Geom
import Mathlib.Tactic.Ring
import Mathlib.Tactic.Linarith
import Mathlib.Algebra.Order.Field.Basic
/-!
# Tie (DESIGN.md 14.8): `get_radius`, `area` of `/repo/src/utils/bbox.rs` as they are now = the model's `radiusSq`, `area`.
`SimVerif.Gen.K.*` is regenerated from the Rust source by `translator/kernels.py` on every run; `sqrt` is an arbitrary function.
-/
set_option linter.unusedSectionVars false
set_option linter.unusedVariables false
namespace SimVerif.Tie
open SimVerif.Geom
variable {α : Type} [Field α] [LinearOrder α]

theorem two_eq : (two : α) = 2 := by unfold two; exact one_add_one_eq_two

/-- `Universal2DBox::area` -/
theorem tie_area (u : UBox α) : Gen.K.area u = area u := rfl

/-- `get_radius` is the square root of the model's `radiusSq` -/
theorem tie_get_radius (sqrt : α → α) (u : UBox α) : Gen.K.get_radius sqrt u = sqrt (radiusSq u) := by
  unfold Gen.K.get_radius radiusSq
  simp only [two_eq]

end SimVerif.Tie
