import SimVerif.Gen.LCompat
import SimVerif.Model.Tracker
import SimVerif.Model.Constraints
import SimVerif.Tie.Constr
/-!
# Tie (DESIGN.md 14.8): `TrackAttributes::compatible` of `SortAttributes` and `VisualAttributes` as the Rust
source has them now (`SimVerif.Gen.L.*_compatible`, regenerated on every run) = the admissibility rule of the
tracker model (`Tracker.entryOk`: same scene, epoch gap within `max_idle_epochs`) conjoined with the
constraint table's verdict (C03 never-continued, C04 scene isolation, C20 constraints only remove pairs).
-/
namespace SimVerif.Tie
open SimVerif.Gen.L

/-- the rule itself: same scene ∧ `|Δepoch| ≤ max_idle` ∧ the constraint table admits `(|Δepoch|, distance)` -/
theorem tie_sort_compatible (cs : List (Nat × Rat)) (maxIdle s1 s2 l1 l2 : Nat) (d : Rat) :
    sort_compatible cs maxIdle s1 s2 l1 l2 d =
      (decide (s1 = s2) && decide (Int.natAbs ((l1 : Int) - (l2 : Int)) ≤ maxIdle) &&
        constraints_validate cs (Int.natAbs ((l1 : Int) - (l2 : Int))) d) := by
  unfold sort_compatible
  by_cases h : s1 = s2 <;> simp [h, Bool.and_assoc]

theorem tie_visual_compatible (cs : List (Nat × Rat)) (maxIdle s1 s2 l1 l2 : Nat) (d : Rat) :
    visual_compatible cs maxIdle s1 s2 l1 l2 d = sort_compatible cs maxIdle s1 s2 l1 l2 d := rfl

/-- for the candidate of a predict call (scene `scene`, epoch `e`, not before the track's last update) against a
live track `t`: compatibility is the model's `entryOk` condition, and the constraint table's verdict -/
theorem tie_compatible_entryOk (cs : List (Nat × Rat)) (cfg : Tracker.Cfg) (t : Tracker.Trk) (scene e : Nat) (d : Rat)
    (he : t.lastUpd ≤ e) :
    sort_compatible cs cfg.maxIdle scene t.scene e t.lastUpd d =
      ((t.scene == scene && decide (e - t.lastUpd ≤ cfg.maxIdle)) && constraints_validate cs (e - t.lastUpd) d) := by
  rw [tie_sort_compatible]
  have hn : Int.natAbs ((e : Int) - (t.lastUpd : Int)) = e - t.lastUpd := by omega
  rw [hn]
  by_cases hs : scene = t.scene
  · subst hs; simp
  · have : ¬ t.scene = scene := fun h => hs h.symm
    simp [hs, this]

/-- without constraints compatibility is exactly `entryOk`'s condition -/
theorem tie_compatible_no_constraints (cfg : Tracker.Cfg) (t : Tracker.Trk) (scene e : Nat) (d : Rat) (he : t.lastUpd ≤ e) :
    sort_compatible [] cfg.maxIdle scene t.scene e t.lastUpd d = (t.scene == scene && decide (e - t.lastUpd ≤ cfg.maxIdle)) := by
  rw [tie_compatible_entryOk [] cfg t scene e d he]
  simp [constraints_validate]

/-- constraints only remove pairs: a compatible pair is compatible without the table -/
theorem tie_compatible_only_removes (cs : List (Nat × Rat)) (maxIdle s1 s2 l1 l2 : Nat) (d : Rat)
    (h : sort_compatible cs maxIdle s1 s2 l1 l2 d = true) : sort_compatible [] maxIdle s1 s2 l1 l2 d = true := by
  rw [tie_sort_compatible] at h ⊢
  simp only [Bool.and_eq_true, decide_eq_true_eq] at h ⊢
  exact ⟨h.1, by simp [constraints_validate]⟩

end SimVerif.Tie
