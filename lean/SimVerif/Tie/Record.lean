import SimVerif.Gen.LRecord
/-!
# Tie (DESIGN.md 14.11): the records the trackers hand out, as the Rust source builds them now
(`From<&Track> for SortTrack` of the SORT and VisualSORT trackers, `From<Track> for WastedSortTrack` /
`WastedVisualSortTrack`; regenerated on every run): every field is the attribute it names; the observed and predicted box of
a record are the **last** entries of the track's bounded histories; a wasted-track record carries the whole histories, in
order (C01 echo, C13 "the last entries are the ones echoed in the record").
-/
namespace SimVerif.Tie
open SimVerif.Gen.L

theorem tie_sort_track_of {β ι : Type} (id : Nat) (cu : ι) (e s len : Nat) (obs pred : List β) :
    sort_track_of id cu e s len obs pred =
      { id := id, custom := cu, visual := false, epoch := e, scene := s, observed := obs.getLast?, predicted := pred.getLast?, length := len } := rfl

/-- VisualSORT: the record reports visual voting exactly when the track's `voting_type` attribute says so (absent = positional) -/
theorem tie_visual_track_of {β ι : Type} (id : Nat) (cu : ι) (vt : Option Bool) (e s len : Nat) (obs pred : List β) :
    visual_track_of id cu vt e s len obs pred =
      { id := id, custom := cu, visual := vt.getD false, epoch := e, scene := s, observed := obs.getLast?, predicted := pred.getLast?, length := len } := rfl

theorem tie_wasted_sort_track_of {β : Type} (id e s len : Nat) (obs pred : List β) :
    wasted_sort_track_of id e s len obs pred =
      { id := id, epoch := e, scene := s, length := len, observed := obs.getLast?, predicted := pred.getLast?, predictedH := pred, observedH := obs } := rfl

theorem tie_wasted_visual_track_of {β φ : Type} (id e s len : Nat) (obs pred : List β) (feats : List (Option φ)) :
    wasted_visual_track_of id e s len obs pred feats =
      { id := id, epoch := e, scene := s, length := len, observed := obs.getLast?, predicted := pred.getLast?, predictedH := pred, observedH := obs,
        featuresH := feats } := by
  unfold wasted_visual_track_of
  simp only [listOrOptMap, ListOrOptMap.mapC]
  congr 1
  induction feats with
  | nil => rfl
  | cons f rest ih => cases f <;> simp_all

end SimVerif.Tie
