import SimVerif.Tie.Apply
import SimVerif.Model.Tracker
/-!
# Tie (DESIGN.md 14.13): the apply loop of `Sort::predict_with_scene` **is** `applyPicks` of the tracker model

`Tie/Apply.lean` proves the generated loop equal to the fold of `stepI`, for arbitrary store operations. Here the store
operations are instantiated with the list store of `Model/Tracker.lean` (what the tracker model says `add_track`,
`merge_external` and the read-back do to a positional track: `freshTrk`, `contTrk`, `recOfM`), and the loop is proved equal to
`applyPicks` — the function the C01–C03 theorems (`Props/C01.lean` …) are stated about — run on the picks the winners table
denotes (`picksOfW`: the winner if it is another track, else a new track under the next counter value), for **every** winners
table, candidate list and store whose ids do not exceed the counter:

* `tie_apply_model`: `sort_apply_winners` (instantiated) = `applyPicks cfg scene e dets (picksOfW winners cands nextId) st`,
  records in the same order, final counter = the model's `nextId`;
* `tie_apply_model_batch`: the same for the loop in BatchSort's voting thread and `applyPicks` with `batchIds` (every candidate
  consumes a counter value);
* `tie_apply_model_visual`: the same for `VisualSort::predict_with_scene` and `applyPicks` with `cfg.visual` (the winner's voting
  type is written into the candidate before the merge; the gallery, the collected count and the feature history follow the model).

So the control flow of the real loop — order of detections, when an id is drawn, which id a new track gets, that the record is
read back from the stored track after the operation — is the model's, by proof; what the store operations do to a track is tied
separately (`Tie/StoreMap`, `Tie/StoreCmd`, `Tie/Track`, `Tie/Attr`, `Tie/Optimize`, `Tie/Record`).
-/
set_option linter.unusedSectionVars false
set_option linter.unusedVariables false
namespace SimVerif.Tie
open SimVerif.Tracker SimVerif.Gen.L

/-- a candidate track: the random id it was built with, and the detection -/
abbrev Cand := Nat × Det

/-- the track a detection starts (positional trackers) -/
def freshTrk (scene e id : Nat) (d : Det) : Trk :=
  { id := id, scene := scene, lastUpd := e, len := 1, custom := d.custom, obsH := [d.tok], visual := false,
    gallery := [], vcount := featCount [], featH := [] }

/-- the track after a detection was merged into it (positional trackers) -/
def contTrk (cfg : Cfg) (e : Nat) (t : Trk) (d : Det) : Trk :=
  { t with lastUpd := e, len := t.len + 1, custom := d.custom, obsH := pushBounded t.obsH d.tok cfg.histLen, visual := false,
           gallery := t.gallery, vcount := t.vcount, vt := t.vt, featH := t.featH }

/-- the generated loop has one type for candidates and stored tracks (`Track`): here a candidate (left) or a stored model track (right) -/
abbrev TT := Cand ⊕ Trk

def trackIdM : TT → Nat := Sum.elim (fun c => c.1) (fun t => t.id)
def setTrackIdM (x : TT) (i : Nat) : TT := match x with | .inl c => .inl (i, c.2) | .inr t => .inr { t with id := i }

def addTrackM (scene e : Nat) (st : St) (x : TT) : Option St :=
  match x with
  | .inl c => some { st with live := st.live ++ [freshTrk scene e c.1 c.2] }
  | .inr t => some { st with live := st.live ++ [t] }

def mergeExternalM (cfg : Cfg) (e : Nat) (st : St) (dest : Nat) (x : TT) : Option St :=
  match x with
  | .inl c => (findLive st dest).map fun t => { st with live := st.live.map (fun x => if x.id == dest then contTrk cfg e t c.2 else x) }
  | .inr _ => none

def shardOfM (st : St) (_ : Nat) : List (Nat × TT) := st.live.map (fun t => (t.id, Sum.inr t))

/-- `SortTrack::from(track)` on the model track: every field is the attribute it names, the observed box is the last of the history -/
def recOfT (t : Trk) : Rec :=
  { id := t.id, epoch := t.lastUpd, scene := t.scene, len := t.len, custom := t.custom, tok := t.obsH.getLast?.getD 0, visual := t.visual }
def recOfM : TT → Rec
  | .inr t => recOfT t
  | .inl c => { id := c.1, epoch := 0, scene := 0, len := 0, custom := c.2.custom, tok := c.2.tok, visual := false }

/-- the picks a winners table denotes, in submission order; a new track takes the next counter value -/
def picksOfW (winners : List (Nat × List Nat)) : List Cand → Nat → List Pick
  | [], _ => []
  | c :: cs, ctr =>
    match pickOf winners c.1 with
    | some d => Pick.cont d false :: picksOfW winners cs ctr
    | none => Pick.fresh (ctr + 1) :: picksOfW winners cs (ctr + 1)

theorem pushBounded_last (h : List Nat) (x n : Nat) : (pushBounded h x n).getLast? = some x := by
  unfold pushBounded
  simp only []
  split
  · rename_i hc
    cases h with
    | nil => simp at hc; omega
    | cons a r => simp
  · simp

theorem mapGet_updated (live : List Trk) (d : Nat) (t t' : Trk) (hid : t'.id = t.id)
    (hf : live.find? (fun x => x.id == d) = some t) :
    mapGet ((live.map (fun x => if x.id == d then t' else x)).map (fun u => (u.id, (Sum.inr u : TT)))) d = some (Sum.inr t') := by
  unfold mapGet
  induction live with
  | nil => simp at hf
  | cons a rest ih =>
    simp only [List.find?_cons] at hf
    by_cases ha : (a.id == d) = true
    · simp only [ha, Option.some.injEq] at hf
      subst hf
      simp only [List.map_cons, ha, ↓reduceIte, List.find?_cons, hid]
      simp
    · simp only [ha] at hf
      simp only [List.map_cons, ha, Bool.false_eq_true, ↓reduceIte, List.find?_cons]
      exact ih hf

theorem mapGet_appended (live : List Trk) (k : Nat) (t' : Trk) (hid : t'.id = k) (hlt : ∀ u ∈ live, u.id < k) :
    mapGet ((live ++ [t']).map (fun u => (u.id, (Sum.inr u : TT)))) k = some (Sum.inr t') := by
  unfold mapGet
  induction live with
  | nil => simp [hid]
  | cons a rest ih =>
    have ha : (a.id == k) = false := by
      have := hlt a (List.mem_cons_self); simp; omega
    simp only [List.cons_append, List.map_cons, List.find?_cons, ha]
    exact ih (fun u hu => hlt u (List.mem_cons_of_mem _ hu))

/-- the model step, for the positional simple tracker -/
abbrev stepM (cfg : Cfg) (scene e : Nat) (winners : List (Nat × List Nat)) :=
  stepI (T := TT) (DB := St) (R := Rec) trackIdM setTrackIdM (addTrackM scene e) (mergeExternalM cfg e) shardOfM recOfM winners

/-- the store after detection `d'` was merged into track `t` (id `d`) -/
def contDb (cfg : Cfg) (e : Nat) (db : St) (d : Nat) (t : Trk) (d' : Det) : St :=
  { db with live := db.live.map (fun x => if x.id == d then contTrk cfg e t d' else x) }

/-- the store after detection `d'` started track `k` -/
def freshDb (scene e : Nat) (db : St) (k : Nat) (d' : Det) : St :=
  { db with live := db.live ++ [freshTrk scene e k d'] }

theorem step_cont (cfg : Cfg) (scene e : Nat) (winners : List (Nat × List Nat)) (c : Cand) (d : Nat) (t : Trk)
    (db : St) (ctr : Nat) (res : List Rec) (ids : List (Nat × Bool))
    (hp : pickOf winners c.1 = some d) (hf : db.live.find? (fun x => x.id == d) = some t) :
    stepM cfg scene e winners ((ctr, db, res), ids) (Sum.inl c) =
      some ((ctr, contDb cfg e db d t c.2, res ++ [recOfT (contTrk cfg e t c.2)]), ids ++ [(d, false)]) := by
  simp only [stepM, stepI, trackIdM, Sum.elim_inl, hp, mergeExternalM, findLive, hf, Option.map_some, Option.bind_some, shardOfM]
  rw [mapGet_updated db.live d t (contTrk cfg e t c.2) rfl hf]
  rfl

theorem step_cont_none (cfg : Cfg) (scene e : Nat) (winners : List (Nat × List Nat)) (c : Cand) (d : Nat)
    (db : St) (ctr : Nat) (res : List Rec) (ids : List (Nat × Bool))
    (hp : pickOf winners c.1 = some d) (hf : db.live.find? (fun x => x.id == d) = none) :
    stepM cfg scene e winners ((ctr, db, res), ids) (Sum.inl c) = none := by
  simp only [stepM, stepI, trackIdM, Sum.elim_inl, hp, mergeExternalM, findLive, hf, Option.map_none, Option.bind_none]

theorem step_fresh (cfg : Cfg) (scene e : Nat) (winners : List (Nat × List Nat)) (c : Cand)
    (db : St) (ctr : Nat) (res : List Rec) (ids : List (Nat × Bool))
    (hp : pickOf winners c.1 = none) (hle : ∀ u ∈ db.live, u.id ≤ ctr) :
    stepM cfg scene e winners ((ctr, db, res), ids) (Sum.inl c) =
      some ((ctr + 1, freshDb scene e db (ctr + 1) c.2, res ++ [recOfT (freshTrk scene e (ctr + 1) c.2)]), ids ++ [(ctr + 1, true)]) := by
  simp only [stepM, stepI, trackIdM, Sum.elim_inl, hp, setTrackIdM, addTrackM, Option.bind_some, shardOfM]
  rw [mapGet_appended db.live (ctr + 1) (freshTrk scene e (ctr + 1) c.2) rfl (fun u hu => Nat.lt_succ_of_le (hle u hu))]
  rfl

theorem applyPick_cont (cfg : Cfg) (hb : cfg.batchIds = false) (hv : cfg.visual = false) (scene e : Nat) (db : St) (ctr : Nat) (d' : Det)
    (d : Nat) (t : Trk) (hf : db.live.find? (fun x => x.id == d) = some t) :
    applyPick cfg scene e { db with nextId := ctr } d' (Pick.cont d false) =
      some ({ contDb cfg e db d t d' with nextId := ctr }, recOfT (contTrk cfg e t d')) := by
  have hid : t.id = d := by simpa using List.find?_some hf
  simp only [applyPick, hb, hv, Bool.false_eq_true, ↓reduceIte, findLive, hf, contDb, contTrk, recOfT, pushBounded_last, hid,
    Option.getD_some]

theorem applyPick_cont_none (cfg : Cfg) (hb : cfg.batchIds = false) (scene e : Nat) (db : St) (ctr : Nat) (d' : Det)
    (d : Nat) (hf : db.live.find? (fun x => x.id == d) = none) :
    applyPick cfg scene e { db with nextId := ctr } d' (Pick.cont d false) = none := by
  simp only [applyPick, hb, Bool.false_eq_true, ↓reduceIte, findLive, hf]

theorem applyPick_fresh (cfg : Cfg) (hb : cfg.batchIds = false) (hv : cfg.visual = false) (scene e : Nat) (db : St) (ctr : Nat) (d' : Det) (k : Nat) :
    applyPick cfg scene e { db with nextId := ctr } d' (Pick.fresh k) =
      some ({ freshDb scene e db k d' with nextId := ctr + 1 }, recOfT (freshTrk scene e k d')) := by
  simp [applyPick, hb, hv, freshDb, freshTrk, recOfT]

/-- **the fold of the real loop's step over the model store is `applyPicks`** (generalised over the records and ids so far) -/
theorem runG_applyPicks (cfg : Cfg) (hb : cfg.batchIds = false) (hv : cfg.visual = false) (scene e : Nat)
    (winners : List (Nat × List Nat)) (cands : List Cand) :
    ∀ (db : St) (ctr : Nat) (res : List Rec) (ids : List (Nat × Bool)), (∀ t ∈ db.live, t.id ≤ ctr) →
    (runG (stepM cfg scene e winners) (cands.map Sum.inl) ((ctr, db, res), ids)).map (fun r => (({ r.1.2.1 with nextId := r.1.1 } : St), r.1.2.2)) =
    (applyPicks cfg scene e (cands.map (·.2)) (picksOfW winners cands ctr) { db with nextId := ctr }).map
      (fun p => (p.1, res ++ p.2)) := by
  induction cands with
  | nil => intro db ctr res ids _; simp [runG, applyPicks, picksOfW]
  | cons c cs ih =>
    intro db ctr res ids hle
    simp only [runG, List.map_cons, picksOfW]
    cases hp : pickOf winners c.1 with
    | some d =>
      simp only [applyPicks]
      cases hf : db.live.find? (fun x => x.id == d) with
      | none =>
        rw [step_cont_none cfg scene e winners c d db ctr res ids hp hf, applyPick_cont_none cfg hb scene e db ctr c.2 d hf]
        rfl
      | some t =>
        have hid : t.id = d := by simpa using List.find?_some hf
        rw [step_cont cfg scene e winners c d t db ctr res ids hp hf, applyPick_cont cfg hb hv scene e db ctr c.2 d t hf,
          Option.bind_some]
        have hle' : ∀ u ∈ (contDb cfg e db d t c.2).live, u.id ≤ ctr := by
          intro u hu
          simp only [contDb, List.mem_map] at hu
          obtain ⟨x, hx, rfl⟩ := hu
          by_cases hxd : (x.id == d) = true
          · simp only [hxd, ↓reduceIte, contTrk]; exact hid ▸ hle t (List.mem_of_find?_eq_some hf)
          · simp only [hxd, Bool.false_eq_true, ↓reduceIte]; exact hle x hx
        rw [ih _ ctr _ _ hle']
        simp only []
        cases applyPicks cfg scene e (cs.map (·.2)) (picksOfW winners cs ctr) { contDb cfg e db d t c.2 with nextId := ctr } with
        | none => rfl
        | some r => simp [List.append_assoc]
    | none =>
      simp only [applyPicks]
      rw [step_fresh cfg scene e winners c db ctr res ids hp hle, applyPick_fresh cfg hb hv scene e db ctr c.2 (ctr + 1),
        Option.bind_some]
      have hle' : ∀ u ∈ (freshDb scene e db (ctr + 1) c.2).live, u.id ≤ ctr + 1 := by
        intro u hu
        simp only [freshDb, List.mem_append, List.mem_singleton] at hu
        rcases hu with hu | rfl
        · exact Nat.le_succ_of_le (hle u hu)
        · exact Nat.le_refl _
      rw [ih _ (ctr + 1) _ _ hle']
      simp only []
      cases applyPicks cfg scene e (cs.map (·.2)) (picksOfW winners cs (ctr + 1)) { freshDb scene e db (ctr + 1) c.2 with nextId := ctr + 1 } with
      | none => rfl
      | some r => simp [List.append_assoc]

/-- **`Sort::predict_with_scene`'s apply loop, on the model store, is `applyPicks`** on the picks the winners denote -/
theorem tie_apply_model (cfg : Cfg) (hb : cfg.batchIds = false) (hv : cfg.visual = false) (scene e : Nat)
    (winners : List (Nat × List Nat)) (cands : List Cand) (st : St) (hle : ∀ t ∈ st.live, t.id ≤ st.nextId) :
    (sort_apply_winners (T := TT) (DB := St) (R := Rec) trackIdM setTrackIdM (addTrackM scene e) (mergeExternalM cfg e)
        shardOfM recOfM winners (cands.map Sum.inl) st.nextId st).map (fun r => (({ r.2.1 with nextId := r.1 } : St), r.2.2)) =
      applyPicks cfg scene e (cands.map (·.2)) (picksOfW winners cands st.nextId) st := by
  rw [tie_sort_apply_winners]
  have := runG_applyPicks cfg hb hv scene e winners cands st st.nextId [] [] hle
  simp only [Option.map_map] at this ⊢
  rw [show ((fun r : Nat × St × List Rec => (({ r.2.1 with nextId := r.1 } : St), r.2.2)) ∘ fun x : RunSt St Rec => x.1) =
      (fun r : RunSt St Rec => (({ r.1.2.1 with nextId := r.1.1 } : St), r.1.2.2)) from rfl]
  rw [this]
  cases applyPicks cfg scene e (cands.map (·.2)) (picksOfW winners cands st.nextId) st with
  | none => rfl
  | some p => simp

/-! ### BatchSort: the voting thread's loop is `applyPicks` with `batchIds` (an id is consumed by every candidate) -/

abbrev stepMB (cfg : Cfg) (scene e : Nat) (winners : List (Nat × List Nat)) :=
  stepB (T := TT) (DB := St) (R := Rec) trackIdM setTrackIdM (addTrackM scene e) (mergeExternalM cfg e) shardOfM recOfM winners

def picksOfWB (winners : List (Nat × List Nat)) : List Cand → Nat → List Pick
  | [], _ => []
  | c :: cs, ctr =>
    match pickOf winners c.1 with
    | some d => Pick.cont d false :: picksOfWB winners cs (ctr + 1)
    | none => Pick.fresh (ctr + 1) :: picksOfWB winners cs (ctr + 1)

theorem stepB_cont (cfg : Cfg) (scene e : Nat) (winners : List (Nat × List Nat)) (c : Cand) (d : Nat) (t : Trk)
    (db : St) (ctr : Nat) (res : List Rec) (ids : List (Nat × Bool))
    (hp : pickOf winners c.1 = some d) (hf : db.live.find? (fun x => x.id == d) = some t) :
    stepMB cfg scene e winners ((ctr, db, res), ids) (Sum.inl c) =
      some ((ctr + 1, contDb cfg e db d t c.2, res ++ [recOfT (contTrk cfg e t c.2)]), ids ++ [(d, false)]) := by
  simp only [stepMB, stepB, trackIdM, Sum.elim_inl, hp, mergeExternalM, findLive, hf, Option.map_some, Option.bind_some, shardOfM]
  rw [mapGet_updated db.live d t (contTrk cfg e t c.2) rfl hf]
  rfl

theorem stepB_cont_none (cfg : Cfg) (scene e : Nat) (winners : List (Nat × List Nat)) (c : Cand) (d : Nat)
    (db : St) (ctr : Nat) (res : List Rec) (ids : List (Nat × Bool))
    (hp : pickOf winners c.1 = some d) (hf : db.live.find? (fun x => x.id == d) = none) :
    stepMB cfg scene e winners ((ctr, db, res), ids) (Sum.inl c) = none := by
  simp only [stepMB, stepB, trackIdM, Sum.elim_inl, hp, mergeExternalM, findLive, hf, Option.map_none, Option.bind_none]

theorem stepB_fresh (cfg : Cfg) (scene e : Nat) (winners : List (Nat × List Nat)) (c : Cand)
    (db : St) (ctr : Nat) (res : List Rec) (ids : List (Nat × Bool))
    (hp : pickOf winners c.1 = none) (hle : ∀ u ∈ db.live, u.id ≤ ctr) :
    stepMB cfg scene e winners ((ctr, db, res), ids) (Sum.inl c) =
      some ((ctr + 1, freshDb scene e db (ctr + 1) c.2, res ++ [recOfT (freshTrk scene e (ctr + 1) c.2)]), ids ++ [(ctr + 1, true)]) := by
  simp only [stepMB, stepB, trackIdM, Sum.elim_inl, hp, setTrackIdM, addTrackM, Option.bind_some, shardOfM]
  rw [mapGet_appended db.live (ctr + 1) (freshTrk scene e (ctr + 1) c.2) rfl (fun u hu => Nat.lt_succ_of_le (hle u hu))]
  rfl

theorem applyPickB_cont (cfg : Cfg) (hb : cfg.batchIds = true) (hv : cfg.visual = false) (scene e : Nat) (db : St) (ctr : Nat) (d' : Det)
    (d : Nat) (t : Trk) (hf : db.live.find? (fun x => x.id == d) = some t) :
    applyPick cfg scene e { db with nextId := ctr } d' (Pick.cont d false) =
      some ({ contDb cfg e db d t d' with nextId := ctr + 1 }, recOfT (contTrk cfg e t d')) := by
  have hid : t.id = d := by simpa using List.find?_some hf
  simp only [applyPick, hb, hv, Bool.false_eq_true, ↓reduceIte, findLive, hf, contDb, contTrk, recOfT, pushBounded_last, hid,
    Option.getD_some]

theorem applyPickB_cont_none (cfg : Cfg) (hb : cfg.batchIds = true) (scene e : Nat) (db : St) (ctr : Nat) (d' : Det)
    (d : Nat) (hf : db.live.find? (fun x => x.id == d) = none) :
    applyPick cfg scene e { db with nextId := ctr } d' (Pick.cont d false) = none := by
  simp only [applyPick, hb, ↓reduceIte, findLive, hf]

theorem applyPickB_fresh (cfg : Cfg) (hb : cfg.batchIds = true) (hv : cfg.visual = false) (scene e : Nat) (db : St) (ctr : Nat) (d' : Det) (k : Nat) :
    applyPick cfg scene e { db with nextId := ctr } d' (Pick.fresh k) =
      some ({ freshDb scene e db k d' with nextId := ctr + 1 }, recOfT (freshTrk scene e k d')) := by
  simp [applyPick, hb, hv, freshDb, freshTrk, recOfT]

theorem runG_applyPicksB (cfg : Cfg) (hb : cfg.batchIds = true) (hv : cfg.visual = false) (scene e : Nat)
    (winners : List (Nat × List Nat)) (cands : List Cand) :
    ∀ (db : St) (ctr : Nat) (res : List Rec) (ids : List (Nat × Bool)), (∀ t ∈ db.live, t.id ≤ ctr) →
    (runG (stepMB cfg scene e winners) (cands.map Sum.inl) ((ctr, db, res), ids)).map (fun r => (({ r.1.2.1 with nextId := r.1.1 } : St), r.1.2.2)) =
    (applyPicks cfg scene e (cands.map (·.2)) (picksOfWB winners cands ctr) { db with nextId := ctr }).map
      (fun p => (p.1, res ++ p.2)) := by
  induction cands with
  | nil => intro db ctr res ids _; simp [runG, applyPicks, picksOfWB]
  | cons c cs ih =>
    intro db ctr res ids hle
    simp only [runG, List.map_cons, picksOfWB]
    cases hp : pickOf winners c.1 with
    | some d =>
      simp only [applyPicks]
      cases hf : db.live.find? (fun x => x.id == d) with
      | none =>
        rw [stepB_cont_none cfg scene e winners c d db ctr res ids hp hf, applyPickB_cont_none cfg hb scene e db ctr c.2 d hf]
        rfl
      | some t =>
        have hid : t.id = d := by simpa using List.find?_some hf
        rw [stepB_cont cfg scene e winners c d t db ctr res ids hp hf, applyPickB_cont cfg hb hv scene e db ctr c.2 d t hf,
          Option.bind_some]
        have hle' : ∀ u ∈ (contDb cfg e db d t c.2).live, u.id ≤ ctr + 1 := by
          intro u hu
          simp only [contDb, List.mem_map] at hu
          obtain ⟨x, hx, rfl⟩ := hu
          by_cases hxd : (x.id == d) = true
          · simp only [hxd, ↓reduceIte, contTrk]; exact Nat.le_succ_of_le (hid ▸ hle t (List.mem_of_find?_eq_some hf))
          · simp only [hxd, Bool.false_eq_true, ↓reduceIte]; exact Nat.le_succ_of_le (hle x hx)
        rw [ih _ (ctr + 1) _ _ hle']
        simp only []
        cases applyPicks cfg scene e (cs.map (·.2)) (picksOfWB winners cs (ctr + 1)) { contDb cfg e db d t c.2 with nextId := ctr + 1 } with
        | none => rfl
        | some r => simp [List.append_assoc]
    | none =>
      simp only [applyPicks]
      rw [stepB_fresh cfg scene e winners c db ctr res ids hp hle, applyPickB_fresh cfg hb hv scene e db ctr c.2 (ctr + 1),
        Option.bind_some]
      have hle' : ∀ u ∈ (freshDb scene e db (ctr + 1) c.2).live, u.id ≤ ctr + 1 := by
        intro u hu
        simp only [freshDb, List.mem_append, List.mem_singleton] at hu
        rcases hu with hu | rfl
        · exact Nat.le_succ_of_le (hle u hu)
        · exact Nat.le_refl _
      rw [ih _ (ctr + 1) _ _ hle']
      simp only []
      cases applyPicks cfg scene e (cs.map (·.2)) (picksOfWB winners cs (ctr + 1)) { freshDb scene e db (ctr + 1) c.2 with nextId := ctr + 1 } with
      | none => rfl
      | some r => simp [List.append_assoc]

/-- **BatchSort's apply loop, on the model store, is `applyPicks`** with `batchIds` -/
theorem tie_apply_model_batch (cfg : Cfg) (hb : cfg.batchIds = true) (hv : cfg.visual = false) (scene e : Nat)
    (winners : List (Nat × List Nat)) (cands : List Cand) (st : St) (hle : ∀ t ∈ st.live, t.id ≤ st.nextId) :
    (batch_sort_apply_winners (T := TT) (DB := St) (R := Rec) trackIdM setTrackIdM (addTrackM scene e) (mergeExternalM cfg e)
        shardOfM recOfM winners (cands.map Sum.inl) st.nextId st).map (fun r => (({ r.2.1 with nextId := r.1 } : St), r.2.2)) =
      applyPicks cfg scene e (cands.map (·.2)) (picksOfWB winners cands st.nextId) st := by
  rw [tie_batch_sort_apply_winners]
  have := runG_applyPicksB cfg hb hv scene e winners cands st st.nextId [] [] hle
  simp only [Option.map_map] at this ⊢
  rw [show ((fun r : Nat × St × List Rec => (({ r.2.1 with nextId := r.1 } : St), r.2.2)) ∘ fun x : RunSt St Rec => x.1) =
      (fun r : RunSt St Rec => (({ r.1.2.1 with nextId := r.1.1 } : St), r.1.2.2)) from rfl]
  rw [this]
  cases applyPicks cfg scene e (cands.map (·.2)) (picksOfWB winners cands st.nextId) st with
  | none => rfl
  | some p => simp

/-- non-vacuity: one live track (id 1), two detections — the first continues it (winner `[1]`), the second has no winner and
starts track 2 -/
example :
    let cfg : Cfg := { maxIdle := 3, histLen := 2, batchIds := false, thr := 0 }
    let st : St := { live := [Trk.simple 1 0 4 1 none [7]], nextId := 1 }
    (applyPicks cfg 0 5 [Det.simple 8 none, Det.simple 9 none] (picksOfW [(100, [1])] [(100, Det.simple 8 none), (101, Det.simple 9 none)] 1) st).map
      (fun p => (p.1.nextId, p.1.live.map (·.id), p.2.map (fun r => (r.id, r.len, r.tok)))) =
    some (2, [1, 2], [(1, 2, 8), (2, 1, 9)]) := by decide

/-! ### VisualSort: the same statement with the appearance data (`cfg.visual`) -/

/-- a VisualSORT candidate also carries the voting type written into it before the merge -/
abbrev TTV := (Cand × Option Bool) ⊕ Trk

def trackIdV : TTV → Nat := Sum.elim (fun c => c.1.1) (fun t => t.id)
def setTrackIdV (x : TTV) (i : Nat) : TTV := match x with | .inl c => .inl ((i, c.1.2), c.2) | .inr t => .inr { t with id := i }
def addVotingObsV (x : TTV) (vt : Option Bool) : Option TTV := match x with | .inl c => some (.inl (c.1, vt)) | .inr t => some (.inr t)

/-- the track a detection starts (VisualSORT): its gallery holds the detection's observation -/
def freshTrkV (scene e id : Nat) (d : Det) : Trk :=
  { id := id, scene := scene, lastUpd := e, len := 1, custom := d.custom, obsH := [d.tok], visual := false,
    gallery := [{ quality := d.quality, feat := d.feat, box := true }],
    vcount := featCount [{ quality := d.quality, feat := d.feat, box := true }], featH := [d.feat] }

/-- the track after a detection was merged into it with voting type `vis` (VisualSORT) -/
def contTrkV (cfg : Cfg) (e : Nat) (t : Trk) (d : Det) (vis : Bool) : Trk :=
  { t with lastUpd := e, len := t.len + 1, custom := d.custom, obsH := pushBounded t.obsH d.tok cfg.histLen, visual := vis,
           gallery := galleryUpdate cfg.maxObs t.gallery { quality := d.quality, feat := if d.collectOk then d.feat else 0, box := true },
           vcount := featCount (galleryUpdate cfg.maxObs t.gallery { quality := d.quality, feat := if d.collectOk then d.feat else 0, box := true }),
           vt := some vis, featH := pushBounded t.featH d.feat cfg.histLen }

def addTrackV (scene e : Nat) (st : St) (x : TTV) : Option St :=
  match x with
  | .inl c => some { st with live := st.live ++ [freshTrkV scene e c.1.1 c.1.2] }
  | .inr t => some { st with live := st.live ++ [t] }

def mergeExternalV (cfg : Cfg) (e : Nat) (st : St) (dest : Nat) (x : TTV) : Option St :=
  match x with
  | .inl c => (findLive st dest).map fun t =>
      { st with live := st.live.map (fun x => if x.id == dest then contTrkV cfg e t c.1.2 (c.2.getD false) else x) }
  | .inr _ => none

def shardOfV (st : St) (_ : Nat) : List (Nat × TTV) := st.live.map (fun t => (t.id, Sum.inr t))
def recOfV : TTV → Rec
  | .inr t => recOfT t
  | .inl c => { id := c.1.1, epoch := 0, scene := 0, len := 0, custom := c.1.2.custom, tok := c.1.2.tok, visual := false }

def picksOfWV (winners : List (Nat × List (Nat × Bool))) : List Cand → Nat → List Pick
  | [], _ => []
  | c :: cs, ctr =>
    match pickOfV winners c.1 with
    | some (d, vis) => Pick.cont d vis :: picksOfWV winners cs ctr
    | none => Pick.fresh (ctr + 1) :: picksOfWV winners cs (ctr + 1)

theorem mapGet_updatedV (live : List Trk) (d : Nat) (t t' : Trk) (hid : t'.id = t.id)
    (hf : live.find? (fun x => x.id == d) = some t) :
    mapGet ((live.map (fun x => if x.id == d then t' else x)).map (fun u => (u.id, (Sum.inr u : TTV)))) d = some (Sum.inr t') := by
  unfold mapGet
  induction live with
  | nil => simp at hf
  | cons a rest ih =>
    simp only [List.find?_cons] at hf
    by_cases ha : (a.id == d) = true
    · simp only [ha, Option.some.injEq] at hf
      subst hf
      simp only [List.map_cons, ha, ↓reduceIte, List.find?_cons, hid]
      simp
    · simp only [ha] at hf
      simp only [List.map_cons, ha, Bool.false_eq_true, ↓reduceIte, List.find?_cons]
      exact ih hf

theorem mapGet_appendedV (live : List Trk) (k : Nat) (t' : Trk) (hid : t'.id = k) (hlt : ∀ u ∈ live, u.id < k) :
    mapGet ((live ++ [t']).map (fun u => (u.id, (Sum.inr u : TTV)))) k = some (Sum.inr t') := by
  unfold mapGet
  induction live with
  | nil => simp [hid]
  | cons a rest ih =>
    have ha : (a.id == k) = false := by
      have := hlt a (List.mem_cons_self); simp; omega
    simp only [List.cons_append, List.map_cons, List.find?_cons, ha]
    exact ih (fun u hu => hlt u (List.mem_cons_of_mem _ hu))

abbrev stepMV (cfg : Cfg) (scene e : Nat) (winners : List (Nat × List (Nat × Bool))) :=
  stepV (T := TTV) (DB := St) (R := Rec) (V := Bool) trackIdV setTrackIdV id addVotingObsV (addTrackV scene e) (mergeExternalV cfg e)
    shardOfV recOfV winners

def contDbV (cfg : Cfg) (e : Nat) (db : St) (d : Nat) (t : Trk) (d' : Det) (vis : Bool) : St :=
  { db with live := db.live.map (fun x => if x.id == d then contTrkV cfg e t d' vis else x) }
def freshDbV (scene e : Nat) (db : St) (k : Nat) (d' : Det) : St :=
  { db with live := db.live ++ [freshTrkV scene e k d'] }

theorem stepV_cont (cfg : Cfg) (scene e : Nat) (winners : List (Nat × List (Nat × Bool))) (c : Cand) (d : Nat) (vis : Bool) (t : Trk)
    (db : St) (ctr : Nat) (res : List Rec) (ids : List (Nat × Bool))
    (hp : pickOfV winners c.1 = some (d, vis)) (hf : db.live.find? (fun x => x.id == d) = some t) :
    stepMV cfg scene e winners ((ctr, db, res), ids) (Sum.inl (c, none)) =
      some ((ctr, contDbV cfg e db d t c.2 vis, res ++ [recOfT (contTrkV cfg e t c.2 vis)]), ids ++ [(d, false)]) := by
  simp only [stepMV, stepV, trackIdV, Sum.elim_inl, hp, addVotingObsV, Option.bind_some, mergeExternalV, findLive, hf, Option.map_some,
    shardOfV, Option.getD_some]
  rw [mapGet_updatedV db.live d t (contTrkV cfg e t c.2 vis) rfl hf]
  rfl

theorem stepV_cont_none (cfg : Cfg) (scene e : Nat) (winners : List (Nat × List (Nat × Bool))) (c : Cand) (d : Nat) (vis : Bool)
    (db : St) (ctr : Nat) (res : List Rec) (ids : List (Nat × Bool))
    (hp : pickOfV winners c.1 = some (d, vis)) (hf : db.live.find? (fun x => x.id == d) = none) :
    stepMV cfg scene e winners ((ctr, db, res), ids) (Sum.inl (c, none)) = none := by
  simp only [stepMV, stepV, trackIdV, Sum.elim_inl, hp, addVotingObsV, Option.bind_some, mergeExternalV, findLive, hf, Option.map_none,
    Option.bind_none]

theorem stepV_fresh (cfg : Cfg) (scene e : Nat) (winners : List (Nat × List (Nat × Bool))) (c : Cand)
    (db : St) (ctr : Nat) (res : List Rec) (ids : List (Nat × Bool))
    (hp : pickOfV winners c.1 = none) (hle : ∀ u ∈ db.live, u.id ≤ ctr) :
    stepMV cfg scene e winners ((ctr, db, res), ids) (Sum.inl (c, none)) =
      some ((ctr + 1, freshDbV scene e db (ctr + 1) c.2, res ++ [recOfT (freshTrkV scene e (ctr + 1) c.2)]), ids ++ [(ctr + 1, true)]) := by
  simp only [stepMV, stepV, trackIdV, Sum.elim_inl, hp, id, setTrackIdV, addTrackV, Option.bind_some, shardOfV]
  rw [mapGet_appendedV db.live (ctr + 1) (freshTrkV scene e (ctr + 1) c.2) rfl (fun u hu => Nat.lt_succ_of_le (hle u hu))]
  rfl

theorem applyPickV_cont (cfg : Cfg) (hb : cfg.batchIds = false) (hv : cfg.visual = true) (scene e : Nat) (db : St) (ctr : Nat) (d' : Det)
    (d : Nat) (vis : Bool) (t : Trk) (hf : db.live.find? (fun x => x.id == d) = some t) :
    applyPick cfg scene e { db with nextId := ctr } d' (Pick.cont d vis) =
      some ({ contDbV cfg e db d t d' vis with nextId := ctr }, { recOfT (contTrkV cfg e t d' vis) with visual := vis }) := by
  have hid : t.id = d := by simpa using List.find?_some hf
  simp only [applyPick, hb, hv, Bool.false_eq_true, ↓reduceIte, findLive, hf, contDbV, contTrkV, recOfT, pushBounded_last, hid,
    Option.getD_some]

theorem applyPickV_cont_none (cfg : Cfg) (hb : cfg.batchIds = false) (scene e : Nat) (db : St) (ctr : Nat) (d' : Det)
    (d : Nat) (vis : Bool) (hf : db.live.find? (fun x => x.id == d) = none) :
    applyPick cfg scene e { db with nextId := ctr } d' (Pick.cont d vis) = none := by
  simp only [applyPick, hb, Bool.false_eq_true, ↓reduceIte, findLive, hf]

theorem applyPickV_fresh (cfg : Cfg) (hb : cfg.batchIds = false) (hv : cfg.visual = true) (scene e : Nat) (db : St) (ctr : Nat) (d' : Det) (k : Nat) :
    applyPick cfg scene e { db with nextId := ctr } d' (Pick.fresh k) =
      some ({ freshDbV scene e db k d' with nextId := ctr + 1 }, recOfT (freshTrkV scene e k d')) := by
  simp [applyPick, hb, hv, freshDbV, freshTrkV, recOfT]

theorem recOfT_contTrkV_visual (cfg : Cfg) (e : Nat) (t : Trk) (d : Det) (vis : Bool) :
    ({ recOfT (contTrkV cfg e t d vis) with visual := vis } : Rec) = recOfT (contTrkV cfg e t d vis) := rfl

theorem runG_applyPicksV (cfg : Cfg) (hb : cfg.batchIds = false) (hv : cfg.visual = true) (scene e : Nat)
    (winners : List (Nat × List (Nat × Bool))) (cands : List Cand) :
    ∀ (db : St) (ctr : Nat) (res : List Rec) (ids : List (Nat × Bool)), (∀ t ∈ db.live, t.id ≤ ctr) →
    (runG (stepMV cfg scene e winners) (cands.map (fun c => Sum.inl (c, none))) ((ctr, db, res), ids)).map
        (fun r => (({ r.1.2.1 with nextId := r.1.1 } : St), r.1.2.2)) =
    (applyPicks cfg scene e (cands.map (·.2)) (picksOfWV winners cands ctr) { db with nextId := ctr }).map
      (fun p => (p.1, res ++ p.2)) := by
  induction cands with
  | nil => intro db ctr res ids _; simp [runG, applyPicks, picksOfWV]
  | cons c cs ih =>
    intro db ctr res ids hle
    simp only [runG, List.map_cons, picksOfWV]
    cases hp : pickOfV winners c.1 with
    | some dv =>
      obtain ⟨d, vis⟩ := dv
      simp only [applyPicks]
      cases hf : db.live.find? (fun x => x.id == d) with
      | none =>
        rw [stepV_cont_none cfg scene e winners c d vis db ctr res ids hp hf, applyPickV_cont_none cfg hb scene e db ctr c.2 d vis hf]
        rfl
      | some t =>
        have hid : t.id = d := by simpa using List.find?_some hf
        rw [stepV_cont cfg scene e winners c d vis t db ctr res ids hp hf, applyPickV_cont cfg hb hv scene e db ctr c.2 d vis t hf,
          Option.bind_some, recOfT_contTrkV_visual]
        have hle' : ∀ u ∈ (contDbV cfg e db d t c.2 vis).live, u.id ≤ ctr := by
          intro u hu
          simp only [contDbV, List.mem_map] at hu
          obtain ⟨x, hx, rfl⟩ := hu
          by_cases hxd : (x.id == d) = true
          · simp only [hxd, ↓reduceIte, contTrkV]; exact hid ▸ hle t (List.mem_of_find?_eq_some hf)
          · simp only [hxd, Bool.false_eq_true, ↓reduceIte]; exact hle x hx
        rw [ih _ ctr _ _ hle']
        simp only []
        cases applyPicks cfg scene e (cs.map (·.2)) (picksOfWV winners cs ctr) { contDbV cfg e db d t c.2 vis with nextId := ctr } with
        | none => rfl
        | some r => simp [List.append_assoc]
    | none =>
      simp only [applyPicks]
      rw [stepV_fresh cfg scene e winners c db ctr res ids hp hle, applyPickV_fresh cfg hb hv scene e db ctr c.2 (ctr + 1),
        Option.bind_some]
      have hle' : ∀ u ∈ (freshDbV scene e db (ctr + 1) c.2).live, u.id ≤ ctr + 1 := by
        intro u hu
        simp only [freshDbV, List.mem_append, List.mem_singleton] at hu
        rcases hu with hu | rfl
        · exact Nat.le_succ_of_le (hle u hu)
        · exact Nat.le_refl _
      rw [ih _ (ctr + 1) _ _ hle']
      simp only []
      cases applyPicks cfg scene e (cs.map (·.2)) (picksOfWV winners cs (ctr + 1)) { freshDbV scene e db (ctr + 1) c.2 with nextId := ctr + 1 } with
      | none => rfl
      | some r => simp [List.append_assoc]

/-- **`VisualSort::predict_with_scene`'s apply loop, on the model store, is `applyPicks`** with `cfg.visual`: the voting type of the
winner is written into the record and the track, the gallery and the feature history are updated as the model says -/
theorem tie_apply_model_visual (cfg : Cfg) (hb : cfg.batchIds = false) (hv : cfg.visual = true) (scene e : Nat)
    (winners : List (Nat × List (Nat × Bool))) (cands : List Cand) (st : St) (hle : ∀ t ∈ st.live, t.id ≤ st.nextId) :
    (visual_apply_winners (T := TTV) (DB := St) (R := Rec) (V := Bool) trackIdV setTrackIdV id addVotingObsV (addTrackV scene e)
        (mergeExternalV cfg e) shardOfV recOfV winners (cands.map (fun c => Sum.inl (c, none))) st.nextId st).map
        (fun r => (({ r.2.1 with nextId := r.1 } : St), r.2.2)) =
      applyPicks cfg scene e (cands.map (·.2)) (picksOfWV winners cands st.nextId) st := by
  rw [tie_visual_apply_winners]
  have := runG_applyPicksV cfg hb hv scene e winners cands st st.nextId [] [] hle
  simp only [Option.map_map] at this ⊢
  rw [show ((fun r : Nat × St × List Rec => (({ r.2.1 with nextId := r.1 } : St), r.2.2)) ∘ fun x : RunSt St Rec => x.1) =
      (fun r : RunSt St Rec => (({ r.1.2.1 with nextId := r.1.1 } : St), r.1.2.2)) from rfl]
  rw [this]
  cases applyPicks cfg scene e (cands.map (·.2)) (picksOfWV winners cands st.nextId) st with
  | none => rfl
  | some p => simp

end SimVerif.Tie
