import SimVerif.Gen.KKalmanMat
import SimVerif.Gen.KKalmanVec
import SimVerif.Props.C07b
import Mathlib.Tactic.FinCases
/-!
# Tie (DESIGN.md 14.8): the Kalman filters at matrix level, as the Rust source has them now

`Gen/KKalmanMat.lean` is regenerated on every run from `kalman_2d_box.rs` / `kalman_2d_point.rs`: the nalgebra
expressions of `new`, `initiate`, `predict`, `project`, `update`, `distance` read as Mathlib matrices, the `2n`
state indexed by positions ⊕ velocities in storage order. This file proves that on a state of the form
`(toMean cs, toCov cs)` (the invariant of `C07_blockdiag_inv`) each of them **is** the textbook step of
`Props/C07b.lean`, hence `predict1` / `update1` / `dist1` / `init1` of `Model/Kalman.lean` in every coordinate,
with the noise vectors the source computes (`std_position`, `std_velocity`, translated as well).

`solve_lower_triangular` and `cholesky().l()` of nalgebra are parameters with a stated contract on diagonal
matrices (forward substitution with a diagonal matrix divides every row by its diagonal entry; the Cholesky
factor of a diagonal matrix is the diagonal matrix of square roots).
-/
set_option linter.unusedSectionVars false
set_option linter.unusedVariables false
namespace SimVerif.Tie
open SimVerif.Kalman SimVerif.C07 SimVerif.Gen.K Matrix

variable {α : Type} [Field α] [LinearOrder α] {n : ℕ} [NeZero n]

/-- a column vector as an `ι × 1` matrix (nalgebra's `SVector`) -/
def col {ι : Type} (v : ι → α) : Matrix ι (Fin 1) α := fun i _ => v i

theorem mul_col {ι κ : Type} [Fintype κ] (M : Matrix ι κ α) (v : κ → α) : M * col v = col (M *ᵥ v) := by
  ext i j; simp [col, Matrix.mul_apply, Matrix.mulVec, dotProduct]

theorem col_add {ι : Type} (v w : ι → α) : col v + col w = col (v + w) := by ext i j; rfl
theorem col_sub {ι : Type} (v w : ι → α) : col v - col w = col (v - w) := by ext i j; rfl

/-- noise read from a list in storage order -/
def ofL (l : List α) (i : Fin n) : α := l.getD i.val 0

theorem natIdx_inl (i : Fin n) : (NatIdx.toNat (Sum.inl i : Fin n ⊕ Fin n)) = i.val := rfl
theorem natIdx_inr (i : Fin n) : (NatIdx.toNat (Sum.inr i : Fin n ⊕ Fin n)) = n + i.val := rfl

/-- `from_diagonal(std ⊙ std)` for `std` = positions' deviations followed by the velocities' = `Q = diag(qp, qv)` -/
theorem diagOf_sq_append (a b : List α) (ha : a.length = n) :
    diagOf (cmul (colOfList (ι := Fin n ⊕ Fin n) (a ++ b)) (colOfList (a ++ b))) =
      Qm (fun i => ofL a i * ofL a i) (fun i => ofL b i * ofL b i) := by
  unfold diagOf cmul colOfList Qm ofL
  ext (i | i) (j | j)
  · by_cases h : i = j
    · subst h
      have hi : i.val < a.length := by rw [ha]; exact i.isLt
      simp [natIdx_inl, List.getD_eq_getElem?_getD, List.getElem?_append_left hi]
    · simp [h]
  · simp
  · simp
  · by_cases h : i = j
    · subst h
      have hi : a.length ≤ n + i.val := by rw [ha]; exact Nat.le_add_right _ _
      simp [natIdx_inr, List.getD_eq_getElem?_getD, List.getElem?_append_right hi, ha]
    · simp [h]

theorem diagOf_sq (a : List α) :
    diagOf (cmul (colOfList (ι := Fin n) a) (colOfList a)) = diagonal (fun i => ofL a i * ofL a i) := by
  unfold diagOf cmul colOfList ofL
  rfl

/-- **prediction, generic core**: `F m`, `F P Fᵀ + from_diagonal(std ⊙ std)` on an independent-coordinates state -/
theorem predict_core (cs : Fin n → C1 α) (a b : List α) (ha : a.length = n) :
    ((Fm : Matrix _ _ α) * col (toMean cs),
      (Fm : Matrix _ _ α) * toCov cs * Fmᵀ + diagOf (cmul (colOfList (a ++ b)) (colOfList (a ++ b)))) =
    (col (toMean (fun i => predict1 (cs i) (ofL a i * ofL a i) (ofL b i * ofL b i))),
      toCov (fun i => predict1 (cs i) (ofL a i * ofL a i) (ofL b i * ofL b i))) := by
  rw [mul_col, C07_matrix_predict_mean cs (fun i => ofL a i * ofL a i) (fun i => ofL b i * ofL b i),
    diagOf_sq_append a b ha, C07_matrix_predict_cov]

theorem Hm_mulVec_toMean (cs : Fin n → C1 α) : (Hm : Matrix _ _ α) *ᵥ toMean cs = fun i => (cs i).p := by
  unfold Hm toMean
  rw [fromCols_mulVec_sumElim]
  simp

theorem colOfList_fin (l : List α) : colOfList (ι := Fin n) l = col (ofL l) := rfl

/-- **projection, generic core**: `H m`, `H P Hᵀ + from_diagonal(std ⊙ std)` = positions, `diag(aᵢ + rᵢ)` -/
theorem project_core (cs : Fin n → C1 α) (a : List α) :
    ((Hm : Matrix _ _ α) * col (toMean cs),
      (Hm : Matrix _ _ α) * toCov cs * Hmᵀ + diagOf (cmul (colOfList (ι := Fin n) a) (colOfList a))) =
    (col (fun i => (cs i).p), diagonal fun i => s1 (cs i) (ofL a i * ofL a i)) := by
  rw [mul_col, Hm_mulVec_toMean, diagOf_sq, C07_matrix_innovation]

/-- contract of nalgebra's `solve_lower_triangular` on a diagonal matrix with non-zero diagonal: every row of the
right-hand side is divided by the diagonal entry (forward substitution with nothing below the diagonal) -/
def SolveLowerDiag (solveLower : {r c : Type} → [Fintype r] → [DecidableEq r] → Matrix r r α → Matrix r c α → Matrix r c α) : Prop :=
  ∀ {r c : Type} [Fintype r] [DecidableEq r] (d : r → α) (b : Matrix r c α), (∀ i, d i ≠ 0) →
    solveLower (diagonal d) b = fun i j => b i j / d i

/-- the gain the source computes, `solve(S, (P Hᵀ)ᵀ)`, is the transpose of the textbook gain `K = P Hᵀ S⁻¹` -/
theorem gain_core (solveLower : {r c : Type} → [Fintype r] → [DecidableEq r] → Matrix r r α → Matrix r c α → Matrix r c α)
    (hsolve : SolveLowerDiag solveLower) (cs : Fin n → C1 α) (r : Fin n → α) (hs : ∀ i, s1 (cs i) (r i) ≠ 0) :
    solveLower (diagonal fun i => s1 (cs i) (r i)) ((toCov cs * (Hm : Matrix _ _ α)ᵀ)ᵀ) = (Km cs r)ᵀ := by
  have h := hsolve (fun i => s1 (cs i) (r i)) ((toCov cs * (Hm : Matrix _ _ α)ᵀ)ᵀ) hs
  beta_reduce at h
  rw [h, ← C07_matrix_gain cs r hs]
  ext i j
  simp only [transpose_apply, mul_diagonal]
  field_simp [hs i]

/-- **update, generic core**: mean `m + (innovationᵀ · gain)ᵀ`, covariance `P − gainᵀ S gain`, with the gain of `gain_core`,
are the textbook update, i.e. `update1` in every coordinate -/
theorem update_core (cs : Fin n → C1 α) (r z : Fin n → α) :
    (col (toMean cs) + ((col z - col (fun i => (cs i).p))ᵀ * (Km cs r)ᵀ)ᵀ,
      toCov cs - (Km cs r)ᵀᵀ * (diagonal fun i => s1 (cs i) (r i)) * (Km cs r)ᵀ) =
    (col (toMean (fun i => update1 (cs i) (r i) (z i))), toCov (fun i => update1 (cs i) (r i) (z i))) := by
  rw [transpose_transpose, C07_matrix_update_cov cs r z, ← C07_matrix_update_mean cs r z, Hm_mulVec_toMean]
  congr 1
  rw [← transpose_mul, transpose_transpose, col_sub, mul_col, col_add]

/-- **distance, generic core**: with `L = cholesky(S).l()` the diagonal matrix of square roots, `‖L⁻¹ (z − H m)‖²` is the
sum of the per-coordinate squared Mahalanobis distances -/
theorem distance_core (solveLower : {r c : Type} → [Fintype r] → [DecidableEq r] → Matrix r r α → Matrix r c α → Matrix r c α)
    (hsolve : SolveLowerDiag solveLower) (cs : Fin n → C1 α) (r z q : Fin n → α)
    (hq : ∀ i, q i * q i = s1 (cs i) (r i)) (hs : ∀ i, s1 (cs i) (r i) ≠ 0) :
    msum (cmul (solveLower (diagonal q) (col z - col fun i => (cs i).p)) (solveLower (diagonal q) (col z - col fun i => (cs i).p))) =
      ∑ i, dist1 (cs i) (r i) (z i) := by
  have hqne : ∀ i, q i ≠ 0 := by
    intro i h0; apply hs i; rw [← hq i, h0, mul_zero]
  have h := hsolve q (col z - col fun i => (cs i).p) hqne
  beta_reduce at h
  rw [h]
  unfold msum cmul dist1
  apply Finset.sum_congr rfl
  intro i _
  simp only [Finset.univ_unique, Finset.sum_singleton, col, Matrix.sub_apply]
  rw [← hq i]
  field_simp [hqne i]

/-- **initiation, generic core** -/
theorem initiate_core (z : Fin n → α) (a b : List α) (ha : a.length = n) :
    diagOf (cmul (colOfList (ι := Fin n ⊕ Fin n) (a ++ b)) (colOfList (a ++ b))) =
      toCov (fun i => init1 (z i) (ofL a i) (ofL b i)) := by
  rw [diagOf_sq_append a b ha, (C07_matrix_init z (ofL a) (ofL b)).2]
  rfl

/-! ### the box filter (`n = 5`) -/

/-- `Universal2DBoxKalmanFilter::new`: identity with `DT` on the position/velocity couplings = `F = [[1, 1], [0, 1]]` (`DT = 1`) -/
theorem tie_box_motion_matrix : box_motion_matrix (1 : α) = (Fm : Matrix (Fin 5 ⊕ Fin 5) (Fin 5 ⊕ Fin 5) α) := by
  unfold box_motion_matrix Fm
  simp only [List.range', List.foldl, Nat.sub_zero]
  ext (i | i) (j | j) <;> fin_cases i <;> fin_cases j <;>
    simp [setEntry, identityRect, NatIdx.toNat, Matrix.one_apply]

/-- the `update_matrix` of `new`, `SMatrix::<5, 10>::identity()`, is the measurement matrix `H = [1 0]` -/
theorem tie_box_update_matrix : (box_update_matrix : Matrix (Fin 5) (Fin 5 ⊕ Fin 5) α) = Hm := by
  unfold box_update_matrix Hm
  ext i (j | j) <;> fin_cases i <;> fin_cases j <;> simp [identityRect, NatIdx.toNat, Matrix.one_apply, Matrix.fromCols]

theorem tie_point_update_matrix : (point_update_matrix : Matrix (Fin 2) (Fin 2 ⊕ Fin 2) α) = Hm := by
  unfold point_update_matrix Hm
  ext i (j | j) <;> fin_cases i <;> fin_cases j <;> simp [identityRect, NatIdx.toNat, Matrix.one_apply, Matrix.fromCols]

theorem tie_point_motion_matrix : point_motion_matrix (1 : α) = (Fm : Matrix (Fin 2 ⊕ Fin 2) (Fin 2 ⊕ Fin 2) α) := by
  unfold point_motion_matrix Fm
  simp only [List.range', List.foldl, Nat.sub_zero]
  ext (i | i) (j | j) <;> fin_cases i <;> fin_cases j <;>
    simp [setEntry, identityRect, NatIdx.toNat, Matrix.one_apply]

/-- the measurement vector the source reads off a box -/
def boxMeas (b : Geom.UBox α) : List α := [b.xc, b.yc, b.angle.getD 0, b.aspect, b.height]

/-- **`predict` of the box filter is the textbook prediction** with `Q = diag(std_position², std_velocity²)` at the
state's height: `predict1` in every coordinate -/
theorem tie_box_predict (cs : Fin 5 → C1 α) (wpos wvel : α) :
    box_predict Fm wpos wvel (col (toMean cs), toCov cs) =
      (let a := box_std_position wpos 1 (1 / 100) (cs 4).p
       let b := box_std_velocity wvel 1 (1 / 100000) (cs 4).p
       (col (toMean (fun i => predict1 (cs i) (ofL a i * ofL a i) (ofL b i * ofL b i))),
        toCov (fun i => predict1 (cs i) (ofL a i * ofL a i) (ofL b i * ofL b i)))) := by
  unfold box_predict
  exact predict_core cs _ _ (by simp [box_std_position])

/-- **`project`**: observed positions and the diagonal innovation covariance `aᵢ + rᵢ` -/
theorem tie_box_project (cs : Fin 5 → C1 α) (wpos : α) :
    box_project Hm wpos (col (toMean cs)) (toCov cs) =
      (let a := box_std_position wpos 1 (1 / 10) (cs 4).p
       (col (fun i => (cs i).p), diagonal fun i => s1 (cs i) (ofL a i * ofL a i))) := by
  unfold box_project
  exact project_core cs _

/-- **`update` of the box filter is the textbook update** `m + K(z − Hm)`, `P − K S Kᵀ`, `K = P Hᵀ S⁻¹`: `update1` in every
coordinate (for `solve_lower_triangular` meeting its contract, and non-zero innovation variances) -/
theorem tie_box_update (solveLower : {r c : Type} → [Fintype r] → [DecidableEq r] → Matrix r r α → Matrix r c α → Matrix r c α)
    (hsolve : SolveLowerDiag solveLower) (cs : Fin 5 → C1 α) (wpos : α) (m : Geom.UBox α)
    (hs : ∀ i, s1 (cs i) (ofL (box_std_position wpos 1 (1 / 10) (cs 4).p) i * ofL (box_std_position wpos 1 (1 / 10) (cs 4).p) i) ≠ 0) :
    box_update solveLower Hm wpos (col (toMean cs), toCov cs) m =
      (let a := box_std_position wpos 1 (1 / 10) (cs 4).p
       (col (toMean (fun i => update1 (cs i) (ofL a i * ofL a i) (ofL (boxMeas m) i))),
        toCov (fun i => update1 (cs i) (ofL a i * ofL a i) (ofL (boxMeas m) i)))) := by
  unfold box_update
  simp only [tie_box_project]
  rw [gain_core solveLower hsolve cs _ hs]
  exact update_core cs _ (ofL (boxMeas m))

/-- **`distance` of the box filter is the squared Mahalanobis distance** to the projected state, the sum of `dist1` -/
theorem tie_box_distance (solveLower : {r c : Type} → [Fintype r] → [DecidableEq r] → Matrix r r α → Matrix r c α → Matrix r c α)
    (hsolve : SolveLowerDiag solveLower) (cholL : Matrix (Fin 5) (Fin 5) α → Matrix (Fin 5) (Fin 5) α)
    (cs : Fin 5 → C1 α) (wpos : α) (m : Geom.UBox α) (q : Fin 5 → α)
    (hchol : cholL (diagonal fun i => s1 (cs i) (ofL (box_std_position wpos 1 (1 / 10) (cs 4).p) i * ofL (box_std_position wpos 1 (1 / 10) (cs 4).p) i)) = diagonal q)
    (hq : ∀ i, q i * q i = s1 (cs i) (ofL (box_std_position wpos 1 (1 / 10) (cs 4).p) i * ofL (box_std_position wpos 1 (1 / 10) (cs 4).p) i))
    (hs : ∀ i, s1 (cs i) (ofL (box_std_position wpos 1 (1 / 10) (cs 4).p) i * ofL (box_std_position wpos 1 (1 / 10) (cs 4).p) i) ≠ 0) :
    box_distance solveLower cholL Hm wpos (col (toMean cs), toCov cs) m =
      ∑ i, dist1 (cs i) (ofL (box_std_position wpos 1 (1 / 10) (cs 4).p) i * ofL (box_std_position wpos 1 (1 / 10) (cs 4).p) i) (ofL (boxMeas m) i) := by
  unfold box_distance
  simp only [tie_box_project, hchol]
  exact distance_core solveLower hsolve cs _ (ofL (boxMeas m)) q hq hs

/-- **`initiate`**: measured positions, zero velocities, diagonal covariance of squared deviations: `init1` in every coordinate -/
theorem tie_box_initiate (wpos wvel : α) (b : Geom.UBox α) :
    box_initiate wpos wvel b =
      (let sp := box_std_position wpos 2 (1 / 100) b.height
       let sv := box_std_velocity wvel 10 (1 / 100000) b.height
       (col (toMean (fun i => init1 (ofL (boxMeas b) i) (ofL sp i) (ofL sv i))),
        toCov (fun i => init1 (ofL (boxMeas b) i) (ofL sp i) (ofL sv i)))) := by
  unfold box_initiate
  simp only []
  congr 1
  · ext (i | i) j <;> fin_cases i <;> simp [colOfList, col, toMean, init1, NatIdx.toNat, ofL, boxMeas]
  · exact initiate_core (ofL (boxMeas b)) _ _ (by simp [box_std_position])

/-! ### the point filter (`n = 2`) and the vector of point filters -/

def ptMeas (p : α × α) : List α := [p.1, p.2]

theorem tie_point_predict (cs : Fin 2 → C1 α) (wpos wvel : α) :
    point_predict Fm wpos wvel (col (toMean cs), toCov cs) =
      (let a := point_std_position wpos 1 0
       let b := point_std_velocity wvel 1 0
       (col (toMean (fun i => predict1 (cs i) (ofL a i * ofL a i) (ofL b i * ofL b i))),
        toCov (fun i => predict1 (cs i) (ofL a i * ofL a i) (ofL b i * ofL b i)))) := by
  unfold point_predict
  exact predict_core cs _ _ (by simp [point_std_position])

theorem tie_point_project (cs : Fin 2 → C1 α) (wpos : α) :
    point_project Hm wpos (col (toMean cs)) (toCov cs) =
      (let a := point_std_position wpos 1 0
       (col (fun i => (cs i).p), diagonal fun i => s1 (cs i) (ofL a i * ofL a i))) := by
  unfold point_project
  exact project_core cs _

theorem tie_point_update (solveLower : {r c : Type} → [Fintype r] → [DecidableEq r] → Matrix r r α → Matrix r c α → Matrix r c α)
    (hsolve : SolveLowerDiag solveLower) (cs : Fin 2 → C1 α) (wpos : α) (p : α × α)
    (hs : ∀ i, s1 (cs i) (ofL (point_std_position wpos 1 0) i * ofL (point_std_position wpos 1 0) i) ≠ 0) :
    point_update solveLower Hm wpos (col (toMean cs), toCov cs) p =
      (let a := point_std_position wpos 1 0
       (col (toMean (fun i => update1 (cs i) (ofL a i * ofL a i) (ofL (ptMeas p) i))),
        toCov (fun i => update1 (cs i) (ofL a i * ofL a i) (ofL (ptMeas p) i)))) := by
  unfold point_update
  simp only [tie_point_project]
  rw [gain_core solveLower hsolve cs _ hs]
  exact update_core cs _ (ofL (ptMeas p))

theorem tie_point_distance (solveLower : {r c : Type} → [Fintype r] → [DecidableEq r] → Matrix r r α → Matrix r c α → Matrix r c α)
    (hsolve : SolveLowerDiag solveLower) (cholL : Matrix (Fin 2) (Fin 2) α → Matrix (Fin 2) (Fin 2) α)
    (cs : Fin 2 → C1 α) (wpos : α) (p : α × α) (q : Fin 2 → α)
    (hchol : cholL (diagonal fun i => s1 (cs i) (ofL (point_std_position wpos 1 0) i * ofL (point_std_position wpos 1 0) i)) = diagonal q)
    (hq : ∀ i, q i * q i = s1 (cs i) (ofL (point_std_position wpos 1 0) i * ofL (point_std_position wpos 1 0) i))
    (hs : ∀ i, s1 (cs i) (ofL (point_std_position wpos 1 0) i * ofL (point_std_position wpos 1 0) i) ≠ 0) :
    point_distance solveLower cholL Hm wpos (col (toMean cs), toCov cs) p =
      ∑ i, dist1 (cs i) (ofL (point_std_position wpos 1 0) i * ofL (point_std_position wpos 1 0) i) (ofL (ptMeas p) i) := by
  unfold point_distance
  simp only [tie_point_project, hchol]
  exact distance_core solveLower hsolve cs _ (ofL (ptMeas p)) q hq hs

theorem tie_point_initiate (wpos wvel : α) (p : α × α) :
    point_initiate wpos wvel p =
      (let sp := point_std_position wpos 2 0
       let sv := point_std_velocity wvel 10 0
       (col (toMean (fun i => init1 (ofL (ptMeas p) i) (ofL sp i) (ofL sv i))),
        toCov (fun i => init1 (ofL (ptMeas p) i) (ofL sp i) (ofL sv i)))) := by
  unfold point_initiate
  simp only []
  congr 1
  · ext (i | i) j <;> fin_cases i <;> simp [colOfList, col, toMean, init1, NatIdx.toNat, ofL, ptMeas]
  · exact initiate_core (ofL (ptMeas p)) _ _ (by simp [point_std_position])

/-- **`Vec2DKalmanFilter` treats its points independently**: every method of the source is the point filter's method
mapped over the elements (zipped with the measurements), so element `i` of the result depends on element `i` of the
arguments only -/
theorem tie_vec_predict {S R : Type} (f : S → R) (sts : List S) : vec_predict (P := Unit) f sts = sts.map f := rfl
theorem tie_vec_initiate {P R : Type} (f : P → R) (ps : List P) : vec_initiate (S := Unit) f ps = ps.map f := rfl
theorem tie_vec_update {S P R : Type} (f : S → P → R) (sts : List S) (ps : List P) :
    vec_update f sts ps = (sts.zip ps).map (fun x => f x.1 x.2) := rfl
theorem tie_vec_distance {S P R : Type} (f : S → P → R) (sts : List S) (ps : List P) :
    vec_distance f sts ps = (sts.zip ps).map (fun x => f x.1 x.2) := rfl
theorem tie_vec_update_getElem {S P R : Type} (f : S → P → R) (sts : List S) (ps : List P) (i : Nat)
    (h1 : i < sts.length) (h2 : i < ps.length) :
    (vec_update f sts ps)[i]? = some (f sts[i] ps[i]) := by
  rw [tie_vec_update]; simp [h1, h2]

/-- non-vacuity: a box state straight after `initiate` with positive weights and height has non-zero innovation variances -/
example : ∀ i : Fin 5, s1 (init1 (3 : ℚ) 2 1) (ofL (box_std_position (1 / 20 : ℚ) 1 (1 / 10) 4) i * ofL (box_std_position (1 / 20 : ℚ) 1 (1 / 10) 4) i) ≠ 0 := by
  intro i; fin_cases i <;> norm_num [s1, init1, ofL, box_std_position]

end SimVerif.Tie
