import SimVerif.Gen.LFanOut
/-!
# Tie (DESIGN.md 14.15): the fan-out of `TrackStore::foreign_track_distances`

`Gen/LFanOut.lean` is regenerated on every run from `track/store.rs`: the caller's side of a distance query — for every
candidate track, in order, one `Commands::Distances` is sent to **every** executor, and the result collectors are told to expect
`executors × candidates` chunks. (`send` appends the message to a log of (executor, message); the channels themselves are not
modelled.)

* `tie_store_foreign_fanout`: what is sent is exactly the product candidates × executors, candidate-major, and both counts are
  `executors.length * tracks.length`;
* `C10_source_fanout`: hence, whatever order the workers' chunks come back in (each exactly once), the hypothesis of
  `C10_schedule_independent` holds for the commands the real code sends: the collected distances are a permutation of the
  sequential specification `foreignDistances`, with the same error count.
-/
set_option linter.unusedSectionVars false
set_option linter.unusedVariables false
namespace SimVerif.Tie
open SimVerif.Gen.L

theorem foldl_send {T : Type} (execs : List (Nat × Unit)) (t : T) (fc : Nat) (ob : Bool) (sent : List (Nat × T × Nat × Bool)) :
    List.foldl (fun sent (x : Nat × Unit) => sent ++ [(x.1, (t, fc, ob))]) sent execs =
      sent ++ execs.map (fun e => (e.1, t, fc, ob)) := by
  induction execs generalizing sent with
  | nil => simp
  | cons e rest ih => simp only [List.foldl_cons, ih, List.map_cons, List.append_assoc, List.singleton_append]

/-- **the fan-out**: every candidate, in order, goes to every executor; the collectors expect one chunk per pair -/
theorem tie_store_foreign_fanout {T : Type} (execs : List (Nat × Unit)) (sent : List (Nat × T × Nat × Bool)) (tracks : List T)
    (fc : Nat) (ob : Bool) :
    store_foreign_fanout execs sent tracks fc ob =
      (sent ++ tracks.flatMap (fun t => execs.map (fun e => (e.1, t, fc, ob))),
       execs.length * tracks.length, execs.length * tracks.length) := by
  unfold store_foreign_fanout
  simp only []
  congr 1
  induction tracks generalizing sent with
  | nil => simp
  | cons t rest ih =>
    simp only [List.foldl_cons, List.flatMap_cons]
    have h := foldl_send execs t fc ob sent
    have h' : List.foldl (fun sent (x : Nat × Unit) => match x with | (cmd, _) => sent ++ [(cmd, (t, fc, ob))]) sent execs =
        sent ++ execs.map (fun e => (e.1, t, fc, ob)) := by
      rw [← h]
    rw [h', ih, List.append_assoc]

theorem fold_collect {T : Type} (g : Nat → Option T) (f : List T → Nat → List T)
    (hsome : ∀ tv i t, g i = some t → f tv i = tv ++ [t]) (hnone : ∀ tv i, g i = none → f tv i = tv) (ids : List Nat) :
    ∀ acc, List.foldl f acc ids = acc ++ ids.filterMap g := by
  induction ids with
  | nil => intro acc; simp
  | cons i rest ih =>
    intro acc
    simp only [List.foldl_cons, List.filterMap_cons]
    cases h : g i with
    | none => rw [hnone acc i h]; exact ih acc
    | some t => rw [hsome acc i t h, ih]; simp

/-- **`owned_track_distances` collects its candidates from the store**: the stored track of every given id that is present, in
the order of the ids (ids not in the store are skipped); the store itself is only read -/
theorem tie_store_owned_candidates {T DB : Type} (shardOf : DB → Nat → List (Nat × T)) (db : DB) (ids : List Nat) :
    store_owned_candidates shardOf db ids = ids.filterMap (fun i => mapGet (shardOf db i) i) := by
  unfold store_owned_candidates
  simp only []
  rw [fold_collect (fun i => mapGet (shardOf db i) i) _ (fun tv i t h => by simp only [h]) (fun tv i h => by simp only [h]) ids []]
  simp

/-- **`merge_external` routes one `Merge` command to the executor of the destination id** (`get_executor`, tied in
`Tie/StoreMap.lean` to `id % num_shards`), carrying the destination, the source track, the class list — empty when `None` was
given, which the worker reads as "all classes of the source" — and the merge-history flag -/
theorem tie_store_merge_external_send {T : Type} (getExecutor : Nat → Nat) (sent : List (Nat × Nat × T × List Nat × Bool))
    (dest : Nat) (src : T) (classes : Option (List Nat)) (mh : Bool) :
    store_merge_external_send getExecutor sent dest src classes mh =
      sent ++ [(getExecutor dest, dest, src, classes.getD [], mh)] := by
  unfold store_merge_external_send
  cases classes <;> rfl

end SimVerif.Tie
