import SimVerif.Gen.LGallery
import SimVerif.Model.Tracker
import Mathlib.Order.Defs.LinearOrder
import Mathlib.Algebra.Order.Ring.Rat
import Mathlib.Tactic.NormNum
/-!
# Tie (DESIGN.md 14.8): the gallery maintenance of `VisualMetric::optimize` as the Rust source has it now
(`SimVerif.Gen.L.optimize_observations`, `optimize_tail`, regenerated on every run) = `galleryUpdate` / `featCount`
of `SimVerif/Model/Tracker.lean`, the functions the gallery theorems of C13 are about.

The observations are read through three accessors (`feature()`, `drop_bbox()`, `visual_quality()`), which the
generated definitions take as parameters; here they are instantiated with the model's gallery entries.
-/
namespace SimVerif.Tie
open SimVerif.Gen.L SimVerif.Tracker

/-- the model's reading of an observation: feature token `0` = no feature -/
def geFeature (g : GE) : Option Nat := if g.feat != 0 then some g.feat else none
def geDropBox (g : GE) : GE := { g with box := false }

theorem cmpQ_ne_gt (a b : Rat) : (cmpQ a b != Ordering.gt) = decide (a ≤ b) := by
  unfold cmpQ
  by_cases h1 : a < b
  · simp [h1, le_of_lt h1]
  · by_cases h2 : b < a
    · simp [h1, h2, not_le.mpr h2]
    · simp [h1, h2, not_lt.mp h2]

theorem listSwap_last {α : Type} (a0 new : α) (rest : List α) :
    listSwap (a0 :: rest ++ [new]) 0 ((a0 :: rest ++ [new]).length - 1) = new :: rest ++ [a0] := by
  unfold listSwap
  have hlen : (a0 :: rest ++ [new]).length - 1 = (a0 :: rest).length := by simp
  rw [hlen]
  have h0 : (a0 :: rest ++ [new])[0]? = some a0 := rfl
  have hl : (a0 :: rest ++ [new])[(a0 :: rest).length]? = some new := by
    rw [List.getElem?_append_right (by simp)]; simp
  rw [h0, hl]
  simp only [List.cons_append, List.set_cons_zero, List.length_cons, List.set_cons_succ]
  congr 1
  induction rest with
  | nil => rfl
  | cons r rs ih => simp [List.set_cons_succ, ih]

theorem listSwap_single {α : Type} (new : α) : listSwap ([] ++ [new]) 0 (([] ++ [new] : List α).length - 1) = [new] := by
  simp [listSwap]

/-- `optimize_observations` (keep the observations with a feature, drop their boxes, stable sort by decreasing
quality, drop the last one when the gallery is full) is the first half of the model's `galleryUpdate` -/
theorem tie_optimize_observations (maxObs : Nat) (old : List GE) :
    optimize_observations geFeature geDropBox (·.quality) maxObs old =
      (let sorted := ((old.filter (fun g => g.feat != 0)).map (fun g => { g with box := false })).mergeSort
          (fun a b => decide (b.quality ≤ a.quality))
       if sorted.length ≥ maxObs then sorted.dropLast else sorted) := by
  unfold optimize_observations
  have hf : (fun e => (geFeature e).isSome) = (fun (g : GE) => g.feat != 0) := by
    funext g; unfold geFeature; by_cases h : g.feat = 0 <;> simp [h]
  have hd : geDropBox = (fun (g : GE) => { g with box := false }) := rfl
  have hs : (fun (a b : GE) => ((fun (e1 e2 : GE) => cmpQ e2.quality e1.quality) a b) != Ordering.gt)
      = (fun a b => decide (b.quality ≤ a.quality)) := by
    funext a b; exact cmpQ_ne_gt _ _
  simp only [hf, hd, hs, List.dropLast_eq_take, ge_iff_le]
  split <;> simp_all

/-- **the gallery update of the source is the model's `galleryUpdate`**, and the collected-feature count it
stores is the model's `featCount` of the new gallery -/
theorem tie_gallery_update (maxObs : Nat) (old : List GE) (new : GE) (c : Nat) :
    optimize_tail geFeature geDropBox (·.quality) maxObs old new c
      = (galleryUpdate maxObs old new, featCount (galleryUpdate maxObs old new)) := by
  have hcount : ∀ l : List GE, (l.filter (fun f => (geFeature f).isSome)).length = featCount l := by
    intro l; unfold featCount; congr 2
    funext g; unfold geFeature; by_cases h : g.feat = 0 <;> simp [h]
  unfold optimize_tail
  simp only [hcount]
  have hg : listSwap (optimize_observations geFeature geDropBox (·.quality) maxObs old ++ [new]) 0
      ((optimize_observations geFeature geDropBox (·.quality) maxObs old ++ [new]).length - 1) = galleryUpdate maxObs old new := by
    rw [tie_optimize_observations]
    unfold galleryUpdate
    simp only
    generalize (if (((old.filter (fun g => g.feat != 0)).map (fun g => { g with box := false })).mergeSort
          (fun a b => decide (b.quality ≤ a.quality))).length ≥ maxObs then _ else _ : List GE) = cut
    cases cut with
    | nil => exact listSwap_single new
    | cons a0 rest => exact listSwap_last a0 new rest
  simp only [hg]

/-- non-vacuity: a full gallery of two, the lower quality entry goes, the new observation is first and keeps its box -/
example : optimize_tail geFeature geDropBox (·.quality) 2
    [{ quality := 2, feat := 7, box := true }, { quality := 3, feat := 8, box := false }] { quality := 1, feat := 9, box := true } 0
    = ([{ quality := 1, feat := 9, box := true }, { quality := 3, feat := 8, box := false }], 2) := by
  rw [tie_gallery_update]
  norm_num [galleryUpdate, featCount, List.mergeSort, List.merge, List.MergeSort.Internal.splitInTwo]

end SimVerif.Tie
