import SimVerif.Gen.LShares
/-!
# Tie (DESIGN.md 14.15): the own-area shares of a call's detections

`Gen/LShares.lean` is regenerated on every run from the statements of `VisualSort::predict_with_scene` and of the per-scene loop
of `BatchVisualSort::predict` that compute `percentages` (statement snippets). C04 says a scene's grouping does not depend on other
scenes; the own-area share of a detection (which gates the use and the collection of its feature, C12 / C13) is therefore to be
computed among the boxes **of its own scene and call**:

* `tie_visual_call_shares`, `tie_batch_visual_scene_shares`: the shares are `shares boxes (ownAreas boxes)` for `boxes` = the
  boxes of exactly the observations of this call (batch: of this scene of the batch), in order — nothing else enters —, and only
  when one of the two own-area thresholds is positive (otherwise no shares are computed and none is attached);
* `batch_scene_shares_eq_simple`: the batch tracker computes for a scene what the simple tracker computes for the same detections.
-/
namespace SimVerif.Tie
open SimVerif.Gen.L

variable {B P : Type}

theorem tie_visual_call_shares (ownAreas : List B → List P) (shares : List B → List P → List Rat) (collect use : Rat) (obs : List (VObsIn B)) :
    visual_call_shares ownAreas shares collect use obs =
      (decide (collect + use > 0),
       if collect + use > 0 then shares (obs.map (·.bounding_box)) (ownAreas (obs.map (·.bounding_box))) else []) := by
  unfold visual_call_shares
  by_cases h : collect + use > 0 <;> simp [h]

theorem tie_batch_visual_scene_shares (ownAreas : List B → List P) (shares : List B → List P → List Rat) (collect use : Rat) (obs : List (VObsIn B)) :
    batch_visual_scene_shares ownAreas shares collect use obs =
      (decide (collect + use > 0),
       if collect + use > 0 then shares (obs.map (·.bounding_box)) (ownAreas (obs.map (·.bounding_box))) else []) := by
  unfold batch_visual_scene_shares
  by_cases h : collect + use > 0 <;> simp [h]

/-- a scene of a batch gets the shares the simple tracker computes for the same detections -/
theorem batch_scene_shares_eq_simple (ownAreas : List B → List P) (shares : List B → List P → List Rat) (collect use : Rat) (obs : List (VObsIn B)) :
    batch_visual_scene_shares ownAreas shares collect use obs = visual_call_shares ownAreas shares collect use obs := by
  rw [tie_batch_visual_scene_shares, tie_visual_call_shares]

end SimVerif.Tie
