import SimVerif.Gen.LOwn
/-!
# Tie (DESIGN.md 14.8 / 14.10): `exclusively_owned_areas` as the Rust source has it now
(`SimVerif.Gen.L.exclusively_owned_areas`, regenerated on every run: the pair pre-filter double loop into a `HashSet`, then for
every box the loop of `difference`s over the near boxes; `geo`'s `difference`, the polygon of a box and `too_far` are
parameters) = the specification *"box `i` is clipped, in index order, against every other box `j` of the set for which the
pair (lower index first) is not `too_far`"*. With `C08_toofar_sound` (a pair sharing a point is never `too_far`) this says
that every box overlapping `i` is subtracted from it, and `i` itself never is — the structural half of C15; the other half
(`geo`'s `difference` and `unsigned_area`) is a contract exercised by the correspondence run.
-/
set_option linter.unusedVariables false
namespace SimVerif.Tie
open SimVerif.Gen.L

variable {B P : Type}

/-- the pair of boxes at indices `i ≠ j` is near: not `too_far`, asked with the lower index first -/
def nearB (tooFar : B → B → Bool) (boxes : List B) (i j : Nat) : Bool :=
  match boxes[i]?, boxes[j]? with
  | some x, some y => (decide (i < j) && !tooFar x y) || (decide (j < i) && !tooFar y x)
  | _, _ => false

/-- the specification: clip box `i` against every near box, in index order -/
def ownSpec (tooFar : B → B → Bool) (polyOf : B → P) (diff : P → P → P) (boxes : List B) : List P :=
  boxes.zipIdx.map (fun (own, i) =>
    boxes.zipIdx.foldl (fun p (other, j) => if nearB tooFar boxes i j then diff p (polyOf other) else p) (polyOf own))

theorem mem_foldl_cond {α β : Type} (p : β → Bool) (f : β → α) (l : List β) (init : List α) (x : α) :
    x ∈ l.foldl (fun acc y => if p y then f y :: acc else acc) init ↔ x ∈ init ∨ ∃ y ∈ l, p y = true ∧ f y = x := by
  induction l generalizing init with
  | nil => simp
  | cons y rest ih =>
    rw [List.foldl_cons, ih]
    by_cases hp : p y = true
    · simp only [hp, if_true, List.mem_cons]
      constructor
      · rintro ((h | h) | ⟨z, hz, h⟩)
        · exact Or.inr ⟨y, Or.inl rfl, hp, h.symm⟩
        · exact Or.inl h
        · exact Or.inr ⟨z, Or.inr hz, h⟩
      · rintro (h | ⟨z, (rfl | hz), hpz, hf⟩)
        · exact Or.inl (Or.inr h)
        · exact Or.inl (Or.inl hf.symm)
        · exact Or.inr ⟨z, hz, hpz, hf⟩
    · simp only [hp, List.mem_cons]
      constructor
      · rintro (h | ⟨z, hz, h⟩)
        · exact Or.inl h
        · exact Or.inr ⟨z, Or.inr hz, h⟩
      · rintro (h | ⟨z, (rfl | hz), hpz, hf⟩)
        · exact Or.inl h
        · exact absurd hpz hp
        · exact Or.inr ⟨z, hz, hpz, hf⟩

theorem mem_foldl_acc {α β : Type} (g : List α → β → List α) (Q : β → α → Prop)
    (hg : ∀ acc y x, x ∈ g acc y ↔ x ∈ acc ∨ Q y x) (l : List β) (init : List α) (x : α) :
    x ∈ l.foldl g init ↔ x ∈ init ∨ ∃ y ∈ l, Q y x := by
  induction l generalizing init with
  | nil => simp
  | cons y rest ih =>
    rw [List.foldl_cons, ih, hg]
    simp only [List.mem_cons]
    constructor
    · rintro ((h | h) | ⟨z, hz, h⟩)
      · exact Or.inl h
      · exact Or.inr ⟨y, Or.inl rfl, h⟩
      · exact Or.inr ⟨z, Or.inr hz, h⟩
    · rintro (h | ⟨z, (rfl | hz), h⟩)
      · exact Or.inl (Or.inl h)
      · exact Or.inl (Or.inr h)
      · exact Or.inr ⟨z, hz, h⟩

/-- the pair set the source's double loop collects -/
def pairSet (tooFar : B → B → Bool) (boxes : List B) : List (Nat × Nat) :=
  List.foldl (fun distances (x : B × Nat) =>
    List.foldl (fun distances (y : B × Nat) => if !(tooFar x.1 y.1) then (x.2, (y.2 + x.2) + 1) :: distances else distances)
      distances (List.zipIdx (List.drop (x.2 + 1) boxes))) [] (List.zipIdx boxes)

/-- **the pre-filter collects exactly the index pairs `a < b` whose boxes are not `too_far`** -/
theorem mem_pairSet (tooFar : B → B → Bool) (boxes : List B) (a b : Nat) :
    (a, b) ∈ pairSet tooFar boxes ↔ ∃ x y, boxes[a]? = some x ∧ boxes[b]? = some y ∧ a < b ∧ tooFar x y = false := by
  unfold pairSet
  rw [mem_foldl_acc _ (fun (x : B × Nat) (pr : Nat × Nat) => ∃ y ∈ List.zipIdx (List.drop (x.2 + 1) boxes),
      (!(tooFar x.1 y.1)) = true ∧ (x.2, (y.2 + x.2) + 1) = pr)]
  · simp only [List.not_mem_nil, false_or]
    constructor
    · rintro ⟨⟨x, i⟩, hx, ⟨y, j⟩, hy, hfar, heq⟩
      simp only [Prod.mk.injEq] at heq
      obtain ⟨rfl, rfl⟩ := heq
      rw [List.mk_mem_zipIdx_iff_getElem?] at hx hy
      rw [List.getElem?_drop] at hy
      refine ⟨x, y, hx, ?_, by omega, by simpa using hfar⟩
      have : i + 1 + j = j + i + 1 := by omega
      rw [← this]; exact hy
    · rintro ⟨x, y, hx, hy, hlt, hfar⟩
      refine ⟨(x, a), ?_, (y, b - a - 1), ?_, by simp [hfar], ?_⟩
      · rw [List.mk_mem_zipIdx_iff_getElem?]; exact hx
      · rw [List.mk_mem_zipIdx_iff_getElem?, List.getElem?_drop]
        have : a + 1 + (b - a - 1) = b := by omega
        rw [this]; exact hy
      · simp only [Prod.mk.injEq, true_and]; omega
  · intro acc y x
    exact mem_foldl_cond (fun (z : B × Nat) => !(tooFar y.1 z.1)) (fun z => (y.2, (z.2 + y.2) + 1)) _ acc x

theorem foldl_congr_mem {α β : Type} (f g : α → β → α) (l : List β) (a : α) (h : ∀ acc, ∀ y ∈ l, f acc y = g acc y) :
    l.foldl f a = l.foldl g a := by
  induction l generalizing a with
  | nil => rfl
  | cons y rest ih =>
    rw [List.foldl_cons, List.foldl_cons, h a y (List.mem_cons_self), ih]
    intro acc z hz; exact h acc z (List.mem_cons_of_mem _ hz)

/-- the membership test of the second loop is the nearness of the pair -/
theorem contains_pair (tooFar : B → B → Bool) (boxes : List B) (i j : Nat) (x y : B)
    (hi : boxes[i]? = some x) (hj : boxes[j]? = some y) :
    ((pairSet tooFar boxes).contains (i, j) || (pairSet tooFar boxes).contains (j, i)) = nearB tooFar boxes i j := by
  rw [Bool.eq_iff_iff]
  simp only [Bool.or_eq_true, List.contains_iff_mem, mem_pairSet, nearB, hi, hj, Bool.and_eq_true, decide_eq_true_eq,
    Bool.not_eq_true']
  constructor
  · rintro (⟨x', y', hx', hy', hlt, hfar⟩ | ⟨x', y', hx', hy', hlt, hfar⟩)
    · cases hx'; cases hy'; exact Or.inl ⟨hlt, hfar⟩
    · cases hx'; cases hy'; exact Or.inr ⟨hlt, hfar⟩
  · rintro (⟨hlt, hfar⟩ | ⟨hlt, hfar⟩)
    · exact Or.inl ⟨x, y, rfl, rfl, hlt, hfar⟩
    · exact Or.inr ⟨y, x, rfl, rfl, hlt, hfar⟩

/-- **`exclusively_owned_areas` of the source is the specification**: every box is clipped, in index order, against exactly the
other boxes of the set that are near it -/
theorem tie_exclusively_owned_areas (tooFar : B → B → Bool) (polyOf : B → P) (diff : P → P → P) (boxes : List B) :
    exclusively_owned_areas tooFar polyOf diff boxes = ownSpec tooFar polyOf diff boxes := by
  unfold exclusively_owned_areas ownSpec enumerateL
  simp only [List.map_map]
  apply List.map_congr_left
  rintro ⟨own, i⟩ hown
  simp only [Function.comp]
  apply foldl_congr_mem
  rintro acc ⟨other, j⟩ hother
  rw [List.mk_mem_zipIdx_iff_getElem?] at hown hother
  have := contains_pair tooFar boxes i j own other hown hother
  unfold pairSet at this
  simp only [this]

/-- a box is never clipped against itself -/
theorem nearB_irrefl (tooFar : B → B → Bool) (boxes : List B) (i : Nat) : nearB tooFar boxes i i = false := by
  unfold nearB; cases boxes[i]? <;> simp

/-- nearness is symmetric: the pair is asked once, lower index first, and serves both boxes -/
theorem nearB_symm (tooFar : B → B → Bool) (boxes : List B) (i j : Nat) : nearB tooFar boxes i j = nearB tooFar boxes j i := by
  unfold nearB; cases boxes[i]? <;> cases boxes[j]? <;> simp [Bool.or_comm]

/-- `exclusively_owned_areas_normalized_shares`: own area over (box area + EPS), clamped at 1, box by box -/
theorem tie_own_area_shares (areaOf : B → Rat) (polyArea : P → Rat) (eps : Rat) (boxes : List B) (polys : List P) :
    own_area_shares areaOf polyArea eps boxes polys =
      (boxes.zip polys).map (fun bp => if polyArea bp.2 / (areaOf bp.1 + eps) ≥ 1 then 1 else polyArea bp.2 / (areaOf bp.1 + eps)) := by
  unfold own_area_shares
  simp only [List.map_map]
  apply List.map_congr_left
  rintro ⟨b, p⟩ _
  simp [Function.comp]

/-- non-vacuity: three boxes in a row, the middle one near both neighbours, the outer ones far from each other -/
example : exclusively_owned_areas (fun (a b : Nat) => decide (a + 1 < b ∨ b + 1 < a)) (fun b => [b]) (fun p q => p ++ q) [10, 11, 12]
    = [[10, 11], [11, 10, 12], [12, 11]] := by decide

end SimVerif.Tie
