import SimVerif.Driver.Nms
open SimVerif SimVerif.Wire SimVerif.Driver

/-- one request per line: `<family> <args…> => <implementation's answer…>`; one answer per line -/
def step (line : String) : String :=
  let toks := (line.trimAscii.toString.splitOn " ").filter (· ≠ "")
  let (req, impl) := splitAt "=>" toks
  match req with
  | "case" :: _ => "C"
  | "nms" :: args => NmsD.handle args impl
  | _ => bad "family"

partial def loop (h : IO.FS.Stream) (out : IO.FS.Stream) : IO Unit := do
  let line ← h.getLine
  if line.isEmpty then return ()
  out.putStrLn (step line)
  loop h out

def main : IO Unit := do
  loop (← IO.getStdin) (← IO.getStdout)
