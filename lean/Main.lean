import SimVerif.Driver.Nms
import SimVerif.Driver.Constr
import SimVerif.Driver.Vote
import SimVerif.Driver.Feat
import SimVerif.Driver.Geom
import SimVerif.Driver.Own
import SimVerif.Driver.Py
import SimVerif.Driver.Store
import SimVerif.Driver.Trk
import SimVerif.Driver.Kf
import SimVerif.Driver.SMetric
open SimVerif SimVerif.Wire SimVerif.Driver

structure DState where
  constr : ConstrD.St := {}
  store : StoreD.St := {}
  trk : TrkD.Slots := {}

/-- one request per line: `<family> <args…> => <implementation's answer…>`; one answer per line -/
def step (st : DState) (line : String) : DState × String :=
  let toks := (line.trimAscii.toString.splitOn " ").filter (· ≠ "")
  let (req, impl) := splitAt "=>" toks
  match req with
  | "case" :: _ => ({}, "C")
  | "nms" :: args => (st, NmsD.handle args impl)
  | "track" :: args => let (s, r) := StoreD.handleTrack st.store args impl; ({ st with store := s }, r)
  | "store" :: args => let (s, r) := StoreD.handleStore st.store args impl; ({ st with store := s }, r)
  | "trk" :: args => let (s, r) := TrkD.handle st.trk args impl; ({ st with trk := s }, r)
  | "smetric" :: args => (st, SMetricD.handle args impl)
  | "smetricw" :: args => (st, SMetricD.handleW args impl)
  | "kf" :: args => (st, KfD.handle args impl)
  | "box" :: args => (st, GeomD.handleBox args impl)
  | "geom" :: args => (st, GeomD.handleGeom args impl)
  | "own" :: args => (st, OwnD.handle args impl)
  | "ownc" :: args => (st, OwnD.handle args impl)   -- boxes moved after `gen_vertices`: the answer depends on the current fields only
  | "py" :: args => (st, PyD.handle args impl)
  | "feat" :: args => (st, FeatD.handle args impl)
  | "vote" :: args => (st, VoteD.handle args impl)
  | "constr" :: args => let (s, r) := ConstrD.handle st.constr args impl; ({ st with constr := s }, r)
  | _ => (st, bad "family")

partial def loop (h : IO.FS.Stream) (out : IO.FS.Stream) (st : DState) : IO Unit := do
  let line ← h.getLine
  if line.isEmpty then return ()
  let (st', r) := step st line
  out.putStrLn r
  loop h out st'

def main : IO Unit := do
  loop (← IO.getStdin) (← IO.getStdout) {}
