import SimVerif.Model.Wire
import SimVerif.Model.Nms
import SimVerif.Lemmas.Nms
import SimVerif.Props.C14
import SimVerif.Props.C20
import SimVerif.Props.C17
import SimVerif.Props.C16
import SimVerif.Props.C19
